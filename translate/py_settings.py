#!/usr/bin/env python3
"""Translator: re-extracts, on every run, the option glue of `DTWSettings` from /repo's src/dtaidistance/dtw.py (Python
`ast`) and emits lean/Dtaiverif/Generated/PySettings.lean:

  * `__init__`:   for every derived quantity `adj_<x>`: the test that switches the option off, the value it then gets and
                  the expression used otherwise                      (`if not self.max_step: … = inf  else: … = inner_val(self.max_step)`)
  * `c_kwargs`:   for every option the value that is handed to the C engine when the Python setting is `None` (and the
                  extra conditions under which that value is used), and the keys of the returned dictionary
  * `kwargs`:     the keys of the dictionary that forwards the settings to another Python routine
  * `split_psi`:  the order in which a 4-tuple is unpacked
  * `for_dtw`:    the default of `window`
  * dtw_cc.pyx, `DTWSettings.__init__`: every assignment to the C settings struct with the conditions it stands under

Props/C02.lean pins these tables to the decoders of the model (`RawSettings.toGridPy/toGridC`, `optOff`): the model
assumes exactly this glue.  Anything that does not have the expected shape fails closed (exit 3)."""
import ast
import os
import sys

REPO = os.environ.get("DTAIVERIF_REPO", "/repo")
SRC = os.path.join(REPO, "src", "dtaidistance", "dtw.py")
OUT = os.path.join(os.path.dirname(os.path.dirname(os.path.abspath(__file__))), "lean", "Dtaiverif", "Generated",
                   "PySettings.lean")


class Unsupported(Exception):
    pass


def method(tree, cls, name):
    for node in tree.body:
        if isinstance(node, ast.ClassDef) and node.name == cls:
            for sub in node.body:
                if isinstance(sub, ast.FunctionDef) and sub.name == name:
                    return sub
    raise Unsupported("%s.%s not found" % (cls, name))


def q(s):
    return '"' + s.replace("\\", "\\\\").replace('"', "'") + '"'


def main():
    try:
        tree = ast.parse(open(SRC).read())
        init = method(tree, "DTWSettings", "__init__")
        adj = []
        for st in init.body:
            if isinstance(st, ast.If) and len(st.body) == 1 and len(st.orelse) == 1 \
                    and isinstance(st.body[0], ast.Assign) and isinstance(st.orelse[0], ast.Assign):
                t1, t2 = st.body[0].targets[0], st.orelse[0].targets[0]
                if isinstance(t1, ast.Attribute) and t1.attr.startswith("adj_") and ast.unparse(t1) == ast.unparse(t2):
                    adj.append((t1.attr, ast.unparse(st.test), ast.unparse(st.body[0].value), ast.unparse(st.orelse[0].value)))
        if not adj:
            raise Unsupported("no adj_* definitions found in __init__")
        ck = method(tree, "DTWSettings", "c_kwargs")
        none_vals, keys = [], None
        for st in ck.body:
            if isinstance(st, ast.Assign) and isinstance(st.targets[0], ast.Name) and isinstance(st.value, ast.IfExp):
                none_vals.append((st.targets[0].id, ast.unparse(st.value.body), ast.unparse(st.value.test),
                                  ast.unparse(st.value.orelse)))
            elif isinstance(st, ast.Assign) and isinstance(st.targets[0], ast.Name):
                none_vals.append((st.targets[0].id, "", "", ast.unparse(st.value)))
            elif isinstance(st, ast.Return) and isinstance(st.value, ast.Dict):
                keys = [(k.value, ast.unparse(v)) for k, v in zip(st.value.keys, st.value.values)]
            else:
                raise Unsupported("c_kwargs: unexpected statement %s" % ast.unparse(st)[:60])
        if keys is None:
            raise Unsupported("c_kwargs: no returned dictionary")
        kw = method(tree, "DTWSettings", "kwargs")
        if not (len(kw.body) == 1 and isinstance(kw.body[0], ast.Return) and isinstance(kw.body[0].value, ast.Dict)):
            raise Unsupported("kwargs: expected a single returned dictionary")
        fwd = [(k.value, ast.unparse(v)) for k, v in zip(kw.body[0].value.keys, kw.body[0].value.values)]
        sp = method(tree, "DTWSettings", "split_psi")
        unpack = [ast.unparse(st.targets[0]) for st in ast.walk(sp)
                  if isinstance(st, ast.Assign) and isinstance(st.targets[0], ast.Tuple)]
        ret = [ast.unparse(st.value) for st in sp.body if isinstance(st, ast.Return)]
        fd = method(tree, "DTWSettings", "for_dtw")
        wdef = [(ast.unparse(st.test), ast.unparse(st.body[0])) for st in fd.body if isinstance(st, ast.If)]
        # ---- the Cython side: DTWSettings.__init__ of dtw_cc.pyx (plain Python syntax inside a cdef class)
        import re
        import textwrap
        pyx = open(os.path.join(REPO, "src", "dtaidistance", "dtw_cc.pyx")).read()
        m = re.search(r"\ncdef class DTWSettings:\n(.*?)(?=\n(?:cdef class|class|def|cdef) )", pyx, flags=re.S)
        if not m:
            raise Unsupported("cdef class DTWSettings not found in dtw_cc.pyx")
        m2 = re.search(r"\n(    def __init__\(self, \*\*kwargs\):\n(?:(?:        .*|\s*)\n)+)", m.group(1))
        if not m2:
            raise Unsupported("DTWSettings.__init__ not found in dtw_cc.pyx")
        cinit = ast.parse(textwrap.dedent(m2.group(1))).body[0]
        cassign = []

        def cwalk(stmts, conds):
            for st in stmts:
                if isinstance(st, ast.Assign) and isinstance(st.targets[0], ast.Attribute) \
                        and ast.unparse(st.targets[0].value) == "self._settings":
                    cassign.append((st.targets[0].attr, " and ".join("(%s)" % c_ for c_ in conds), ast.unparse(st.value)))
                elif isinstance(st, ast.Assign) and ast.unparse(st.targets[0]) == "self._settings":
                    cassign.append(("*", " and ".join("(%s)" % c_ for c_ in conds), ast.unparse(st.value)))
                elif isinstance(st, ast.If):
                    t = ast.unparse(st.test)
                    cwalk(st.body, conds + [t])
                    cwalk(st.orelse, conds + ["not (%s)" % t])
                elif isinstance(st, (ast.Raise, ast.Pass, ast.Expr)):
                    continue
                else:
                    raise Unsupported("dtw_cc.DTWSettings.__init__: unexpected statement %s" % ast.unparse(st)[:60])
        cwalk(cinit.body, [])
    except (Unsupported, OSError, SyntaxError, AttributeError, IndexError) as e:
        sys.stderr.write("py_settings translator: %s\n" % e)
        return 3
    L = ["/- GENERATED by translate/py_settings.py from src/dtaidistance/dtw.py — do not edit. -/",
         "namespace Dtai.Gen.PySettings", "",
         "/-- `__init__`: (derived quantity, test that switches the option off, value when off, value otherwise) -/",
         "def adjusted : List (String × String × String × String) := [",
         ",\n".join("  (%s, %s, %s, %s)" % tuple(map(q, a)) for a in adj), "]", "",
         "/-- `c_kwargs`: (option, value used when …, … this test holds, value otherwise) -/",
         "def cKwargs : List (String × String × String × String) := [",
         ",\n".join("  (%s, %s, %s, %s)" % tuple(map(q, a)) for a in none_vals), "]", "",
         "/-- `c_kwargs`: returned dictionary (key, local it is filled from) -/",
         "def cKwargsKeys : List (String × String) := [", ",\n".join("  (%s, %s)" % (q(a), q(b)) for a, b in keys), "]", "",
         "/-- `kwargs`: returned dictionary (key, attribute it is filled from) -/",
         "def kwargsKeys : List (String × String) := [", ",\n".join("  (%s, %s)" % (q(a), q(b)) for a, b in fwd), "]", "",
         "def splitPsiUnpack : List String := [%s]" % ", ".join(map(q, unpack)),
         "def splitPsiReturn : List String := [%s]" % ", ".join(map(q, ret)),
         "def forDtwDefaults : List (String × String) := [%s]" % ", ".join("(%s, %s)" % (q(a), q(b)) for a, b in wdef),
         "",
         "/-- dtw_cc.pyx `DTWSettings.__init__`: every assignment to the C settings struct (field, conditions, value) -/",
         "def cythonInit : List (String × String × String) := [",
         ",\n".join("  (%s, %s, %s)" % tuple(map(q, a)) for a in cassign), "]",
         "", "end Dtai.Gen.PySettings", ""]
    txt = "\n".join(L)
    os.makedirs(os.path.dirname(OUT), exist_ok=True)
    old = open(OUT).read() if os.path.exists(OUT) else None
    if old != txt:
        open(OUT, "w").write(txt)
    return 0


if __name__ == "__main__":
    sys.exit(main())
