#!/usr/bin/env python3
"""Translator: re-extracts, on every run, the integer arithmetic of the pure-Python DTW kernels from /repo's
src/dtaidistance/dtw.py (Python `ast`) and emits lean/Dtaiverif/Generated/PyBand.lean as *Lean functions over Int*
(not as strings):

  * distance():                 every assignment to `length`, `skip`, `j_start`, `j_end` (with the condition of the `if`
                                that encloses it, if any) and every integer subscript applied to the rolling buffer `dtw`;
  * warping_paths():            every assignment to `j_start`, `j_end`;
  * warping_paths_affinity():   every assignment to `j_start`, `j_end`;
  * lb_keogh():                 every assignment to `imin_diff`, `imax_diff`, `imin`, `imax`;
  * dp.py, dp():                the default of `window`, the range of the column loop `for j0 in range(lo, hi)` and the
                                column of the read-out `d = scores[i1, <col>]` (the routine behind needleman_wunsch).

Props/PyBand.lean proves that these functions are the band of the model (`Grid.jStart`, `Grid.jEnd`,
`AffGrid.jStart`, …) and that every subscript of the rolling buffer stays inside the row it addresses, so a change of
one of these expressions in the source breaks a proof obligation (or the build of the theorem that names it).

Supported expression subset: integer constants, names, `s.window`, `len(s1)`/`len(s2)`, `+ - *`, unary minus,
`max`/`min` with two arguments, `abs`, comparisons and `and`/`or`/`not` in conditions.  Anything else fails closed
(exit 3)."""
import ast
import os
import sys

REPO = os.environ.get("DTAIVERIF_REPO", "/repo")
SRC = os.path.join(REPO, "src", "dtaidistance", "dtw.py")
OUT = os.path.join(os.path.dirname(os.path.dirname(os.path.abspath(__file__))), "lean", "Dtaiverif", "Generated",
                   "PyBand.lean")
FIELDS = ["i", "j", "r", "c", "window", "sc", "j_start", "j_end", "skip", "skipp", "length", "i0", "i1", "ii",
          "psi_1b", "psi_1e", "psi_2b", "psi_2e", "only_triu", "ic",
          "imin_diff", "imax_diff", "imin", "imax", "window_is_none"]
DP_SRC = os.path.join(REPO, "src", "dtaidistance", "dp.py")
TARGETS = {"distance": ["length", "skip", "j_start", "j_end", "ic"],
           "warping_paths": ["j_start", "j_end"],
           "warping_paths_affinity": ["j_start", "j_end"],
           "lb_keogh": ["imin_diff", "imax_diff", "imin", "imax"]}


class Unsupported(Exception):
    pass


def expr(e):
    """Python integer expression -> Lean Int expression over the environment `e`"""
    if isinstance(e, ast.Constant) and isinstance(e.value, bool):
        raise Unsupported("boolean constant in an integer expression")
    if isinstance(e, ast.Constant) and isinstance(e.value, int):
        return "(%d : Int)" % e.value
    if isinstance(e, ast.Name):
        if e.id in FIELDS:
            return "e.%s" % e.id
        raise Unsupported("unknown name %s" % e.id)
    if isinstance(e, ast.Attribute) and isinstance(e.value, ast.Name) and e.value.id == "s" and e.attr == "window":
        return "e.window"
    if isinstance(e, ast.Call) and isinstance(e.func, ast.Name):
        f = e.func.id
        if f == "len" and len(e.args) == 1 and isinstance(e.args[0], ast.Name) and e.args[0].id in ("s1", "s2"):
            return "e.r" if e.args[0].id == "s1" else "e.c"
        if f in ("max", "min") and len(e.args) == 2 and not e.keywords:
            return "(%s %s %s)" % (f, expr(e.args[0]), expr(e.args[1]))
        if f == "abs" and len(e.args) == 1:
            return "((Int.natAbs %s : Nat) : Int)" % expr(e.args[0])
        raise Unsupported("call of %s" % f)
    if isinstance(e, ast.BinOp) and isinstance(e.op, (ast.Add, ast.Sub, ast.Mult)):
        op = {ast.Add: "+", ast.Sub: "-", ast.Mult: "*"}[type(e.op)]
        return "(%s %s %s)" % (expr(e.left), op, expr(e.right))
    if isinstance(e, ast.UnaryOp) and isinstance(e.op, ast.USub):
        return "(- %s)" % expr(e.operand)
    raise Unsupported("expression %s" % ast.dump(e)[:80])


def cond(e):
    """Python condition -> Lean Bool expression"""
    if isinstance(e, ast.Compare) and len(e.ops) == 1 and isinstance(e.ops[0], ast.Is):
        if isinstance(e.left, ast.Name) and e.left.id == "window" and isinstance(e.comparators[0], ast.Constant) \
                and e.comparators[0].value is None:
            return "decide (e.window_is_none ≠ 0)"
        raise Unsupported("`is` comparison")
    if isinstance(e, ast.Compare) and len(e.ops) == 1:
        op = {ast.Gt: ">", ast.Lt: "<", ast.GtE: "≥", ast.LtE: "≤", ast.Eq: "=", ast.NotEq: "≠"}.get(type(e.ops[0]))
        if op is None:
            raise Unsupported("comparison")
        return "decide (%s %s %s)" % (expr(e.left), op, expr(e.comparators[0]))
    if isinstance(e, ast.BoolOp):
        op = "&&" if isinstance(e.op, ast.And) else "||"
        return "(" + (" %s " % op).join(cond(v) for v in e.values) + ")"
    if isinstance(e, ast.UnaryOp) and isinstance(e.op, ast.Not):
        return "(!%s)" % cond(e.operand)
    if isinstance(e, ast.Name) and e.id == "only_triu":
        return "decide (e.only_triu ≠ 0)"
    raise Unsupported("condition %s" % ast.dump(e)[:80])


def find_func(tree, name):
    for node in tree.body:
        if isinstance(node, ast.FunctionDef) and node.name == name:
            return node
    raise Unsupported("function %s not found" % name)


def assignments(fn, names):
    """(name, condition or None, value) for every `name = value` in fn, in source order; an assignment directly inside an
    `if` (without else) carries that condition; deeper nesting of conditions is rejected"""
    out = []

    def walk(stmts, conds):
        for st in stmts:
            if isinstance(st, ast.Assign) and len(st.targets) == 1 and isinstance(st.targets[0], ast.Name) \
                    and st.targets[0].id in names:
                if len(conds) > 1:
                    raise Unsupported("assignment to %s under nested conditions" % st.targets[0].id)
                out.append((st.targets[0].id, conds[0] if conds else None, st.value))
            elif isinstance(st, ast.AugAssign) and isinstance(st.target, ast.Name) and st.target.id in names:
                raise Unsupported("augmented assignment to %s" % st.target.id)
            elif isinstance(st, ast.If):
                touched = any(isinstance(n, ast.Assign) and isinstance(n.targets[0], ast.Name) and n.targets[0].id in names
                              for n in ast.walk(st))
                neg = ast.UnaryOp(op=ast.Not(), operand=st.test)
                walk(st.body, conds + [st.test] if touched else conds)
                walk(st.orelse, conds + [neg] if touched else conds)
            elif isinstance(st, (ast.For, ast.While)):
                walk(st.body, conds)
                walk(st.orelse, conds)
            elif isinstance(st, (ast.With, ast.Try)):
                raise Unsupported("with/try in a kernel")
    walk(fn.body, [])
    return out


def subscripts(fn, arr):
    out = []
    for node in ast.walk(fn):
        if isinstance(node, ast.Subscript) and isinstance(node.value, ast.Name) and node.value.id == arr:
            sl = node.slice
            if isinstance(sl, ast.Slice):
                out.append(("slice_lo", sl.lower))
                out.append(("slice_hi", sl.upper))
            elif isinstance(sl, ast.Tuple):
                raise Unsupported("tuple subscript on the rolling buffer")
            else:
                out.append(("index", sl))
    # ast.walk is breadth-first: order by source position to make the numbering stable
    out.sort(key=lambda t: (t[1].lineno, t[1].col_offset))
    return out


def main():
    try:
        tree = ast.parse(open(SRC).read())
        L = ["/- GENERATED by translate/py_band.py from src/dtaidistance/dtw.py — do not edit. -/",
             "namespace Dtai.Gen.PyBand", "",
             "/-- the integer variables of the kernels (Python ints: unbounded, subtraction not truncated) -/",
             "structure Env where"]
        L += ["  %s : Int := 0" % f for f in FIELDS]
        L += [""]
        index = []
        for fname, names in TARGETS.items():
            fn = find_func(tree, fname)
            counts = {}
            for (nm, cd, val) in assignments(fn, names):
                k = counts.get(nm, 0)
                counts[nm] = k + 1
                base = "%s_%s_%d" % (fname, nm, k)
                L.append("/-- `%s = %s`%s -/" % (nm, ast.unparse(val), "" if cd is None else "  under `if %s`" % ast.unparse(cd)))
                L.append("def %s (e : Env) : Int := %s" % (base, expr(val)))
                if cd is not None:
                    L.append("def %s_cond (e : Env) : Bool := %s" % (base, cond(cd)))
                index.append((base, ast.unparse(val), None if cd is None else ast.unparse(cd)))
            for nm in names:
                if counts.get(nm, 0) == 0:
                    raise Unsupported("no assignment to %s in %s" % (nm, fname))
            L.append("")
        fn = find_func(tree, "distance")
        subs = subscripts(fn, "dtw")
        for k, (kind, node) in enumerate(subs):
            L.append("/-- subscript %d of the rolling buffer (%s): `%s` -/" % (k, kind, ast.unparse(node)))
            L.append("def distance_sub_%d (e : Env) : Int := %s" % (k, expr(node)))
        L.append("")
        loops = []
        for node in ast.walk(fn):
            if isinstance(node, ast.For) and isinstance(node.iter, ast.Call) and isinstance(node.iter.func, ast.Name) \
                    and node.iter.func.id == "range" and isinstance(node.target, ast.Name):
                a = node.iter.args
                if len(a) == 1:
                    lo, hi = ast.Constant(value=0), a[0]
                elif len(a) == 2:
                    lo, hi = a
                else:
                    raise Unsupported("range with a step")
                loops.append((node.lineno, node.target.id, lo, hi))
        loops.sort(key=lambda t: t[0])
        for k, (_ln, var, lo, hi) in enumerate(loops):
            L.append("/-- loop %d: `for %s in range(%s, %s)` -/" % (k, var, ast.unparse(lo), ast.unparse(hi)))
            L.append("def distance_loop_%d_lo (e : Env) : Int := %s" % (k, expr(lo)))
            L.append("def distance_loop_%d_hi (e : Env) : Int := %s" % (k, expr(hi)))
        L.append("def distanceLoops : List (String × String × String) := [")
        L.append(",\n".join('  ("%s", "%s", "%s")' % (var, ast.unparse(lo), ast.unparse(hi)) for _l, var, lo, hi in loops))
        L.append("]")
        L.append("")
        # ---- dp.py: the generic dynamic-programming routine behind needleman_wunsch
        dtree = ast.parse(open(DP_SRC).read())
        dfn = find_func(dtree, "dp")
        dcount = 0
        for (nm, cd, val) in assignments(dfn, ["window"]):
            L.append("/-- dp(): `window = %s`%s -/" % (ast.unparse(val), "" if cd is None else "  under `if %s`" % ast.unparse(cd)))
            L.append("def dp_window_%d (e : Env) : Int := %s" % (dcount, expr(val)))
            if cd is not None:
                L.append("def dp_window_%d_cond (e : Env) : Bool := %s" % (dcount, cond(cd)))
            index.append(("dp_window_%d" % dcount, ast.unparse(val), None if cd is None else ast.unparse(cd)))
            dcount += 1
        if dcount == 0:
            raise Unsupported("no assignment to window in dp()")
        dloops = [n for n in ast.walk(dfn) if isinstance(n, ast.For) and isinstance(n.target, ast.Name) and n.target.id == "j0"]
        if len(dloops) != 1 or not (isinstance(dloops[0].iter, ast.Call) and len(dloops[0].iter.args) == 2):
            raise Unsupported("dp(): expected exactly one column loop `for j0 in range(lo, hi)`")
        lo, hi = dloops[0].iter.args
        L.append("/-- dp(): `for j0 in range(%s, %s)` -/" % (ast.unparse(lo), ast.unparse(hi)))
        L.append("def dp_cols_lo (e : Env) : Int := %s" % expr(lo))
        L.append("def dp_cols_hi (e : Env) : Int := %s" % expr(hi))
        index.append(("dp_cols", ast.unparse(lo), ast.unparse(hi)))
        reads = []
        for node in ast.walk(dfn):
            if isinstance(node, ast.Assign) and len(node.targets) == 1 and isinstance(node.targets[0], ast.Name) \
                    and node.targets[0].id == "d" and isinstance(node.value, ast.Subscript) \
                    and isinstance(node.value.value, ast.Name) and node.value.value.id == "scores" \
                    and isinstance(node.value.slice, ast.Tuple) and len(node.value.slice.elts) == 2:
                reads.append(node.value.slice.elts[1])
        if len(reads) != 1:
            raise Unsupported("dp(): expected exactly one read-out `d = scores[i1, <col>]`")
        L.append("/-- dp(): column of the read-out `d = scores[i1, %s]` -/" % ast.unparse(reads[0]))
        L.append("def dp_readout_col (e : Env) : Int := %s" % expr(reads[0]))
        index.append(("dp_readout_col", ast.unparse(reads[0]), None))
        L.append("")
        L.append("/-- the source text of every translated item, for the evidence and for pinning the number of items -/")
        L.append("def items : List (String × String × String) := [")
        L.append(",\n".join('  ("%s", "%s", "%s")' % (b, v.replace('"', "'"), (c or "").replace('"', "'")) for b, v, c in index))
        L.append("]")
        L.append("def distanceSubscripts : List (String × String) := [")
        L.append(",\n".join('  ("%s", "%s")' % (kind, ast.unparse(node).replace('"', "'")) for kind, node in subs))
        L.append("]")
        L += ["", "end Dtai.Gen.PyBand", ""]
    except (Unsupported, OSError, SyntaxError) as e:
        sys.stderr.write("py_band translator: %s\n" % e)
        return 3
    txt = "\n".join(L)
    os.makedirs(os.path.dirname(OUT), exist_ok=True)
    old = open(OUT).read() if os.path.exists(OUT) else None
    if old != txt:
        open(OUT, "w").write(txt)
    return 0


if __name__ == "__main__":
    sys.exit(main())
