#!/usr/bin/env python3
"""Translator: re-extracts, on every run, the *integer* control state of C kernels from /repo's dd_dtw.c and emits it as
Lean functions over Int (lean/Dtaiverif/Generated/CBand.lean) — a program slice, not a string fingerprint:

  * lb_keogh, lb_keogh_euclidean:  window, imin_diff, imax_diff, imin, imax
  * dtw_distance, dtw_distance_ndim, dtw_distance_euclidean, dtw_distance_ndim_euclidean:
        window, ldiff, dl, length, dl_window, ldiff_window, maxj, minj, skip, skipp, i0, i1
  * dtw_wps_parts (whole function, no row loop): the integer fields of the returned layout descriptor
        (window, ldiff, ldiffr, ldiffc, width, overlap_left_ri, overlap_right_ri, length, ri1, ri2, ri3)

For every function two state transformers over one environment structure are produced: `<fn>_pre` (the statements before
the row loop `for (i=0; i<l1; i++)`) and `<fn>_row` (one iteration of that loop).  Statements that do not assign a tracked
variable are dropped; an `if` is kept when a tracked assignment occurs inside it, and then its condition must be integer
arithmetic over tracked variables and declared inputs.  Props/CBand.lean proves that the results are the band and the
buffer offsets of the model (`lbKeoghTerms`'s range, `Roll.*`).

A small C subset is understood (declarations, `=`, `+=`, `-=`, `*=`, `++`, `--`, if/else, for, MIN/MAX, comparisons used
as 0/1 integers, `&&`, `||`, `!`).  Anything else that touches a tracked variable fails closed (exit 3)."""
import ast
import os
import re
import sys

REPO = os.environ.get("DTAIVERIF_REPO", "/repo")
SRC = os.path.join(REPO, "src", "DTAIDistanceC", "DTAIDistanceC", "dd_dtw.c")
OUT = os.path.join(os.path.dirname(os.path.dirname(os.path.abspath(__file__))), "lean", "Dtaiverif", "Generated",
                   "CBand.lean")

LB_TRACK = ["window", "imin_diff", "imax_diff", "imin", "imax"]
DIST_TRACK = ["window", "ldiff", "dl", "length", "dl_window", "ldiff_window", "maxj", "minj", "skip", "skipp", "i0", "i1"]
INPUTS = ["l1", "l2", "i", "sc", "settings_window"]
FUNCS = [("lb_keogh", "seq_t", LB_TRACK), ("lb_keogh_euclidean", "seq_t", LB_TRACK),
         ("dtw_distance", "seq_t", DIST_TRACK), ("dtw_distance_ndim", "seq_t", DIST_TRACK),
         ("dtw_distance_euclidean", "seq_t", DIST_TRACK), ("dtw_distance_ndim_euclidean", "seq_t", DIST_TRACK)]
# dtw_wps_parts has no row loop: the whole function is one transformer; its struct fields `parts.x` are read as `parts_x`
PARTS_TRACK = ["parts_window", "parts_ldiff", "parts_ldiffr", "parts_ldiffc", "parts_width", "parts_overlap_left_ri",
               "parts_overlap_right_ri", "parts_length", "parts_ri1", "parts_ri2", "parts_ri3"]
WHOLE = [("dtw_wps_parts", "DTWWps", PARTS_TRACK)]
FIELDS = sorted(set(LB_TRACK + DIST_TRACK + INPUTS + PARTS_TRACK))


class Unsupported(Exception):
    pass


def strip(s):
    s = re.sub(r"/\*.*?\*/", " ", s, flags=re.S)
    s = re.sub(r"//[^\n]*", " ", s)
    s = re.sub(r"#ifdef DTWDEBUG.*?#endif", " ", s, flags=re.S)
    s = "\n".join(l for l in s.split("\n") if not l.lstrip().startswith("#"))
    return s


# ---------------------------------------------------------------------------------- statements
def skip_ws(s, i):
    while i < len(s) and s[i].isspace():
        i += 1
    return i


def match_paren(s, i, op="(", cl=")"):
    assert s[i] == op
    depth = 0
    for k in range(i, len(s)):
        if s[k] == op:
            depth += 1
        elif s[k] == cl:
            depth -= 1
            if depth == 0:
                return k
    raise Unsupported("unbalanced %s" % op)


def parse_stmt(s, i):
    """returns (stmt, next index)"""
    i = skip_ws(s, i)
    if s[i] == "{":
        j = match_paren(s, i, "{", "}")
        return ("block", parse_seq(s[i + 1:j])), j + 1
    m = re.match(r"(if|for|while|switch|do)\b", s[i:])
    if m and m.group(1) == "if":
        k = skip_ws(s, i + 2)
        j = match_paren(s, k)
        cond = s[k + 1:j]
        then, n = parse_stmt(s, j + 1)
        n2 = skip_ws(s, n)
        els = None
        if s[n2:n2 + 4] == "else" and not (s[n2 + 4:n2 + 5].isalnum() or s[n2 + 4:n2 + 5] == "_"):
            els, n = parse_stmt(s, n2 + 4)
        return ("if", cond, then, els), n
    if m and m.group(1) == "for":
        k = skip_ws(s, i + 3)
        j = match_paren(s, k)
        head = s[k + 1:j]
        body, n = parse_stmt(s, j + 1)
        return ("for", head, body), n
    if m:
        # while / switch / do: kept opaque; rejected later if a tracked variable is assigned inside
        k = s.index("{", i) if "{" in s[i:] else None
        if k is None:
            raise Unsupported("control statement without block")
        j = match_paren(s, k, "{", "}")
        return ("opaque", s[i:j + 1]), j + 1
    j = s.index(";", i)
    return ("simple", " ".join(s[i:j].split())), j + 1


def parse_seq(s):
    out = []
    i = skip_ws(s, 0)
    while i < len(s):
        st, i = parse_stmt(s, i)
        out.append(st)
        i = skip_ws(s, i)
    return out


# ---------------------------------------------------------------------------------- expressions
def c_to_py(e):
    e = e.replace("settings->", "settings_").replace("parts.", "parts_")
    e = re.sub(r"\bMAX\s*\(", "max(", e)
    e = re.sub(r"\bMIN\s*\(", "min(", e)
    e = e.replace("&&", " and ").replace("||", " or ")
    e = re.sub(r"!(?!=)", " not ", e)
    return e.strip()


def iexpr(node, env):
    """integer expression -> Lean Int term; `env` maps every known variable to its current (SSA) Lean name"""
    if isinstance(node, ast.Constant) and isinstance(node.value, int) and not isinstance(node.value, bool):
        return "(%d : Int)" % node.value
    if isinstance(node, ast.Name):
        if node.id in env:
            return env[node.id]
        raise Unsupported("name %s is neither tracked nor a declared input" % node.id)
    if isinstance(node, ast.BinOp) and isinstance(node.op, (ast.Add, ast.Sub, ast.Mult)):
        op = {ast.Add: "+", ast.Sub: "-", ast.Mult: "*"}[type(node.op)]
        return "(%s %s %s)" % (iexpr(node.left, env), op, iexpr(node.right, env))
    if isinstance(node, ast.UnaryOp) and isinstance(node.op, ast.USub):
        return "(- %s)" % iexpr(node.operand, env)
    if isinstance(node, ast.Call) and isinstance(node.func, ast.Name) and node.func.id in ("max", "min") \
            and len(node.args) == 2:
        return "(%s %s %s)" % (node.func.id, iexpr(node.args[0], env), iexpr(node.args[1], env))
    if isinstance(node, (ast.Compare, ast.BoolOp)) or (isinstance(node, ast.UnaryOp) and isinstance(node.op, ast.Not)):
        return "(if %s then (1 : Int) else 0)" % bexpr(node, env)      # C: a comparison is 0 or 1
    raise Unsupported("expression %s" % ast.dump(node)[:80])


def bexpr(node, env):
    """condition -> Lean Prop (decidable)"""
    if isinstance(node, ast.Compare) and len(node.ops) == 1:
        op = {ast.Gt: ">", ast.Lt: "<", ast.GtE: "≥", ast.LtE: "≤", ast.Eq: "=", ast.NotEq: "≠"}.get(type(node.ops[0]))
        if op is None:
            raise Unsupported("comparison")
        return "(%s %s %s)" % (iexpr(node.left, env), op, iexpr(node.comparators[0], env))
    if isinstance(node, ast.BoolOp):
        op = " ∧ " if isinstance(node.op, ast.And) else " ∨ "
        return "(" + op.join(bexpr(v, env) for v in node.values) + ")"
    if isinstance(node, ast.UnaryOp) and isinstance(node.op, ast.Not):
        return "(¬ %s)" % bexpr(node.operand, env)
    return "(%s ≠ 0)" % iexpr(node, env)


def parse_c_expr(text):
    try:
        return ast.parse(c_to_py(text), mode="eval").body
    except SyntaxError:
        raise Unsupported("cannot parse expression %r" % text)


# ---------------------------------------------------------------------------------- slicing
DECL = re.compile(r"^(?:const\s+)?(?:idx_t|int|long|size_t|ssize_t)\s+(.+)$")


def split_top(s):
    parts, depth, cur = [], 0, ""
    for ch in s:
        if ch in "([":
            depth += 1
        elif ch in ")]":
            depth -= 1
        if ch == "," and depth == 0:
            parts.append(cur)
            cur = ""
        else:
            cur += ch
    parts.append(cur)
    return [p.strip() for p in parts]


def simple_assignments(text, track):
    """tracked assignments made by a simple statement: list of (var, lean-rhs-builder)"""
    out = []
    text = text.replace("parts.", "parts_")
    m = DECL.match(text)
    items = split_top(m.group(1)) if m else [text]
    for it in items:
        mm = re.match(r"^\*?\s*(\w+)\s*(=|\+=|-=|\*=)(?!=)\s*(.+)$", it)
        if mm:
            var, op, rhs = mm.group(1), mm.group(2), mm.group(3)
            if var in track:
                out.append((var, op, rhs))
            continue
        mm = re.match(r"^(\w+)\s*(\+\+|--)$", it) or re.match(r"^(\+\+|--)\s*(\w+)$", it)
        if mm:
            g = mm.groups()
            var = g[0] if g[0] not in ("++", "--") else g[1]
            opx = g[1] if g[0] == var else g[0]
            if var in track:
                out.append((var, "+=" if opx == "++" else "-=", "1"))
            continue
        if m and re.match(r"^\w+$", it):
            continue        # declaration without initialiser (C leaves the value undefined; it must be assigned before use)
        # any other mention of a tracked variable on the left of an assignment is not understood
        if re.search(r"\b(%s)\b\s*(=|\+=|-=|\*=|/=|%%=|<<=|>>=|\|=|&=)(?!=)" % "|".join(map(re.escape, track)), it):
            raise Unsupported("assignment form %r" % it)
    return out


def touches(st, track):
    kind = st[0]
    if kind == "simple":
        return bool(simple_assignments(st[1], track))
    if kind == "block":
        return any(touches(x, track) for x in st[1])
    if kind == "if":
        return touches(st[2], track) or (st[3] is not None and touches(st[3], track))
    if kind == "for":
        return touches(st[2], track) or bool(re.search(r"\b(%s)\b\s*(=(?!=)|\+\+|--|\+=|-=)" % "|".join(track),
                                                       st[1].replace("parts.", "parts_")))
    if kind == "opaque":
        return bool(re.search(r"\b(%s)\b\s*(=(?!=)|\+\+|--|\+=|-=|\*=)" % "|".join(track),
                              st[1].replace("parts.", "parts_")))
    return False


class Ssa:
    """single-assignment emission: every assignment to a tracked variable introduces a fresh `let`; an `if` merges
    the two branches with one `if … then … else …` per variable it changes (all expressions are total and pure, so the
    branch computations can be hoisted in front of the merge)"""

    def __init__(self, track):
        self.track = track
        self.count = {}
        self.lines = []

    def fresh(self, var):
        k = self.count.get(var, 0)
        self.count[var] = k + 1
        return "%s_%d" % (var, k)

    def run(self, stmts, env):
        for st in stmts:
            kind = st[0]
            if kind == "simple":
                for var, op, rhs in simple_assignments(st[1], self.track):
                    r = iexpr(parse_c_expr(rhs), env)
                    if op != "=":
                        r = "(%s %s %s)" % (env[var], {"+=": "+", "-=": "-", "*=": "*"}[op], r)
                    nm = self.fresh(var)
                    self.lines.append("  let %s : Int := %s" % (nm, r))
                    env = dict(env)
                    env[var] = nm
            elif kind == "block":
                env = self.run(st[1], env)
            elif kind == "if":
                if not touches(st, self.track):
                    continue
                c = bexpr(parse_c_expr(st[1]), env)
                env_t = self.run([st[2]], env)
                env_e = self.run([st[3]], env) if st[3] is not None else env
                env = dict(env)
                for var in self.track:
                    if env_t[var] != env_e[var]:
                        nm = self.fresh(var)
                        self.lines.append("  let %s : Int := if %s then %s else %s" % (nm, c, env_t[var], env_e[var]))
                        env[var] = nm
            elif kind in ("for", "opaque"):
                if touches(st, self.track):
                    raise Unsupported("a tracked variable is assigned inside a nested loop")
        return env


def emit_function(name, stmts, track):
    env = {v: "e.%s" % v for v in list(track) + INPUTS}
    ssa = Ssa(track)
    env = ssa.run(stmts, env)
    upd = ", ".join("%s := %s" % (v, env[v]) for v in track if env[v] != "e.%s" % v)
    L = ["def %s (e : CEnv) : CEnv :=" % name] + ssa.lines
    L.append("  { e with %s }" % upd if upd else "  e")
    return L


def split_row_loop(stmts):
    """(statements before the row loop, body of the row loop); the row loop is `for (…i=0; i<l1; i++)` at top level"""
    for k, st in enumerate(stmts):
        if st[0] == "for":
            head = "".join(st[1].split())
            if re.match(r"^(idx_t)?i=0;i<l1;i\+\+$", head):
                body = st[2][1] if st[2][0] == "block" else [st[2]]
                return stmts[:k], body
    raise Unsupported("row loop `for (i=0; i<l1; i++)` not found")


def main():
    try:
        src = strip(open(SRC).read())
        L = ["/- GENERATED by translate/c_band.py from src/DTAIDistanceC/DTAIDistanceC/dd_dtw.c — do not edit. -/",
             "namespace Dtai.Gen.CBand", "",
             "/-- integer control state of the kernels (`idx_t` is `ssize_t`: signed) and their inputs -/",
             "structure CEnv where"]
        L += ["  %s : Int := 0" % f for f in FIELDS]
        L += [""]
        names = []
        for fn, rtype, track in FUNCS:
            m = re.search(r"\n%s\s+%s\s*\(([^)]*)\)\s*\{" % (rtype, fn), src)
            if not m:
                raise Unsupported("function %s not found" % fn)
            ob = src.index("{", m.end() - 1)
            body = src[ob + 1:match_paren(src, ob, "{", "}")]
            stmts = parse_seq(body)
            pre, row = split_row_loop(stmts)
            for part, ss in (("pre", pre), ("row", row)):
                L += emit_function("%s_%s" % (fn, part), ss, track) + [""]
                names.append("%s_%s" % (fn, part))
        for fn, rtype, track in WHOLE:
            m = re.search(r"\n%s\s+%s\s*\(([^)]*)\)\s*\{" % (rtype, fn), src)
            if not m:
                raise Unsupported("function %s not found" % fn)
            ob = src.index("{", m.end() - 1)
            body = src[ob + 1:match_paren(src, ob, "{", "}")]
            L += emit_function(fn, parse_seq(body), track) + [""]
            names.append(fn)
        L.append("def functions : List String := [%s]" % ", ".join('"%s"' % n for n in names))
        L += ["", "end Dtai.Gen.CBand", ""]
    except (Unsupported, OSError, ValueError, AssertionError) as e:
        sys.stderr.write("c_band translator: %s\n" % e)
        return 3
    txt = "\n".join(L)
    os.makedirs(os.path.dirname(OUT), exist_ok=True)
    old = open(OUT).read() if os.path.exists(OUT) else None
    if old != txt:
        open(OUT, "w").write(txt)
    return 0


if __name__ == "__main__":
    sys.exit(main())
