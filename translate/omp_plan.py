#!/usr/bin/env python3
"""Translator: re-extracts the parallel plan from /repo's dd_dtw_openmp.c on every run and emits
lean/Dtaiverif/Generated/OmpPlan.lean.  For every `*_parallel` function it records
  * the pragma (private list, schedule clause),
  * the loop variable, its bounds,
  * every variable assigned inside the loop body and whether it is declared inside the body,
  * every shared array written inside the body with its index expression and guard,
  * the kernel call (callee and its arguments),
and for `dtw_distances_prepare` the per-row plan statements.
Anything outside the recognised C subset makes the translator fail closed (exit 3)."""
import os
import re
import sys

REPO = os.environ.get("DTAIVERIF_REPO", "/repo")
SRC = os.path.join(REPO, "src", "DTAIDistanceC", "DTAIDistanceC", "dd_dtw_openmp.c")
OUT = os.path.join(os.path.dirname(os.path.dirname(os.path.abspath(__file__))), "lean", "Dtaiverif", "Generated",
                   "OmpPlan.lean")


class Unsupported(Exception):
    pass


def strip_comments(s):
    s = re.sub(r"/\*.*?\*/", " ", s, flags=re.S)
    s = re.sub(r"//[^\n]*", " ", s)
    return s


def match_brace(s, i):
    assert s[i] == "{"
    depth = 0
    for k in range(i, len(s)):
        if s[k] == "{":
            depth += 1
        elif s[k] == "}":
            depth -= 1
            if depth == 0:
                return k
    raise Unsupported("unbalanced braces")


def norm(e):
    return re.sub(r"\s+", " ", e.strip())


def lean_str(s):
    return '"' + s.replace("\\", "\\\\").replace('"', '\\"') + '"'


def parse_parallel(name, body):
    m = re.search(r"#\s*pragma\s+omp\s+parallel\s+for\s+([^\n]*)\n", body)
    if not m:
        raise Unsupported("%s: no 'omp parallel for' pragma" % name)
    clauses = m.group(1)
    pm = re.search(r"private\(([^)]*)\)", clauses)
    private = [v.strip() for v in pm.group(1).split(",")] if pm else []
    sm = re.search(r"schedule\(([^)]*)\)", clauses)
    schedule = norm(sm.group(1)) if sm else ""
    other = re.sub(r"private\([^)]*\)|schedule\([^)]*\)", "", clauses).strip()
    if other:
        raise Unsupported("%s: unrecognised pragma clauses %r" % (name, other))
    rest = body[m.end():]
    fm = re.match(r"\s*for\s*\(\s*(\w+)\s*=\s*([^;]+);\s*(\w+)\s*<\s*([^;]+);\s*(\w+)\s*\+\+\s*\)\s*\{", rest)
    if not fm:
        raise Unsupported("%s: parallel loop header not recognised" % name)
    var, lo, var2, hi, var3 = fm.groups()
    if not (var == var2 == var3):
        raise Unsupported("%s: loop variable mismatch" % name)
    ob = rest.index("{", fm.start())
    cb = match_brace(rest, ob)
    loop = rest[ob + 1:cb]
    # declarations inside the body
    local = set(re.findall(r"\b(?:double|seq_t|idx_t|int|bool)\s+(\w+)\s*(?:=|;)", loop))
    # assignments to plain variables (=, ++, +=)
    assigned = set()
    for am in re.finditer(r"(?<![\w\]\)>.])(\w+)\s*(=(?!=)|\+\+|--|\+=|-=)", loop):
        assigned.add(am.group(1))
    for am in re.finditer(r"(\+\+|--)\s*(\w+)", loop):
        assigned.add(am.group(2))
    # inner for loops "for (; c<...; c++)"
    # writes to arrays
    writes = []
    for wm in re.finditer(r"(\w+)\s*\[([^\]]+(?:\[[^\]]*\][^\]]*)*)\]\s*=(?!=)\s*([^;]+);", loop):
        arr, idx, val = wm.group(1), norm(wm.group(2)), norm(wm.group(3))
        # guard: the innermost enclosing if/else condition
        pre = loop[:wm.start()]
        guard = ""
        gm = list(re.finditer(r"if\s*\(([^)]*)\)\s*\{\s*$", pre))
        if gm:
            guard = norm(gm[-1].group(1))
        elif re.search(r"else\s*\{\s*$", pre):
            gprev = list(re.finditer(r"if\s*\(([^)]*)\)\s*\{", pre))
            guard = "!(" + norm(gprev[-1].group(1)) + ")" if gprev else "else"
        writes.append((arr, idx, guard, val))
    # right-hand sides of the assignments to plain variables, in source order
    assigns = []
    for am in re.finditer(r"(?<![\w\]\)>.])(\w+)\s*=(?!=)\s*([^;]+);", loop):
        if am.group(1) in local:
            continue
        assigns.append((am.group(1), norm(am.group(2))))
    for am in re.finditer(r"(?<![\w\]\)>.])(\w+)\s*(\+\+|--)\s*[;)]", loop):
        assigns.append((am.group(1), am.group(1) + am.group(2)))
    calls = re.findall(r"=\s*(dtw_distance\w*)\s*\(", loop)
    inner = re.search(r"for\s*\(\s*;\s*(\w+)\s*<\s*([^;]+);\s*(\w+)\+\+\s*\)", loop)
    if not inner:
        raise Unsupported("%s: inner column loop not recognised" % name)
    # pointer / pointee writes other than output[...] are not part of the subset
    if re.search(r"\*\s*\w+\s*=(?!=)", loop) or "->" in re.sub(r"block->\w+|settings->\w+", "", loop):
        raise Unsupported("%s: pointer write inside the parallel loop" % name)
    return {"name": name, "private": private, "schedule": schedule, "var": var, "lo": norm(lo), "hi": norm(hi),
            "local": sorted(local), "assigned": sorted(assigned), "writes": writes, "calls": calls, "assigns": assigns,
            "inner_var": inner.group(1), "inner_hi": norm(inner.group(2))}


def parse_prepare(body):
    fm = re.search(r"for\s*\(\s*idx_t\s+r\s*=\s*block->rb\s*;\s*r\s*<\s*block->re\s*;\s*r\+\+\s*\)\s*\{", body)
    if not fm:
        raise Unsupported("dtw_distances_prepare: row loop not recognised")
    ob = body.index("{", fm.start())
    loop = body[ob + 1:match_brace(body, ob)]
    stmts = [norm(x) for x in re.split(r";|\{|\}", loop) if norm(x)]
    return stmts


def main():
    try:
        src = strip_comments(open(SRC).read())
        funcs = []
        for m in re.finditer(r"\n(?:idx_t|int)\s+(dtw_distances_\w+)\s*\([^)]*\)\s*\{", src):
            name = m.group(1)
            ob = src.index("{", m.end() - 1)
            body = src[ob + 1:match_brace(src, ob)]
            funcs.append((name, body))
        names = [n for n, _ in funcs]
        par = [parse_parallel(n, b) for n, b in funcs if n.endswith("_parallel")]
        prep = [b for n, b in funcs if n == "dtw_distances_prepare"]
        if len(prep) != 1 or not par:
            raise Unsupported("expected dtw_distances_prepare and at least one *_parallel function, got %s" % names)
        prep_stmts = parse_prepare(prep[0])
    except (Unsupported, OSError, ValueError) as e:
        sys.stderr.write("omp_plan translator: %s\n" % e)
        return 3
    L = []
    L.append("/- GENERATED by translate/omp_plan.py from src/DTAIDistanceC/DTAIDistanceC/dd_dtw_openmp.c — do not edit. -/")
    L.append("namespace Dtai.Generated")
    L.append("")
    L.append("structure OmpWrite where")
    L.append("  array : String\n  index : String\n  guard : String\n  value : String\n  deriving DecidableEq, Repr")
    L.append("")
    L.append("structure OmpLoop where")
    L.append("  name : String\n  privateVars : List String\n  schedule : String\n  loopVar : String\n  lo : String\n  hi : String")
    L.append("  localVars : List String\n  assigned : List String\n  assigns : List (String × String)\n  writes : List OmpWrite\n  calls : List String")
    L.append("  innerVar : String\n  innerHi : String\n  deriving DecidableEq, Repr")
    L.append("")
    L.append("def ompLoops : List OmpLoop := [")
    items = []
    for p in par:
        ws = ", ".join("{ array := %s, index := %s, guard := %s, value := %s }" % tuple(map(lean_str, w)) for w in p["writes"])
        items.append("  { name := %s, privateVars := [%s], schedule := %s, loopVar := %s, lo := %s, hi := %s,\n"
                     "    localVars := [%s], assigned := [%s],\n    assigns := [%s],\n    writes := [%s],\n    calls := [%s], innerVar := %s, innerHi := %s }"
                     % (lean_str(p["name"]), ", ".join(map(lean_str, p["private"])), lean_str(p["schedule"]),
                        lean_str(p["var"]), lean_str(p["lo"]), lean_str(p["hi"]),
                        ", ".join(map(lean_str, p["local"])), ", ".join(map(lean_str, p["assigned"])),
                        ", ".join("(%s, %s)" % (lean_str(a), lean_str(b)) for a, b in p["assigns"]), ws,
                        ", ".join(map(lean_str, p["calls"])), lean_str(p["inner_var"]), lean_str(p["inner_hi"])))
    L.append(",\n".join(items))
    L.append("]")
    L.append("")
    L.append("def prepareRowLoop : List String := [%s]" % ", ".join(map(lean_str, prep_stmts)))
    L.append("")
    L.append("end Dtai.Generated")
    txt = "\n".join(L) + "\n"
    os.makedirs(os.path.dirname(OUT), exist_ok=True)
    old = open(OUT).read() if os.path.exists(OUT) else None
    if old != txt:
        open(OUT, "w").write(txt)
    return 0


if __name__ == "__main__":
    sys.exit(main())
