import Dtaiverif.Model.Basic
import Dtaiverif.Model.Dtw
import Dtaiverif.Model.Inner
import Dtaiverif.Model.Settings
import Dtaiverif.Model.Bounds
import Dtaiverif.Model.Ops
import Dtaiverif.Proofs.GridDP
