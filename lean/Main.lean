/-
Main.lean — line-protocol driver.  One JSON object per input line, one JSON object per output line.
Runs the executable definitions of `Dtaiverif.Model.*` (the same definitions the theorems are about).
-/
import Lean.Data.Json
import Dtaiverif.Model.Ops

open Lean Dtai

partial def loop (h : IO.FS.Stream) (out : IO.FS.Stream) : IO Unit := do
  let line ← h.getLine
  if line.isEmpty then return ()
  let t := line.trimAscii.toString
  if t.isEmpty then loop h out else
  let res : Json := match Json.parse t with
    | .error e => Json.mkObj [("error", Json.str s!"parse: {e}")]
    | .ok j => match Ops.dispatch j with
      | .ok r => r
      | .error e => Json.mkObj [("error", Json.str e)]
  out.putStrLn res.compress
  loop h out

def main : IO Unit := do
  let i ← IO.getStdin
  let o ← IO.getStdout
  loop i o
  o.flush
