/-
Model/Settings.lean — decoding of user-level options into a `Grid` (the glue of `DTWSettings.__init__`,
`for_dtw`, `split_psi`, `c_kwargs`, `dtw_cc.DTWSettings`, and the prologue of `dtw_distance*`).

Values are exact integers (the harness draws inputs from an integer lattice on which the
implementation's double arithmetic is exact); `scale` multiplies every cost so that thresholds lying
strictly between two lattice values are representable.
-/
import Dtaiverif.Model.Dtw
import Dtaiverif.Model.Inner

namespace Dtai

inductive InnerKind where
  | sq    -- 'squared euclidean'
  | abs   -- 'euclidean'
  deriving DecidableEq, Repr

/-- `inner_val` of innerdistance.py: how a user-level threshold/penalty enters the internal
representation -/
def InnerKind.innerVal : InnerKind → Nat → Nat
  | .sq, x => x * x
  | .abs, x => x

/-- user-level settings; `none` encodes Python's `None` -/
structure RawSettings where
  window : Option Nat := none
  penalty : Option Nat := none
  maxStep : Option Nat := none
  /-- internal-representation threshold, already multiplied by `scale` (see harness) -/
  maxDistI : Option Nat := none
  maxLengthDiff : Option Nat := none
  psi : Nat × Nat × Nat × Nat := (0, 0, 0, 0)
  inner : InnerKind := .sq
  ndim : Nat := 1
  scale : Nat := 1
  deriving Repr

/-- `if not self.x: off else inner_val(x)` — `None` and `0` both mean "off" -/
def optOff (o : Option Nat) : Option Nat :=
  match o with
  | some 0 => none
  | x => x

def RawSettings.costFn (s : RawSettings) (s1 s2 : Array Int) : Nat → Nat → Cost :=
  match s.inner with
  | .sq => fun i j => .fin (s.scale * sqDist s.ndim s1 s2 i j)
  | .abs => fun i j => .fin (s.scale * absDist s1 s2 i j)

/-- Python engine: `DTWSettings.for_dtw` + `split_psi`. `window = None → max(r, c)`. -/
def RawSettings.toGridPy (s : RawSettings) (r c : Nat) (s1 s2 : Array Int) : Grid Cost :=
  { r := r, c := c
    window := match s.window with | none => max r c | some w => w
    pen := match optOff s.penalty with | none => .fin 0 | some p => .fin (s.scale * s.inner.innerVal p)
    maxStep := match optOff s.maxStep with | none => .inf | some p => .fin (s.scale * s.inner.innerVal p)
    psi1b := s.psi.1, psi1e := s.psi.2.1, psi2b := s.psi.2.2.1, psi2e := s.psi.2.2.2
    cost := s.costFn s1 s2 }

/-- C engine: `c_kwargs` (`None → 0`) followed by the prologue of `dtw_distance*`
(`window == 0 → MAX(l1,l2)`, `max_step == 0 → INFINITY`). -/
def RawSettings.toGridC (s : RawSettings) (r c : Nat) (s1 s2 : Array Int) : Grid Cost :=
  { r := r, c := c
    window := match s.window with | none => max r c | some 0 => max r c | some w => w
    pen := match optOff s.penalty with | none => .fin 0 | some p => .fin (s.scale * s.inner.innerVal p)
    maxStep := match optOff s.maxStep with | none => .inf | some p => .fin (s.scale * s.inner.innerVal p)
    psi1b := s.psi.1, psi1e := s.psi.2.1, psi2b := s.psi.2.2.1, psi2e := s.psi.2.2.2
    cost := s.costFn s1 s2 }

def RawSettings.maxDist (s : RawSettings) : Cost :=
  match optOff s.maxDistI with | none => .inf | some m => .fin m

/-- `max_length_diff`: Python `None` = off; the C engine also treats `0` as off -/
def RawSettings.mldPy (s : RawSettings) : Option Nat := s.maxLengthDiff
def RawSettings.mldC (s : RawSettings) : Option Nat := optOff s.maxLengthDiff

end Dtai
