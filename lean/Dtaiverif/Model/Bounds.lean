/-
Model/Bounds.lean — Euclidean upper bound (ed.py / dd_ed.c) and LB_Keogh (dtw.py / dd_dtw.c).
-/
import Dtaiverif.Model.Dtw

namespace Dtai

section
variable {α : Type} [Add α] [Zero α]

/-- index pairs compared by `ed.distance`: the common prefix, then the surplus elements of the longer
series against the last element of the shorter one -/
def edPairs (r c : Nat) : List (Nat × Nat) :=
  (List.range (max r c)).map fun k => (min k (r-1), min k (c-1))

def sumList (l : List α) : α := l.foldr (· + ·) 0

/-- Euclidean "distance" in internal representation (before the result transform) -/
def edSum (cost : Nat → Nat → α) (r c : Nat) : α :=
  sumList ((edPairs r c).map fun p => cost p.1 p.2)

end

/-- LB_Keogh on exact integer series (univariate). `lo`/`hi` are the envelope of `s2` over the band
window of row `i`; the contribution is the point distance to the violated envelope side. -/
def lbKeoghTerms (dist : Int → Int → Nat) (s1 s2 : Array Int) (r c window : Nat) : List Nat :=
  (List.range r).map fun i =>
    let imin := i - ((r - c) + window - 1)
    let imax := min c (i + (c - r) + window)
    let seg := (List.range (imax - imin)).map fun k => s2.getD (imin + k) 0
    match seg with
    | [] => 0
    | x :: xs =>
      let ui := xs.foldl max x
      let li := xs.foldl min x
      let ci := s1.getD i 0
      if ci > ui then dist ci ui else if ci < li then dist ci li else 0

def lbKeogh (dist : Int → Int → Nat) (s1 s2 : Array Int) (r c window : Nat) : Nat :=
  (lbKeoghTerms dist s1 s2 r c window).foldl (· + ·) 0

end Dtai
