/-
Model/Compact.lean — the compact ("band") warping-paths layout of the C engine:
`dtw_wps_parts`, `dtw_wps_loc_columns`, `dtw_wps_loc`, `dtw_settings_wps_width/length`, and the
expansion `dtw_expand_wps(_slice)`.

Matrix coordinates: row `r ∈ 0..l1`, column `c ∈ 0..l2` (row/column 0 are the borders).
A compact row `r ≥ 1` stores the matrix columns `[cb, ce)`: the cell left of the band followed by the
band cells; the stored column `c` lives at `base + (c - cb)`.
-/
import Dtaiverif.Model.Basic

namespace Dtai

structure Parts where
  ldiff : Nat
  ldiffr : Nat
  ldiffc : Nat
  window : Nat
  width : Nat
  length : Nat
  ri1 : Nat
  ri2 : Nat
  ri3 : Nat
  ol : Nat    -- overlap_left_ri
  or : Nat    -- overlap_right_ri
  deriving Repr, DecidableEq

/-- `dtw_wps_parts` (window `0` = no window) -/
def wpsParts (l1 l2 window : Nat) : Parts :=
  let ldiff := if l1 > l2 then l1 - l2 else l2 - l1
  let ldiffr := if l1 > l2 then l1 - l2 else 0
  let ldiffc := if l1 > l2 then 0 else l2 - l1
  let w := if window = 0 then max l1 l2 else min window (max l1 l2)
  let width := if window = 0 then l2 + 1 else min (l2 + 1) (ldiff + 2 * w + 1)
  let ol := min (w + ldiffr) (l1 + 1)
  let or := if w + ldiffr ≤ l1 then l1 + 1 - w - ldiffr else 0
  { ldiff := ldiff, ldiffr := ldiffr, ldiffc := ldiffc, window := w, width := width,
    length := (l1 + 1) * width,
    ri1 := min l1 (min ol or), ri2 := min l1 ol, ri3 := min l1 (max ol or), ol := ol, or := or }

/-- `dtw_wps_loc_columns`: for matrix row `r` (`1 ≤ r ≤ l1`) the index of the first stored cell and
the stored column range `[cb, ce)` -/
def locColumns (p : Parts) (l2 r : Nat) : Nat × Nat × Nat :=
  if r ≤ p.ri1 then (r * p.width, 0, p.window + p.ldiffc + r)
  else if r ≤ p.ri2 then (r * p.width, 0, l2 + 1)
  else if r ≤ p.ri3 then (r * p.width, r - p.ri2, 2 * p.window + p.ldiff + r - p.ri2)
  else if p.ri2 = p.ri3 then
    let cb := (p.ri3 + 1 - p.window - p.ldiffr) + (r - p.ri3 - 1)
    (r * p.width + cb, cb, l2 + 1)
  else (r * p.width + (r - p.ri3), r - p.ri2, l2 + 1)

/-- `dtw_wps_loc`: index of matrix cell `(r, c)` in the compact buffer, `none` if not stored -/
def wpsLoc (p : Parts) (l2 r c : Nat) : Option Nat :=
  if r = 0 then (if c < p.width then some c else none)
  else
    let lc := locColumns p l2 r
    if lc.2.1 ≤ c ∧ c < min lc.2.2 (l2 + 1) then some (lc.1 + (c - lc.2.1)) else none

section
variable {α : Type} [HasTop α] [Zero α]

/-- `dtw_expand_wps_slice`: the slice `[rb:re, cb:ce]` of the full matrix recovered from the compact
buffer (`psi1b`/`psi2b` determine the border cells that are not stored) -/
def expandSlice (p : Parts) (l1 l2 psi1b psi2b : Nat) (wps : Array α) (rb re cb ce : Nat) : List (List α) :=
  (List.range (re - rb)).map fun dr =>
    let r := rb + dr
    (List.range (ce - cb)).map fun dc =>
      let c := cb + dc
      match wpsLoc p l2 r c with
      | some i => wps.getD i top
      | none =>
        if r = 0 ∧ c ≤ psi2b ∧ c ≤ l2 then 0
        else if c = 0 ∧ 1 ≤ r ∧ r ≤ psi1b ∧ r ≤ l1 then 0
        else top

end

end Dtai
