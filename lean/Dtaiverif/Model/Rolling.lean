/-
Model/Rolling.lean — index arithmetic of the two-row rolling buffer of `dtw_distance*` (dd_dtw.c) and
`dtw.distance` (dtw.py).  Only the indices are modelled here (values are the business of Model/Dtw);
the expressions are compared with the ones extracted from the C source by translate/c_index.py.

For row `i` (0-based) of the loop:
  dl_window    = dl + window - 1                with dl = max(0, l1 - l2)
  ldiff_window = window + max(0, l2 - l1)
  maxj = (i - dl_window) * (i > dl_window)      first column of the band
  minj = min(l2, i + ldiff_window)              one past the last column
  skip = maxj * (length != l2 + 1)              column offset of the current row inside the buffer
and per cell `j ∈ [max(maxj, sc), minj)` the offsets inside a row of `length` doubles
  previous row:  j - skipp      (diagonal)      j - skipp + 1   (up)
  current row :  j - skip       (left)          j - skip + 1    (the cell itself)
-/
namespace Dtai

structure Roll where
  l1 : Nat
  l2 : Nat
  window : Nat      -- already resolved (`0 → max l1 l2`)
  deriving Repr

namespace Roll

def ldiff (p : Roll) : Nat := if p.l1 > p.l2 then p.l1 - p.l2 else p.l2 - p.l1
def dl (p : Roll) : Nat := if p.l1 > p.l2 then p.l1 - p.l2 else 0
/-- `length = MIN(l2+1, ldiff + 2*window + 1)` -/
def length (p : Roll) : Nat := min (p.l2 + 1) (p.ldiff + 2 * p.window + 1)
def dlWindow (p : Roll) : Nat := p.dl + p.window - 1
def ldiffWindow (p : Roll) : Nat := p.window + (if p.l2 > p.l1 then p.ldiff else 0)
def maxj (p : Roll) (i : Nat) : Nat := if i > p.dlWindow then i - p.dlWindow else 0
def minj (p : Roll) (i : Nat) : Nat := min p.l2 (i + p.ldiffWindow)
def skip (p : Roll) (i : Nat) : Nat := if p.length ≠ p.l2 + 1 then p.maxj i else 0
/-- `skipp` of row `i` (`skip` of the previous row, `0` for the first row) -/
def skipp (p : Roll) (i : Nat) : Nat := if i = 0 then 0 else p.skip (i - 1)

end Roll

end Dtai
