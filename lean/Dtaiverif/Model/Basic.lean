/-
Model/Basic.lean — cost-domain interface shared by every executable model.
No Mathlib import: these files are also compiled into the native driver.
-/
namespace Dtai

/-- A cost domain with an "infinite" element.  In proofs it is instantiated by
`⊤` of a `LinearOrderedAddCommMonoidWithTop`; in the driver by `Cost.top` / `Float` infinity. -/
class HasTop (α : Type) where
  top : α

export HasTop (top)

/-- Executable exact cost domain: a natural number or infinity. -/
inductive Cost where
  | fin (n : Nat)
  | inf
  deriving DecidableEq, Repr, Inhabited

namespace Cost

def add : Cost → Cost → Cost
  | fin a, fin b => fin (a + b)
  | _, _ => inf

def le : Cost → Cost → Prop
  | fin a, fin b => a ≤ b
  | _, inf => True
  | inf, fin _ => False

instance : Add Cost := ⟨add⟩
instance : LE Cost := ⟨le⟩
instance : LT Cost := ⟨fun a b => a ≤ b ∧ ¬ b ≤ a⟩
instance : Zero Cost := ⟨fin 0⟩
instance : HasTop Cost := ⟨inf⟩
instance : OfNat Cost n := ⟨fin n⟩

instance decLe : (a b : Cost) → Decidable (a ≤ b)
  | fin a, fin b => inferInstanceAs (Decidable (a ≤ b))
  | fin _, inf => isTrue trivial
  | inf, inf => isTrue trivial
  | inf, fin _ => isFalse (fun h => h)

instance : Min Cost := ⟨fun a b => if a ≤ b then a else b⟩
instance : Max Cost := ⟨fun a b => if a ≤ b then b else a⟩

def toString : Cost → String
  | fin n => s!"{n}"
  | inf => "inf"

instance : ToString Cost := ⟨toString⟩

end Cost

instance : HasTop Float := ⟨1.0 / 0.0⟩

/-- `getD` with the infinite element as default (reads outside a row are `⊤`, like the
untouched `inf` cells of the implementation's buffers). -/
def getT [HasTop α] (l : List α) (j : Nat) : α := l.getD j top

/-- minimum of a list, `⊤` for the empty list -/
def minList [HasTop α] [Min α] (l : List α) : α := l.foldl min top

end Dtai
