/-
Model/Hier.lean — `Hierarchical.fit` (clustering/hierarchical.py) over an abstract upper-triangular
distance matrix: repeatedly take a globally minimal entry `(r, c)`, merge `c` into `r` (or the other way
round when the merge hook says so), blank row and column of the merged series, until the minimum
exceeds `max_dist`, is infinite, or a single prototype is left.
-/
import Dtaiverif.Model.Basic

namespace Dtai

section
variable {α : Type} [LE α] [DecidableLE α] [HasTop α] [DecidableEq α]

structure HState (α : Type) where
  n : Nat
  dist : Nat → Nat → α          -- upper triangle (r < c), `⊤` elsewhere / when blanked
  rep : Nat → Nat               -- prototype of every series
  deleted : List Nat
  merges : List (Nat × Nat × α) -- (kept prototype, merged prototype, distance), most recent first

/-- merge prototype `i2` into prototype `i1` at distance `d` -/
def HState.merge (st : HState α) (i1 i2 : Nat) (d : α) : HState α :=
  { n := st.n
    dist := fun r c => if r = i2 ∨ c = i2 then top else st.dist r c
    rep := fun x => if st.rep x = i2 then i1 else st.rep x
    deleted := i2 :: st.deleted
    merges := (i1, i2, d) :: st.merges }

/-- all index pairs `(r, c)`, `r < c < n`, row-major (the order of `np.argwhere`) -/
def upperPairs (n : Nat) : List (Nat × Nat) :=
  (List.range n).flatMap fun r => (List.range' (r+1) (n - (r+1))).map fun c => (r, c)

/-- first globally minimal entry in row-major order (default choice without `order_hook`) -/
def firstMinPair (n : Nat) (dist : Nat → Nat → α) : Option (Nat × Nat) :=
  (upperPairs n).foldl (fun best p =>
    match best with
    | none => some p
    | some b => if dist b.1 b.2 ≤ dist p.1 p.2 then some b else some p) none

/-- deterministic run without hooks: `fuel` bounds the number of merges (`n - 1` suffices) -/
def hierRun (maxDist : α) : Nat → HState α → HState α
  | 0, st => st
  | fuel+1, st =>
    match firstMinPair st.n st.dist with
    | none => st
    | some (r, c) =>
      let d := st.dist r c
      if d ≤ maxDist ∧ d ≠ top then
        let st' := st.merge r c d
        if st'.deleted.length + 1 = st.n then st' else hierRun maxDist fuel st'
      else st

def hierInit (n : Nat) (dist : Nat → Nat → α) : HState α :=
  { n := n, dist := fun r c => if r < c ∧ c < n then dist r c else top, rep := id, deleted := [], merges := [] }

/-- bookkeeping of `HierarchicalTree.fit`: current node id of each prototype (`None` once merged away) and
the linkage rows (first child, second child), most recent first -/
structure TState where
  nodeOf : Nat → Option Nat
  linkage : List (Nat × Nat)

def treeInit (n : Nat) : TState := { nodeOf := fun x => if x < n then some x else none, linkage := [] }

/-- `merge_hook(from_idx = i2, to_idx = i1, d)`: a new node `n + len(linkage)` with children
`new_nodes[i2]`, `new_nodes[i1]`; it becomes the node of `i1`, and `i2` has no node any more. A missing
node id is recorded as `n + len` itself (never produced on reachable states, see `Proofs/Hier`). -/
def treeStep (n : Nat) (t : TState) (i1 i2 : Nat) : TState :=
  let new := n + t.linkage.length
  { nodeOf := fun x => if x = i2 then none else if x = i1 then some new else t.nodeOf x
    linkage := ((t.nodeOf i2).getD new, (t.nodeOf i1).getD new) :: t.linkage }

/-- the tree recorded for a merge list (most recent first) -/
def treeOf (n : Nat) : List (Nat × Nat × α) → TState
  | [] => treeInit n
  | (i1, i2, _) :: rest => treeStep n (treeOf n rest) i1 i2

/-- condensed distance vector handed to `scipy.cluster.hierarchy.linkage` by `LinkageTree.fit` -/
def condensedOf (n : Nat) (dist : Nat → Nat → α) : List α :=
  (upperPairs n).map fun p => dist p.1 p.2

end

end Dtai
