/-
Model/Path.lean — tracing the best path back through an accumulated-cost matrix
(`dtw.best_path`, `dtw_best_path*`), in the internal representation with the penalty.

* `backtrack`  : the deterministic trace-back of `dtw.best_path` (argmin of
                 `[diag, up + penalty, left + penalty]`, first minimum wins), started in a given cell
* `IsBack`     : the *relation* "every step goes to a predecessor that realises the recurrence";
                 the engines may differ in which of several optimal predecessors they take, all such
                 paths satisfy `IsBack`
* `isBackB`    : executable decision procedure for `IsBack` (used by the driver on the
                 implementation's paths)
-/
import Dtaiverif.Model.Dtw

namespace Dtai

section
variable {α : Type} [Add α] [Min α] [LE α] [DecidableLE α] [Zero α] [HasTop α]

/-- `dtw.best_path(paths, row=I, col=J, penalty=pen)` on matrix `M` (matrix coordinates, `I,J ≥ 1`);
result end-first in series coordinates -/
def backtrack (M : Nat → Nat → α) (pen : α) : Nat → Nat → Nat → List Cell
  | 0, _, _ => []
  | fuel+1, I, J =>
    if I = 0 ∨ J = 0 then []
    else
      let d := M (I-1) (J-1)
      let u := M (I-1) J + pen
      let l := M I (J-1) + pen
      (I-1, J-1) ::
        (if d ≤ u ∧ d ≤ l then backtrack M pen fuel (I-1) (J-1)
         else if u ≤ l then backtrack M pen fuel (I-1) J
         else backtrack M pen fuel I (J-1))

/-- every step realises the recurrence (end-first list of series cells) -/
def Grid.IsBack (g : Grid α) : List Cell → Prop
  | [] => False
  | [p] => g.ok p.1 p.2 = true ∧ g.StartOk p ∧ D g (p.1+1) (p.2+1) = g.cost p.1 p.2 + 0
  | q :: p :: rest =>
      g.ok q.1 q.2 = true ∧ IsStep p q ∧
      D g (q.1+1) (q.2+1) = g.cost q.1 q.2 + (D g (p.1+1) (p.2+1) + g.stepPen p q) ∧
      Grid.IsBack g (p :: rest)

end

/-- executable version of `IsBack` on the exact cost domain -/
def isBackB (g : Grid Cost) (M : Nat → Nat → Cost) : List Cell → Bool
  | [] => false
  | [p] => g.ok p.1 p.2 && (decide (p.1 = 0 ∧ p.2 ≤ g.psi2b) || decide (p.2 = 0 ∧ p.1 ≤ g.psi1b)) &&
           decide (M (p.1+1) (p.2+1) = g.cost p.1 p.2 + 0)
  | q :: p :: rest =>
      g.ok q.1 q.2 && decide (IsStep p q) &&
      decide (M (q.1+1) (q.2+1) = g.cost q.1 q.2 + (M (p.1+1) (p.2+1) + g.stepPen p q)) &&
      isBackB g M (p :: rest)

end Dtai
