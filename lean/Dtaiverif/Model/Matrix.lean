/-
Model/Matrix.lean — distance matrices: which (row, column) pairs are computed, in which order, and
where each result is stored (dtw.py: `distance_matrix_python`, `_distance_matrix_idxs`,
`_distance_matrix_length`, `distances_array_to_matrix`, `distance_array_index`; dd_dtw.c:
`dtw_distances_length`, the double loops of `dtw_distances_*`; dd_dtw_openmp.c:
`dtw_distances_prepare` and the parallel loops).
-/
import Dtaiverif.Model.Basic

namespace Dtai

structure Block where
  rb : Nat
  re : Nat
  cb : Nat
  ce : Nat
  triu : Bool := true
  deriving Repr, DecidableEq

/-- `_complete_block`: `None` = all series, upper triangle -/
def completeBlock (n : Nat) : Option Block → Block
  | none => { rb := 0, re := n, cb := 0, ce := n, triu := true }
  | some b => b

/-- columns selected in row `r` (begin, end) — the inner `range` of `distance_matrix_python` -/
def rowCols (n : Nat) (b : Block) (r : Nat) : Nat × Nat :=
  (if b.triu then max (r + 1) b.cb else b.cb, min n b.ce)

/-- SPEC and Python enumeration: the selected pairs in row-major order -/
def pairs (n : Nat) (ob : Option Block) : List (Nat × Nat) :=
  let b := completeBlock n ob
  (List.range' b.rb (b.re - b.rb)).flatMap fun r =>
    let rc := rowCols n b r
    (List.range' rc.1 (rc.2 - rc.1)).map fun c => (r, c)

/-- `_distance_matrix_length` -/
def lengthPy (n : Nat) : Option Block → Nat
  | none => n * (n - 1) / 2
  | some b =>
    if ¬ b.triu then (b.re - b.rb) * (b.ce - b.cb)
    else
      ((List.range' b.rb (b.re - b.rb)).map fun ri =>
        if b.cb ≤ ri then (if b.ce > ri then b.ce - ri - 1 else 0)
        else (if b.ce > ri then b.ce - b.cb else 0)).foldr (· + ·) 0

/-- the `for (ir ...) { ...; break; }` loop of `dtw_distances_length` over the given rows -/
def lengthCLoop (b : Block) : List Nat → Nat
  | [] => 0
  | ir :: rest =>
    if ir < b.cb then (b.ce - b.cb) + lengthCLoop b rest
    else if b.ce ≤ ir then 0          -- `break`
    else (b.ce - ir - 1) + lengthCLoop b rest

/-- `dtw_block_is_valid` -/
def blockValid (b : Block) (nr nc : Nat) : Bool :=
  decide (b.rb < b.re) && decide (b.cb < b.ce) && decide (b.rb < nr) && decide (b.re ≤ nr) &&
  decide (b.cb < nc) && decide (b.ce ≤ nc)

/-- `dtw_distances_length` with `nb_series_r = nb_series_c = n` (block with `re = 0` or `ce = 0`
means "no block") -/
def lengthC (n : Nat) (b : Block) : Nat :=
  if b.re = 0 ∨ b.ce = 0 then
    if b.triu then (if n % 2 = 0 then (n / 2) * (n - 1) else n * ((n - 1) / 2))
    else n * n
  else if ¬ blockValid b n n then 0
  else if b.triu then lengthCLoop b (List.range' b.rb (b.re - b.rb))
  else (b.re - b.rb) * (b.ce - b.cb)

/-- the double loop of `dtw_distances_*` after the block correction (`re == 0 → n`, `ce == 0 → n`) -/
def pairsC (n : Nat) (b : Block) : List (Nat × Nat) :=
  let re := if b.re = 0 then n else b.re
  let ce := if b.ce = 0 then n else b.ce
  (List.range' b.rb (re - b.rb)).flatMap fun r =>
    let cb := if b.triu ∧ r + 1 > b.cb then r + 1 else b.cb
    (List.range' cb (ce - cb)).map fun c => (r, c)

/-- how the Cython layer turns a Python block into a C block (`None → {0,0,0,0,triu}`) -/
def toCBlock : Option Block → Block
  | none => { rb := 0, re := 0, cb := 0, ce := 0, triu := true }
  | some b => b

/-- `distance_array_index(a, b, nb_series)` for `a ≠ b` -/
def condensedIndex (a b n : Nat) : Nat :=
  let lo := min a b
  let hi := max a b
  ((List.range lo).map fun r => n - r - 1).foldr (· + ·) 0 + (hi - lo - 1)

/-! ### OpenMP plan: `dtw_distances_prepare` and the parallel loops -/

/-- per-row plan of `dtw_distances_prepare` (triu): `cbs[ir]` = first column, `rls[ir]` = output offset
of the row -/
def preparePlan (n : Nat) (b : Block) : List (Nat × Nat × Nat) :=   -- (row, cb, offset)
  let re := if b.re = 0 then n else b.re
  let ce := if b.ce = 0 then n else b.ce
  let rows := List.range' b.rb (re - b.rb)
  let step := fun (acc : Nat × List (Nat × Nat × Nat)) (r : Nat) =>
    let cb := if b.triu ∧ r + 1 > b.cb then r + 1 else b.cb
    (acc.1 + (ce - cb), acc.2 ++ [(r, cb, acc.1)])
  (rows.foldl step (0, [])).2

/-- the writes iteration `r` of a parallel loop performs: `(output slot, (r, c))` -/
def rowWrites (n : Nat) (b : Block) (row : Nat × Nat × Nat) : List (Nat × (Nat × Nat)) :=
  let ce := if b.ce = 0 then n else b.ce
  (List.range' row.2.1 (ce - row.2.1)).map fun c => (row.2.2 + (c - row.2.1), (row.1, c))

section
variable {α : Type} [HasTop α] [Zero α]

/-- `distances_array_to_matrix`: square form from the compact list -/
def toSquare (n : Nat) (ps : List (Nat × Nat)) (vals : List α) (onlyTriu : Bool) (r c : Nat) : α :=
  if ¬ onlyTriu ∧ r = c ∧ r < n then 0
  else
    match (ps.zip vals).find? (fun pv => (pv.1 == (r, c)) || (!onlyTriu && pv.1 == (c, r))) with
    | some pv => pv.2
    | none => top

end

end Dtai
