/-
Model/Affinity.lean — `dtw.warping_paths_affinity` (affinity / local-concurrence matrix) and the match
search of `subsequence/localconcurrences.py` (`best_path`, `kbest_matches`).

Cells are `Option β`: `none` is the `-inf` of an excluded cell (outside the band, below the diagonal with
`only_triu`, a border cell other than the origin) and, in the search, a masked cell. The point
affinities `exp(-gamma * diff^2)` are an input table: the model is about the recurrence, not about `exp`.
-/
import Dtaiverif.Model.Basic

namespace Dtai

structure AffGrid (β : Type) where
  r : Nat
  c : Nat
  window : Nat
  onlyTriu : Bool
  pen : β
  tau : β
  delta : β
  deltaFactor : β
  aff : Nat → Nat → β

section
variable {β : Type} [Add β] [Sub β] [Mul β] [Max β] [LT β] [DecidableLT β] [Zero β]

namespace AffGrid

/-- `j_start`, with `only_triu`: `max(i, j_start)` -/
def jStart (g : AffGrid β) (i : Nat) : Nat :=
  let js := i + 1 - (g.r - g.c) - g.window
  if g.onlyTriu then max i js else js

def jEnd (g : AffGrid β) (i : Nat) : Nat := min g.c (i + (g.c - g.r) + g.window)

def inBand (g : AffGrid β) (i j : Nat) : Bool := decide (g.jStart i ≤ j) && decide (j < g.jEnd i)

end AffGrid

/-- `max` with `none = -inf` -/
def omax (a b : Option β) : Option β :=
  match a, b with
  | none, b => b
  | a, none => a
  | some x, some y => some (max x y)

/-- `x - penalty` with `-inf - p = -inf` -/
def osub (a : Option β) (p : β) : Option β := a.map (· - p)

/-- value written to an in-band cell: `max(0, d + prev)`, or `max(0, delta + delta_factor * prev)` when the
affinity is below `tau`; a predecessor value of `-inf` gives 0 in both branches -/
def affStep (g : AffGrid β) (i j : Nat) (diag up left : Option β) : β :=
  let prev := omax diag (omax (osub up g.pen) (osub left g.pen))
  let d := g.aff i j
  match prev with
  | none => 0
  | some p => if d < g.tau then max 0 (g.delta + g.deltaFactor * p) else max 0 (d + p)

def affCell (g : AffGrid β) (i j : Nat) (diag up left : Option β) : Option β :=
  if g.inBand i j then some (affStep g i j diag up left) else none

/-- SPEC: the matrix in matrix coordinates (row/column 0 = borders; only the origin is 0) -/
def affSpec (g : AffGrid β) : Nat → Nat → Option β
  | 0, 0 => some 0
  | 0, _+1 => none
  | _+1, 0 => none
  | I+1, J+1 => affCell g I J (affSpec g I J) (affSpec g I (J+1)) (affSpec g (I+1) J)

/-- executable rows (same scan as `rowFrom` of the DTW model, cells being `Option β`) -/
def affRowFrom (f : Nat → Option β → Option β → Option β → Option β) :
    Nat → Option β → List (Option β) → List (Option β)
  | j, left, d :: u :: rest =>
      let v := f j d u left
      v :: affRowFrom f (j+1) v (u :: rest)
  | _, _, _ => []

def affRow0 (g : AffGrid β) : List (Option β) :=
  (List.range (g.c + 1)).map fun J => if J = 0 then some 0 else none

def affRows (g : AffGrid β) : Nat → List (Option β)
  | 0 => affRow0 g
  | I+1 => none :: affRowFrom (affCell g I) 0 none (affRows g I)

def affMatrixAux (g : AffGrid β) : Nat → List (List (Option β))
  | 0 => [affRow0 g]
  | n+1 =>
    match affMatrixAux g n with
    | prev :: rest => (none :: affRowFrom (affCell g n) 0 none prev) :: prev :: rest
    | [] => []

/-- rows `0 … r` of the matrix -/
def affMatrix (g : AffGrid β) : List (List (Option β)) := (affMatrixAux g g.r).reverse

end

/-! ### match search on a given matrix -/

section
variable {β : Type} [LT β] [DecidableLT β] [Zero β] [Neg β]

abbrev WP (β : Type) := List (List (Option β))

def WP.get (wp : WP β) (i j : Nat) : Option β := (wp[i]?.bind fun row => row[j]?).join

/-- strict comparison with `none = -inf` -/
def ogt (a b : Option β) : Bool :=
  match a, b with
  | none, _ => false
  | some _, none => true
  | some x, some y => decide (y < x)

/-- `np.unravel_index(np.argmax(wp))`: first maximal cell in row-major order (masked / `-inf` lowest) -/
def wpArgmax (wp : WP β) : Nat × Nat :=
  let cells := (List.range wp.length).flatMap fun i => (List.range ((wp[i]?.getD []).length)).map fun j => (i, j)
  cells.foldl (fun best p => if ogt (wp.get p.1 p.2) (wp.get best.1 best.2) then p else best) (0, 0)

/-- a neighbour can be stepped on only if its value is positive (a masked cell counts as `-1`) -/
def posVal (v : Option β) : Bool :=
  match v with
  | some x => decide (0 < x)
  | none => false

/-- Python `best_path`: `argmax([diag, up, left])`, first maximum (0 = diagonal, 1 = up, 2 = left); only
the case of a positive maximum matters, otherwise the walk stops -/
def choosePy (vd vu vl : Option β) : Nat :=
  let b0 : Nat × Option β := (0, vd)
  let b1 := if posVal vu && (ogt vu b0.2 || !posVal b0.2) then (1, vu) else b0
  let b2 := if posVal vl && (ogt vl b1.2 || !posVal b1.2) then (2, vl) else b1
  b2.1

/-- `a ≥ b` with `none = -inf` -/
def oge (a b : Option β) : Bool := !ogt b a

/-- C `dtw_best_path_affinity` (compact matrix): diagonal if it is at least both others plus the penalty,
else left if `left ≥ up`, else up -/
def chooseC [Add β] (pen : β) (vd vu vl : Option β) : Nat :=
  if oge vd (vl.map (· + pen)) && oge vd (vu.map (· + pen)) then 0
  else if oge vl vu then 2 else 1

/-- the walk of `best_path` for a neighbour-selection rule: cells in matrix coordinates, start cell first;
the walk moves to the selected neighbour while that neighbour is positive and no border is reached -/
def lcTrace (choose : Option β → Option β → Option β → Nat) (wp : WP β) : Nat → Nat → Nat → List (Nat × Nat)
  | 0, i, j => [(i, j)]
  | fuel+1, i, j =>
    if i = 0 ∨ j = 0 then [(i, j)]
    else
      let vd := wp.get (i-1) (j-1)
      let vu := wp.get (i-1) j
      let vl := wp.get i (j-1)
      match choose vd vu vl with
      | 0 => if posVal vd then (i, j) :: lcTrace choose wp fuel (i-1) (j-1) else [(i, j)]
      | 1 => if posVal vu then (i, j) :: lcTrace choose wp fuel (i-1) j else [(i, j)]
      | _ => if posVal vl then (i, j) :: lcTrace choose wp fuel i (j-1) else [(i, j)]

/-- the cells of the walk in matrix coordinates (start cell first); a trailing border cell is dropped -/
def lcRaw (choose : Option β → Option β → Option β → Nat) (wp : WP β) (row col : Nat) : List (Nat × Nat) :=
  let raw := lcTrace choose wp (row + col) row col
  match raw.getLast? with
  | some (i, j) => if i = 0 ∨ j = 0 then raw.dropLast else raw
  | none => raw

/-- the path as returned by `best_path`: series coordinates, first cell first -/
def pathOfCells (cells : List (Nat × Nat)) : List (Nat × Nat) :=
  cells.reverse.map fun p => (p.1 - 1, p.2 - 1)

def wpNegate (wp : WP β) (cells : List (Nat × Nat)) : WP β :=
  wp.mapIdx fun i row => row.mapIdx fun j v => if (i, j) ∈ cells then v.map (- ·) else v

/-- `_reset_wp_mask` of the compact variant: every finite negative value becomes positive again -/
def wpPositivize (wp : WP β) : WP β :=
  wp.map fun row => row.map fun v =>
    match v with
    | some x => if x < 0 then some (-x) else some x
    | none => none

structure LCMatchM where
  row : Nat
  col : Nat
  cells : List (Nat × Nat)     -- matrix coordinates, start cell first (these are the cells that get negated)
  deriving Repr

def LCMatchM.path (m : LCMatchM) : List (Nat × Nat) := pathOfCells m.cells

/-- the inner search loop of `kbest_matches`: returns the next match (if any) and the new matrix; `fuel`
bounds the number of too-short candidates that are skipped -/
def lcNext (choose : Option β → Option β → Option β → Nat) (minlen : Nat) : Nat → WP β → Option LCMatchM × WP β
  | 0, wp => (none, wp)
  | fuel+1, wp =>
    let idx := wpArgmax wp
    if idx.1 = 0 ∨ idx.2 = 0 then (none, wp)
    else
      let cells := lcRaw choose wp idx.1 idx.2
      let wp' := wpNegate wp cells
      if cells.length < minlen then lcNext choose minlen fuel wp'
      else (some { row := idx.1, col := idx.2, cells := cells }, wp')

/-- `while k is None or ki < k` has ended -/
def kDone (k : Option Nat) (ki : Nat) : Bool :=
  match k with
  | some kk => decide (kk ≤ ki)
  | none => false

/-- one call `kbest_matches(k, minlen, restart)`, fully consumed -/
def lcCall (choose : Option β → Option β → Option β → Nat) (resetPositivizes : Bool) (k : Option Nat) (minlen : Nat) (restart : Bool) (wp : WP β) :
    List LCMatchM × WP β :=
  let wp0 := if restart && resetPositivizes then wpPositivize wp else wp
  let cells := wp0.foldl (fun n row => n + row.length) 0
  let rec go : Nat → Nat → WP β → List LCMatchM → List LCMatchM × WP β
    | 0, _, wp, acc => (acc.reverse, wp)
    | fuel+1, ki, wp, acc =>
      if kDone k ki then (acc.reverse, wp)
      else
        match lcNext choose minlen (cells + 1) wp with
        | (none, wp') => (acc.reverse, wp')
        | (some m, wp') => go fuel (ki + 1) wp' (m :: acc)
  go (cells + 1) 0 wp0 []

end

end Dtai
