/-
Model/KMeans.lean — the assignment logic of `KMeans.fit` (clustering/kmeans.py): `_distance*_with_params`
(first strict minimum over the means, starting from `(-1, inf)`), the construction of `cluster_idx` from
the final assignment, and the iteration counter of the main loop. The means themselves (DBA) are
arbitrary data here: the property constrains only their number and the assignment against them.
-/
import Dtaiverif.Model.Basic

namespace Dtai

section
variable {α : Type} [LE α] [DecidableLE α] [HasTop α]

/-- `for i, mean in enumerate(means): if d < min_d: min_d, min_i = d, i` from position `i` on -/
def nearestAux : List α → Nat → Option Nat × α → Option Nat × α
  | [], _, acc => acc
  | d :: ds, i, acc => nearestAux ds (i + 1) (if ¬ acc.2 ≤ d then (some i, d) else acc)

/-- `(min_i, min_d)` with `none` for the initial `-1` -/
def nearest (ds : List α) : Option Nat × α := nearestAux ds 0 (none, HasTop.top)

/-- assignment of every series given its row of distances to the `k` means -/
def assignAll (table : List (List α)) : List (Option Nat) := table.map fun row => (nearest row).1

/-- `cluster_idx = {ki: set() for ki in range(k)}; cluster_idx[cluster].add(idx)` -/
def clustersOf (k : Nat) (assign : List (Option Nat)) : List (List Nat) :=
  (List.range k).map fun j => (List.range assign.length).filter fun i => assign[i]? == some (some j)

end

/-- number of executed iterations of `for it_nb in range(max_it): performed_it += 1; …; if stop: break` -/
def loopCount : Nat → (Nat → Bool) → Nat → Nat
  | 0, _, _ => 0
  | fuel + 1, stop, it => 1 + (if stop it then 0 else loopCount fuel stop (it + 1))

/-- `performed_it` as returned by `fit` -/
def performedIt (maxIt : Nat) (stop : Nat → Bool) : Nat := 1 + loopCount maxIt stop 0

end Dtai
