/-
Model/Ops.lean — JSON decoding and dispatch for the line-protocol driver.
-/
import Lean.Data.Json
import Dtaiverif.Model.Settings
import Dtaiverif.Model.Bounds
import Dtaiverif.Model.Compact
import Dtaiverif.Model.Path
import Dtaiverif.Model.Matrix
import Dtaiverif.Model.Dba
import Dtaiverif.Model.SubseqIter
import Dtaiverif.Model.SubseqSearch
import Dtaiverif.Model.Hier
import Dtaiverif.Model.KMeans
import Dtaiverif.Model.NW
import Dtaiverif.Model.Affinity
import Dtaiverif.Model.Similarity
import Dtaiverif.Model.Views

open Lean

namespace Dtai.Ops

def getNat (j : Json) (k : String) : Except String Nat := do
  let v ← j.getObjVal? k
  v.getNat?

def getNatD (j : Json) (k : String) (d : Nat) : Nat :=
  match j.getObjVal? k with
  | .ok v => match v.getNat? with | .ok n => n | .error _ => d
  | .error _ => d

def getOptNat (j : Json) (k : String) : Option Nat :=
  match j.getObjVal? k with
  | .ok v => match v.getNat? with | .ok n => some n | .error _ => none
  | .error _ => none

def getBoolD (j : Json) (k : String) (d : Bool) : Bool :=
  match j.getObjVal? k with
  | .ok (Json.bool b) => b
  | _ => d

def getStrD (j : Json) (k : String) (d : String) : String :=
  match j.getObjVal? k with
  | .ok (Json.str s) => s
  | _ => d

def getIntArr (j : Json) (k : String) : Except String (Array Int) := do
  let v ← j.getObjVal? k
  let a ← v.getArr?
  a.mapM (·.getInt?)

def getNatArr (j : Json) (k : String) : Except String (Array Nat) := do
  let v ← j.getObjVal? k
  let a ← v.getArr?
  a.mapM (·.getNat?)

def costJ (c : Cost) : Json :=
  match c with
  | .fin n => Json.num n
  | .inf => Json.str "inf"

def rowsJ (m : List (List Cost)) : Json :=
  Json.arr (m.map fun r => Json.arr (r.map costJ).toArray).toArray

def rawSettings (j : Json) : Except String RawSettings := do
  let psi ← getNatArr j "psi"
  let inner := if getStrD j "inner" "sq" == "abs" then InnerKind.abs else InnerKind.sq
  return { window := getOptNat j "window", penalty := getOptNat j "penalty",
           maxStep := getOptNat j "maxStep", maxDistI := getOptNat j "maxDistI",
           maxLengthDiff := getOptNat j "mld",
           psi := (psi.getD 0 0, psi.getD 1 0, psi.getD 2 0, psi.getD 3 0),
           inner := inner, ndim := getNatD j "ndim" 1, scale := getNatD j "scale" 1 }

/-- op "dtw": distance model (pruned kernel), spec value, Euclidean bound, optional matrices -/
def opDtw (j : Json) : Except String Json := do
  let s ← rawSettings j
  let s1 ← getIntArr j "s1"
  let s2 ← getIntArr j "s2"
  let r := s1.size / s.ndim
  let c := s2.size / s.ndim
  let engineC := getStrD j "engine" "py" == "c"
  let g0 := if engineC then s.toGridC r c s1 s2 else s.toGridPy r c s1 s2
  -- explicit point-cost table (user-supplied inner distance): cost i j = scale * costs[i*c + j]
  let g : Grid Cost := match getNatArr j "costs" with
    | .ok cs => { g0 with cost := fun i k => .fin (s.scale * cs.getD (i * c + k) 0) }
    | .error _ => g0
  let ed : Cost := edSum g.cost r c
  let m : Cost := if getBoolD j "prune" false then ed else s.maxDist
  let mld := if engineC then s.mldC else s.mldPy
  let prune := getBoolD j "prune" false
  let both := prune && s.maxDistI.isSome
  let mMin : Cost := if ed ≤ s.maxDist then ed else s.maxDist
  let model := if both then (if engineC then distModelBoth g ed s.maxDist mld else distModel g mMin mld true)
    else distModel g m mld (if engineC then !prune else true)
  let spec := dtwSpec g
  let specFull := distSpec g mld
  let mut out : List (String × Json) := [("model", costJ model), ("spec", costJ spec),
    ("specFull", costJ specFull), ("ed", costJ ed)]
  if getBoolD j "wantMat" false then
    let w := wpsModel g m
    out := out ++ [("matP", rowsJ w.mat), ("matU", rowsJ (matU g r)), ("wpsD", costJ w.d),
      ("neg", Json.arr (w.neg.map fun p => Json.arr #[Json.num p.1, Json.num p.2]).toArray)]
  return Json.mkObj out

def costOfJ (j : Json) : Cost :=
  match j.getNat? with
  | .ok n => .fin n
  | .error _ => .inf

/-- op "parts": `dtw_wps_parts` and `dtw_wps_loc_columns` for every row -/
def opParts (j : Json) : Except String Json := do
  let l1 ← getNat j "l1"
  let l2 ← getNat j "l2"
  let w := getNatD j "window" 0
  let p := wpsParts l1 l2 w
  let rows := (List.range l1).map fun k =>
    let lc := locColumns p l2 (k+1)
    Json.arr #[Json.num lc.1, Json.num lc.2.1, Json.num lc.2.2]
  return Json.mkObj [("ldiff", Json.num p.ldiff), ("ldiffr", Json.num p.ldiffr), ("ldiffc", Json.num p.ldiffc),
    ("window", Json.num p.window), ("width", Json.num p.width), ("length", Json.num p.length),
    ("ri1", Json.num p.ri1), ("ri2", Json.num p.ri2), ("ri3", Json.num p.ri3),
    ("ol", Json.num p.ol), ("or", Json.num p.or), ("rows", Json.arr rows.toArray)]

/-- op "expand": `dtw_expand_wps_slice` of a compact buffer given as list of numbers / "inf" -/
def opExpand (j : Json) : Except String Json := do
  let l1 ← getNat j "l1"
  let l2 ← getNat j "l2"
  let w := getNatD j "window" 0
  let p := wpsParts l1 l2 w
  let buf ← (j.getObjVal? "wps") >>= (·.getArr?)
  let wps : Array Cost := buf.map costOfJ
  let sl ← getNatArr j "slice"
  let m := expandSlice p l1 l2 (getNatD j "psi1b" 0) (getNatD j "psi2b" 0) wps
    (sl.getD 0 0) (sl.getD 1 0) (sl.getD 2 0) (sl.getD 3 0)
  return Json.mkObj [("mat", rowsJ m)]

def cellsJ (l : List (Nat × Nat)) : Json :=
  Json.arr (l.map fun p => Json.arr #[Json.num p.1, Json.num p.2]).toArray

def getPaths (j : Json) (k : String) : List (List (Nat × Nat)) :=
  match j.getObjVal? k with
  | .ok (Json.arr ps) => ps.toList.map fun p =>
      match p with
      | Json.arr cs => cs.toList.map fun c =>
          match c with
          | Json.arr #[a, b] => ((a.getNat?.toOption.getD 0), (b.getNat?.toOption.getD 0))
          | _ => (0, 0)
      | _ => []
  | _ => []

/-- op "path": best path of the model (trace-back of `dtw.best_path` on the exact matrix, from the
end cell the psi epilogue selects or from a given start cell) and the decision `IsBack` for paths
produced by the implementation -/
def opPath (j : Json) : Except String Json := do
  let s ← rawSettings j
  let s1 ← getIntArr j "s1"
  let s2 ← getIntArr j "s2"
  let r := s1.size / s.ndim
  let c := s2.size / s.ndim
  let engineC := getStrD j "engine" "py" == "c"
  let g := if engineC then s.toGridC r c s1 s2 else s.toGridPy r c s1 s2
  let w := wpsModel g (HasTop.top : Cost)
  let start : Nat × Nat := match getNatArr j "start" with
    | .ok a => (a.getD 0 0, a.getD 1 0)
    | .error _ => w.endCell
  let rows := (matU g r).map (·.toArray) |>.toArray
  let M : Nat → Nat → Cost := fun I J => (rows.getD I #[]).getD J Cost.inf
  let path := (backtrack M g.pen (start.1 + start.2 + 2) start.1 start.2).reverse
  let cands := getPaths j "paths"
  let acc := cands.map fun p => Json.bool (isBackB g M p.reverse)
  return Json.mkObj [("path", cellsJ path), ("end", cellsJ [w.endCell]), ("accept", Json.arr acc.toArray),
    ("value", costJ (M start.1 start.2))]

def getBlock (j : Json) : Option Block :=
  match getNatArr j "block" with
  | .ok a => if a.size ≥ 4 then
      some { rb := a.getD 0 0, re := a.getD 1 0, cb := a.getD 2 0, ce := a.getD 3 0, triu := getBoolD j "triu" true }
    else none
  | .error _ => none

/-- op "matrixplan": which pairs a distance-matrix call computes, in which order and into which slots -/
def opMatrixPlan (j : Json) : Except String Json := do
  let n ← getNat j "n"
  let ob := getBlock j
  let cb := toCBlock ob
  let plan := preparePlan n cb
  let writes := plan.map fun row => Json.arr ((rowWrites n cb row).map fun w =>
    Json.arr #[Json.num w.1, Json.num w.2.1, Json.num w.2.2]).toArray
  let cidx := (List.range n).flatMap fun (a : Nat) => (List.range n).filterMap fun (b : Nat) =>
    if a < b then
      let i1 : Nat := condensedIndex a b n
      let i2 : Nat := condensedIndex b a n
      some (Json.arr #[Json.num (a : Nat), Json.num (b : Nat), Json.num i1, Json.num i2])
    else none
  return Json.mkObj [("pairs", cellsJ (pairs n ob)), ("lengthPy", Json.num (lengthPy n ob)),
    ("lengthC", Json.num (lengthC n cb)), ("pairsC", cellsJ (pairsC n cb)),
    ("plan", Json.arr (plan.map fun r => Json.arr #[Json.num r.1, Json.num r.2.1, Json.num r.2.2]).toArray),
    ("writes", Json.arr writes.toArray), ("condensed", Json.arr cidx.toArray)]

/-- op "bounds": Euclidean distance (internal sum) and LB_Keogh (internal sum) on integer series -/
def opBounds (j : Json) : Except String Json := do
  let s ← rawSettings j
  let s1 ← getIntArr j "s1"
  let s2 ← getIntArr j "s2"
  let r := s1.size / s.ndim
  let c := s2.size / s.ndim
  let g := s.toGridPy r c s1 s2
  let ed : Cost := edSum g.cost r c
  let w := match s.window with | none => max r c | some 0 => max r c | some w => w
  let lb : Nat := match s.inner with
    | .sq => lbKeogh (fun a b => (a - b).natAbs ^ 2) s1 s2 r c w
    | .abs => lbKeogh (fun a b => (a - b).natAbs) s1 s2 r c w
  return Json.mkObj [("ed", costJ ed), ("lb", Json.num (s.scale * lb))]

/-- op "dba": one DBA step (sums and counts per position and coordinate) -/
def opDba (j : Json) : Except String Json := do
  let s ← rawSettings j
  let c ← getIntArr j "c"
  let ser ← (j.getObjVal? "series") >>= (·.getArr?)
  let series ← ser.toList.mapM fun x => do
    let a ← x.getArr?
    a.mapM (·.getInt?)
  let m ← (j.getObjVal? "mask") >>= (·.getArr?)
  let mask := m.toList.map fun x => match x with | Json.bool b => b | _ => false
  let out := dbaStep s c series mask
  return Json.mkObj [("cells", Json.arr (out.map fun row =>
    Json.arr (row.map fun sc => Json.arr #[Json.num sc.1, Json.num sc.2]).toArray).toArray)]

/-- op "subseq": matching function (internal, last row of the free-start matrix), start point of the
match ending in every position (deterministic trace-back) and the k-best iterator -/
def opSubseq (j : Json) : Except String Json := do
  let s ← rawSettings j
  let q ← getIntArr j "s1"
  let ser ← getIntArr j "s2"
  let r := q.size / s.ndim
  let c := ser.size / s.ndim
  let g := s.toGridPy r c q ser
  let rows := (matU g r).map (·.toArray) |>.toArray
  let M : Nat → Nat → Cost := fun I J => (rows.getD I #[]).getD J Cost.inf
  let matching := (List.range c).map fun e => M r (e+1)
  let starts := (List.range c).map fun e =>
    match (backtrack M g.pen (r + e + 3) r (e+1)).getLast? with
    | some p => p.2
    | none => 0
  let k := getOptNat j "k"
  let out := kbestRun starts r (getNatD j "overlap" 0) (getOptNat j "minlength") (getOptNat j "maxlength") k
    (2 * c + 2) (kbestInit matching r (getNatD j "overlap" 0)) 0
  -- `best_matches(max_rangefactor)`: the square of the factor as a fraction [num, den]
  let ranged : List (Nat × Nat) := match getNatArr j "rangeFactorSq" with
    | .ok a => kbestRunStop (rangeStop (a.getD 0 1) (a.getD 1 1)) starts r (getNatD j "overlap" 0) (getOptNat j "minlength")
        (getOptNat j "maxlength") k (2 * c + 2) (kbestInit matching r (getNatD j "overlap" 0)) 0 []
    | .error _ => []
  return Json.mkObj [("matching", Json.arr (matching.map costJ).toArray),
    ("starts", Json.arr (starts.map fun (x : Nat) => Json.num (x : Nat)).toArray), ("yielded", cellsJ out),
    ("ranged", cellsJ ranged)]

/-- op "knn": the bounded k-NN scan of SubsequenceSearch on explicit (distance, lower bound) pairs, and a
sequence of queries on one object -/
def opKnn (j : Json) : Except String Json := do
  let ds ← (j.getObjVal? "dists") >>= (·.getArr?)
  let lbs ← (j.getObjVal? "lbs") >>= (·.getArr?)
  let cands : List (Nat × Cost × Cost) := (List.range ds.size).map fun i =>
    (i, costOfJ (ds.getD i Json.null), costOfJ (lbs.getD i Json.null))
  let useLb := getBoolD j "useLb" true
  let M : Cost := match getOptNat j "maxDistI" with | some m => .fin m | none => .inf
  let ks ← getNatArr j "ks"
  let step := fun (acc : SSObj Cost × List Json) (k : Nat) =>
    -- `k = 0` encodes Python's `k=None`
    let r := if k = 0 then ssQueryAll useLb M cands acc.1 else ssQuery useLb M cands acc.1 k
    (r.1, acc.2 ++ [Json.arr (r.2.map fun x => Json.arr #[costJ x.1, Json.num (x.2 : Nat)]).toArray])
  let out := ks.toList.foldl step ({ stored := none }, [])
  return Json.mkObj [("answers", Json.arr out.2.toArray)]

/-- op "hier": hook-free `Hierarchical.fit` on an explicit matrix (row-major `n*n` entries, `null` = inf),
the linkage `HierarchicalTree` records for it, and the condensed vector of `LinkageTree` -/
def opHier (j : Json) : Except String Json := do
  let n ← getNat j "n"
  let flat ← (j.getObjVal? "flat") >>= (·.getArr?)
  let d0 : Nat → Nat → Cost := fun r c => costOfJ (flat.getD (r * n + c) Json.null)
  let M : Cost := match getOptNat j "maxDistI" with | some m => .fin m | none => .inf
  let fin := hierRun M (n - 1) (hierInit n d0)
  let t := treeOf n fin.merges
  return Json.mkObj [
    ("merges", Json.arr (fin.merges.reverse.map fun m => Json.arr #[Json.num (m.1 : Nat), Json.num (m.2.1 : Nat), costJ m.2.2]).toArray),
    ("rep", Json.arr ((List.range n).map fun x => Json.num (fin.rep x : Nat)).toArray),
    ("deleted", Json.arr (fin.deleted.reverse.map fun (x : Nat) => Json.num (x : Nat)).toArray),
    ("linkage", cellsJ t.linkage.reverse),
    ("condensed", Json.arr ((condensedOf n d0).map costJ).toArray)]

/-- op "nearest": final assignment of `KMeans.fit` on an explicit table of distances to the means -/
def opNearest (j : Json) : Except String Json := do
  let k ← getNat j "k"
  let rows ← (j.getObjVal? "table") >>= (·.getArr?)
  let table : List (List Cost) := rows.toList.map fun r =>
    match r.getArr? with
    | .ok a => a.toList.map costOfJ
    | .error _ => []
  let a := assignAll table
  return Json.mkObj [
    ("assign", Json.arr (a.map fun x => match x with | some i => Json.num (i : Nat) | none => Json.num (-1 : Int)).toArray),
    ("clusters", Json.arr ((clustersOf k a).map fun c => Json.arr (c.map fun (i : Nat) => Json.num (i : Nat)).toArray).toArray)]

def getIntD (j : Json) (k : String) (d : Int) : Int :=
  match (j.getObjVal? k) >>= (·.getInt?) with
  | .ok v => v
  | .error _ => d

/-- op "nw": Needleman–Wunsch score matrix (MIN orientation, integer scores), direction flags and the
traceback for a preference order (0 = diagonal, 1 = up, 2 = left). `sub` is a flat `k*k` table over
symbols `0 … k-1`. -/
def opNW (j : Json) : Except String Json := do
  let s1 ← getNatArr j "s1"
  let s2 ← getNatArr j "s2"
  let k ← getNat j "k"
  let tab ← getIntArr j "sub"
  let gap := getIntD j "gap" 1
  let ordA ← getNatArr j "order"
  let order : List Dir := ordA.toList.filterMap fun o => match o with | 0 => some Dir.diag | 1 => some Dir.up | 2 => some Dir.left | _ => none
  let sub : Nat → Nat → Int := fun a b => tab.getD (a * k + b) 0
  let m := nwMatrix sub gap s1.toList s2.toList
  let val : Nat → Nat → Int := fun i j => ((m[i]?.bind fun row => row[j]?).getD 0)
  let tb := nwTraceback sub gap val order s1.toList.reverse s2.toList.reverse
  let colJ : Col Nat → Json := fun c => match c with
    | .both x y => Json.arr #[Json.num (x : Nat), Json.num (y : Nat)]
    | .gap2 x => Json.arr #[Json.num (x : Nat), Json.null]
    | .gap1 y => Json.arr #[Json.null, Json.num (y : Nat)]
  return Json.mkObj [
    ("value", Json.num (val s1.size s2.size)),
    ("matrix", Json.arr (m.map fun row => Json.arr (row.map fun (v : Int) => Json.num v).toArray).toArray),
    ("alignment", match tb with
      | some cols => Json.arr (cols.reverse.map colJ).toArray
      | none => Json.null)]

def ratOfJ (j : Json) : Option Rat :=
  match j.getArr? with
  | .ok a =>
    match (a.getD 0 Json.null).getInt?, (a.getD 1 Json.null).getNat? with
    | .ok n, .ok d => some (mkRat n d)
    | _, _ => none
  | .error _ => none

def ratJ (q : Rat) : Json := Json.arr #[Json.num q.num, Json.num (q.den : Nat)]
def oratJ (q : Option Rat) : Json := match q with | some x => ratJ x | none => Json.null

/-- op "affinity": the affinity warping-paths matrix in exact rational arithmetic; all numbers are `[num, den]` -/
def opAffinity (j : Json) : Except String Json := do
  let r ← getNat j "r"
  let c ← getNat j "c"
  let w := getNatD j "window" 0
  let tab ← (j.getObjVal? "aff") >>= (·.getArr?)
  let num := fun (k : String) => match j.getObjVal? k with | .ok v => (ratOfJ v).getD 0 | .error _ => (0 : Rat)
  let win : Nat := if w = 0 then max r c else w
  let triu : Bool := getBoolD j "onlyTriu" false
  let g : AffGrid Rat := {
    r := r, c := c, window := win, onlyTriu := triu,
    pen := num "pen", tau := num "tau", delta := num "delta", deltaFactor := num "deltaFactor",
    aff := fun i k => (ratOfJ (tab.getD (i * c + k) Json.null)).getD 0 }
  return Json.mkObj [("matrix", Json.arr ((affMatrix g).map fun row => Json.arr (row.map oratJ).toArray).toArray)]

/-- op "lc": the match search of LocalConcurrences on an explicit matrix (`null` = masked / -inf) for a
sequence of `kbest_matches` calls -/
def opLc (j : Json) : Except String Json := do
  let rows ← (j.getObjVal? "wp") >>= (·.getArr?)
  let wp : WP Rat := rows.toList.map fun r => match r.getArr? with | .ok a => a.toList.map ratOfJ | .error _ => []
  let resetPos := getBoolD j "resetPositivizes" false
  let pen : Rat := match j.getObjVal? "pen" with | .ok v => (ratOfJ v).getD 0 | .error _ => 0
  let choose : Option Rat → Option Rat → Option Rat → Nat := if getBoolD j "cRule" false then chooseC pen else choosePy
  let calls ← (j.getObjVal? "calls") >>= (·.getArr?)
  let step := fun (acc : WP Rat × List Json) (cj : Json) =>
    let res := lcCall choose resetPos (getOptNat cj "k") (getNatD cj "minlen" 2) (getBoolD cj "restart" true) acc.1
    let mj := res.1.map fun m => Json.mkObj [("row", Json.num (m.row : Nat)), ("col", Json.num (m.col : Nat)), ("path", cellsJ m.path)]
    (res.2, acc.2 ++ [Json.arr mj.toArray])
  let out := calls.toList.foldl step (wp, [])
  return Json.mkObj [("calls", Json.arr out.2.toArray),
    ("negative", cellsJ ((List.range out.1.length).flatMap fun i => ((List.range ((out.1[i]?.getD []).length)).filter fun k =>
      match out.1.get i k with | some x => decide (x < 0) | none => false).map fun k => (i, k)))]

instance : HasExp Float := ⟨Float.exp, Float.log, Float.sqrt, Float.pow⟩
instance : One Float := ⟨1.0⟩
instance : Zero Float := ⟨0.0⟩

def floatOfBitsJ (j : Json) : Option Float :=
  match j.getNat? with
  | .ok n => some (Float.ofBits (UInt64.ofNat n))
  | .error _ => none
def bitsJ (x : Float) : Json := Json.num (x.toBits.toNat : Nat)
def getF (j : Json) (k : String) : Option Float :=
  match j.getObjVal? k with | .ok v => floatOfBitsJ v | .error _ => none

/-- op "similarity": `distance_to_similarity` / `squash` on IEEE doubles (given as bit patterns); numpy's
`quantile` and `mean` results are inputs (`Q`, `mean`), everything else is computed by the model -/
def opSimilarity (j : Json) : Except String Json := do
  let kind := getStrD j "kind" "d2s"
  let method := getStrD j "method" "exponential"
  let arr ← (j.getObjVal? "D") >>= (·.getArr?)
  let D : List Float := arr.toList.filterMap floatOfBitsJ
  let rIn := getF j "r"
  let aIn := getF j "a"
  let x0In := getF j "x0"
  let base := getF j "base"
  let cover : Option (Float × Float) := match getF j "Q", getF j "target" with | some q, some t => some (q, t) | _, _ => none
  let keep := getBoolD j "keepSign" false
  if kind == "d2s" then
    match method with
    | "exponential" =>
      let r := rIn.getD (guardScale (match cover with | some (q, t) => coverExponential q t | none => defaultScaleMax D))
      return Json.mkObj [("out", Json.arr (D.map fun d => bitsJ (simExponential r d)).toArray), ("r", bitsJ r)]
    | "gaussian" =>
      let r := rIn.getD (guardScale (match cover with | some (q, t) => coverGaussian q t | none => defaultScaleMax D))
      return Json.mkObj [("out", Json.arr (D.map fun d => bitsJ (simGaussian r d)).toArray), ("r", bitsJ r)]
    | "reciprocal" =>
      let r := rIn.getD 1.0
      let a := aIn.getD (match cover with | some (q, t) => coverReciprocalA r q t | none => 1.0)
      return Json.mkObj [("out", Json.arr (D.map fun d => bitsJ (simReciprocal r a d)).toArray), ("r", bitsJ r), ("a", bitsJ a)]
    | "reverse" =>
      let r := rIn.getD (guardScale (defaultScaleReverse D))
      return Json.mkObj [("out", Json.arr (D.map fun d => bitsJ (simReverse r d)).toArray), ("r", bitsJ r)]
    | _ => throw "unknown method"
  else
    let X : List Float := if keep then D.map Float.abs else D
    let fin := fun (f : Float → Float) (r x0 : Float) =>
      let out := if keep then D.map (keepSign f) else X.map f
      Json.mkObj [("out", Json.arr (out.map bitsJ).toArray), ("r", bitsJ r), ("x0", bitsJ x0)]
    match method with
    | "logistic" =>
      let x0 := x0In.getD ((getF j "mean").getD 0.0)
      let r := rIn.getD (guardScale (match cover with | some (q, t) => coverLogistic q x0 t | none => x0 / 6.0))
      return fin (match base with | some b => sqLogisticBase b r x0 | none => sqLogistic r x0) r x0
    | "gaussian" =>
      let r := rIn.getD (guardScale (match cover with | some (q, t) => coverGaussian q (1.0 - t) | none => 1.0))
      return fin (match base with | some b => sqGaussianBase b r | none => sqGaussian r) r 0.0
    | "exponential" =>
      let r := rIn.getD (guardScale (match cover with | some (q, t) => coverExponential q (1.0 - t) | none => 1.0))
      return fin (match base with | some b => sqExponentialBase b r | none => sqExponential r) r 0.0
    | _ => throw "unknown method"

/-- op "view": contiguity flags of a 1-D / 2-D view (strides in elements) and whether the guard
`if not c_contiguous: copy` keeps the caller's buffer -/
def opView (j : Json) : Except String Json := do
  let n ← getNat j "n"
  let s0 := getIntD j "s0" 1
  match getOptNat j "len", getOptNat j "d" with
  | some len, some d =>
    let v : View3 := { base := 0, n := n, len := len, d := d, s0 := s0, s1 := getIntD j "s1" 1, s2 := getIntD j "s2" 1 }
    return Json.mkObj [("c", Json.bool v.cContig), ("f", Json.bool false), ("keeps", Json.bool v.cContig)]
  | _, some d =>
    let v : View2 := { base := 0, n := n, d := d, s0 := s0, s1 := getIntD j "s1" 1 }
    return Json.mkObj [("c", Json.bool v.cContig), ("f", Json.bool v.fContig),
      ("keeps", Json.bool (v.flag .c))]
  | _, none =>
    let v : View1 := { base := 0, n := n, stride := s0 }
    return Json.mkObj [("c", Json.bool (v.flag .c)), ("f", Json.bool (v.flag .f)), ("keeps", Json.bool (v.flag .c))]

def dispatch (j : Json) : Except String Json := do
  let op ← (j.getObjVal? "op") >>= (·.getStr?)
  let res ← match op with
    | "dtw" => opDtw j
    | "knn" => opKnn j
    | "hier" => opHier j
    | "view" => opView j
    | "similarity" => opSimilarity j
    | "affinity" => opAffinity j
    | "lc" => opLc j
    | "nw" => opNW j
    | "nearest" => opNearest j
    | "subseq" => opSubseq j
    | "dba" => opDba j
    | "bounds" => opBounds j
    | "path" => opPath j
    | "matrixplan" => opMatrixPlan j
    | "parts" => opParts j
    | "expand" => opExpand j
    | "ping" => pure (Json.mkObj [("pong", Json.bool true)])
    | _ => throw s!"unknown op {op}"
  match j.getObjVal? "id" with
  | .ok i => return res.setObjVal! "id" i
  | .error _ => return res

end Dtai.Ops
