/-
Model/Similarity.lean — `similarity.distance_to_similarity` and `similarity.squash`: the documented
formulas and the derivation of their parameters from the data. The definitions are polymorphic over a
number type with `exp`, `log`, `sqrt` and a power: the theorems instantiate it with `ℝ`
(Proofs/Similarity.lean), the driver with `Float` (same definitions, IEEE arithmetic).
-/
import Dtaiverif.Model.Basic

namespace Dtai

class HasExp (α : Type) where
  exp : α → α
  log : α → α
  sqrt : α → α
  pow : α → α → α

section
variable {α : Type} [Add α] [Sub α] [Mul α] [Div α] [Neg α] [One α] [Zero α] [HasExp α]

/-! ### distance → similarity -/

/-- `exp(-D / r)` -/
def simExponential (r d : α) : α := HasExp.exp (-d / r)
/-- `exp(-D^2 / r^2)` -/
def simGaussian (r d : α) : α := HasExp.exp (-(d * d) / (r * r))
/-- `1 / (r + D*a)` -/
def simReciprocal (r a d : α) : α := 1 / (r + d * a)
/-- `(r - D) / r` -/
def simReverse (r d : α) : α := (r - d) / r

/-! ### squashing -/

/-- `1 / (1 + e^(-(X - x0) / r))` -/
def sqLogistic (r x0 x : α) : α := 1 / (1 + HasExp.exp (-(x - x0) / r))
/-- the same with an explicit base -/
def sqLogisticBase (base r x0 x : α) : α := 1 / (1 + HasExp.pow base (-(x - x0) / r))
/-- `1 - e^(-X^2 / r^2)` (`x0 = 0`) -/
def sqGaussian (r x : α) : α := 1 - HasExp.exp (-(x * x) / (r * r))
def sqGaussianBase (base r x : α) : α := 1 - HasExp.pow base (-(x * x) / (r * r))
/-- `1 - e^(-X / r)` (`x0 = 0`) -/
def sqExponential (r x : α) : α := 1 - HasExp.exp (-x / r)
def sqExponentialBase (base r x : α) : α := 1 - HasExp.pow base (-x / r)

/-- `keep_sign`: `sign(X) * (f(|X|) - f(0))` -/
def keepSign [LT α] [DecidableLT α] (f : α → α) (x : α) : α :=
  if 0 < x then f x - f 0 else if x < 0 then -(f (-x) - f 0) else 0 * (f 0 - f 0)

/-! ### parameters derived from the data -/

variable [LT α] [DecidableLT α]

def listMax (l : List α) : α := l.foldl (fun m x => if m < x then x else m) (l.headD 0)
def listMin (l : List α) : α := l.foldl (fun m x => if x < m then x else m) (l.headD 0)

/-- insertion sort (ascending) -/
def insertAsc (x : α) : List α → List α
  | [] => [x]
  | y :: ys => if x < y then x :: y :: ys else y :: insertAsc x ys
def sortAsc (l : List α) : List α := l.foldr insertAsc []

/-- `np.quantile(D, q)` with the default linear interpolation; `idx` / `frac` are the integer and
fractional part of `(n - 1) * q`, supplied by the caller (they depend on floor, which is not part of the
number interface) -/
def quantileAt (l : List α) (idx : Nat) (frac : α) : α :=
  let s := sortAsc l
  let lo := s.getD idx 0
  let hi := s.getD (idx + 1) lo
  lo + (hi - lo) * frac

/-- `if r == 0: r = 1` applied to every scale derived from the data -/
def guardScale (r : α) : α := if 0 < r then r else if r < 0 then r else 1

/-- default scale of the exponential / Gaussian transform: `max(D)`; of the reverse transform:
`min(D) + max(D)` -/
def defaultScaleMax (l : List α) : α := listMax l
def defaultScaleReverse (l : List α) : α := listMin l + listMax l

/-- `cover_quantile` scales: exponential `-Q / log(target)`, Gaussian `sqrt(-Q^2 / log(target))`,
reciprocal `a = (1 - target*r) / (target*Q)` -/
def coverExponential (Q target : α) : α := -Q / HasExp.log target
def coverGaussian (Q target : α) : α := HasExp.sqrt (-(Q * Q) / HasExp.log target)
def coverReciprocalA (r Q target : α) : α :=
  if 0 < Q then (1 - target * r) / (target * Q) else if Q < 0 then (1 - target * r) / (target * Q) else 1
/-- squash, logistic: `-(Q - x0) / log(1/target - 1)` -/
def coverLogistic (Q x0 target : α) : α := -(Q - x0) / HasExp.log (1 / target - 1)

end

end Dtai
