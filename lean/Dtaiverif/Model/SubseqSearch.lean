/-
Model/SubseqSearch.lean — `SubsequenceSearch.align(k)`: scan of the candidates with a running bound,
LB_Keogh skip, thresholded distance call and a bounded "k best so far" store (the heap of the
implementation is modelled by its contract: a multiset kept here as an ascending list).
-/
import Dtaiverif.Model.Basic

namespace Dtai

section
variable {α : Type} [LE α] [DecidableLE α] [Min α] [HasTop α] [DecidableEq α]

structure KState (α : Type) where
  best : List (α × Nat)      -- (distance, candidate index), ascending in the distance
  bound : α                  -- current `max_dist`

def insertSorted (x : α × Nat) : List (α × Nat) → List (α × Nat)
  | [] => [x]
  | y :: ys => if x.1 ≤ y.1 then x :: y :: ys else y :: insertSorted x ys

/-- one candidate: `lb` = LB_Keogh value, `dist` = true DTW distance. The thresholded distance call
returns `dist` if `dist ≤ bound` and infinity otherwise (C03). -/
def knnStep (k : Nat) (useLb : Bool) (st : KState α) (c : Nat × α × α) : KState α :=
  let idx := c.1
  let dist := c.2.1
  let lb := c.2.2
  if useLb = true ∧ ¬ lb ≤ st.bound then st
  else if dist ≤ st.bound ∧ dist ≠ top then
    let b := (insertSorted (dist, idx) st.best).take k
    { best := b, bound := if b.length = k then min st.bound (b.getLastD (dist, idx)).1 else st.bound }
  else st

/-- the whole scan; `M` = user `max_dist` (`⊤` when not given) -/
def knnScan (k : Nat) (useLb : Bool) (M : α) (cands : List (Nat × α × α)) : KState α :=
  cands.foldl (knnStep k useLb) { best := [], bound := M }

/-- object-level state machine of `SubsequenceSearch` for a fixed candidate list: the stored result and
the `k` it was computed for; `ssQuery … k` returns the new object state and the answer of
`kbest_matches(k)` -/
structure SSObj (α : Type) where
  stored : Option (Nat × List (α × Nat))

def ssQuery (useLb : Bool) (M : α) (cands : List (Nat × α × α)) (o : SSObj α) (k : Nat) :
    SSObj α × List (α × Nat) :=
  match o.stored with
  | some (k0, res) =>
    if k ≤ k0 then (o, res.take k)
    else ({ stored := some (k, (knnScan k useLb M cands).best) }, (knnScan k useLb M cands).best)
  | none => ({ stored := some (k, (knnScan k useLb M cands).best) }, (knnScan k useLb M cands).best)

/-- `k = None`: every candidate is reported, with its distance if it qualifies (within the user bound; the
lower-bound skip and the thresholded distance call both turn a non-qualifying candidate into infinity),
sorted ascending (`np.argsort`) -/
def allVal (useLb : Bool) (M : α) (c : Nat × α × α) : α :=
  if useLb = true ∧ ¬ c.2.2 ≤ M then top
  else if c.2.1 ≤ M then c.2.1 else top

def knnAll (useLb : Bool) (M : α) (cands : List (Nat × α × α)) : List (α × Nat) :=
  (cands.map fun c => (allVal useLb M c, c.1)).foldr insertSorted []

/-- a query with `k = None`: the full ranking is returned and nothing re-usable is stored (`self.k = None`) -/
def ssQueryAll (useLb : Bool) (M : α) (cands : List (Nat × α × α)) (_ : SSObj α) : SSObj α × List (α × Nat) :=
  ({ stored := none }, knnAll useLb M cands)

end

end Dtai
