/-
Model/Dtw.lean — the DTW dynamic programme.

* `Grid`          : everything the kernels depend on (sizes, band, penalty, psi, point costs)
* `D`             : the *specification* recurrence on matrix coordinates (row/column 0 = borders)
* `rowsU`/`matU`  : executable row-by-row evaluation of `D` (what `warping_paths` does without pruning)
* `prow`/`matP`   : the kernel as implemented, *with* the early-abandoning bookkeeping
                    (`sc`, `ec`, `smaller_found`, `ec_next`, `break`) of dtw.py / dd_dtw.c
* `distModel`     : `dtw.distance` / `dtw_distance` (value in internal representation)
* paths           : admissible warping paths and their cost (the objects C01 talks about)

Series values never occur here: a kernel sees only `cost i j`.
-/
import Dtaiverif.Model.Basic

namespace Dtai

structure Grid (α : Type) where
  r : Nat
  c : Nat
  window : Nat
  pen : α
  maxStep : α
  psi1b : Nat
  psi1e : Nat
  psi2b : Nat
  psi2e : Nat
  cost : Nat → Nat → α

section
variable {α : Type} [Add α] [Min α] [LE α] [DecidableLE α] [Zero α] [HasTop α]

namespace Grid

/-- `j_start = max(0, i - max(0, r - c) - window + 1)` (truncated subtraction = `max 0`) -/
def jStart (g : Grid α) (i : Nat) : Nat := i + 1 - (g.r - g.c) - g.window
/-- `j_end = min(c, i + max(0, c - r) + window)` -/
def jEnd (g : Grid α) (i : Nat) : Nat := min g.c (i + (g.c - g.r) + g.window)

def inBand (g : Grid α) (i j : Nat) : Bool := decide (g.jStart i ≤ j) && decide (j < g.jEnd i)

/-- pair `(i,j)` may be visited: inside the band and point distance not above `max_step` -/
def ok (g : Grid α) (i j : Nat) : Bool := g.inBand i j && decide (g.cost i j ≤ g.maxStep)

/-- border row 0 of the matrix (`dtw[0, J] = 0` for `J ≤ psi_2b`) -/
def border0 (g : Grid α) (J : Nat) : α := if J ≤ g.psi2b then 0 else top
/-- border column 0 of the matrix (`dtw[I, 0] = 0` for `I ≤ psi_1b`) -/
def borderCol (g : Grid α) (I : Nat) : α := if I ≤ g.psi1b then 0 else top

/-- value of cell `(i,j)` given its three predecessors (the line
`d + min(dtw[i0, j], dtw[i0, j+1] + penalty, dtw[i1, j] + penalty)`) -/
def step (g : Grid α) (i j : Nat) (diag up left : α) : α :=
  g.cost i j + min diag (min (up + g.pen) (left + g.pen))

def cellVal (g : Grid α) (i j : Nat) (diag up left : α) : α :=
  if g.ok i j then g.step i j diag up left else top

end Grid

/-- Specification recurrence (matrix coordinates). -/
def D (g : Grid α) : Nat → Nat → α
  | 0, J => g.border0 J
  | I+1, 0 => g.borderCol (I+1)
  | I+1, J+1 => g.cellVal I J (D g I J) (D g I (J+1)) (D g (I+1) J)

/-! ### executable unpruned evaluation -/

/-- left-to-right scan of one row: `prev = [prev[j], prev[j+1], …]`, `left = cur[j]` -/
def rowFrom (f : Nat → α → α → α → α) : Nat → α → List α → List α
  | j, left, d :: u :: rest =>
      let v := f j d u left
      v :: rowFrom f (j+1) v (u :: rest)
  | _, _, _ => []

def nextRow (f : Nat → α → α → α → α) (first : α) (prev : List α) : List α :=
  first :: rowFrom f 0 first prev

def row0 (g : Grid α) : List α := (List.range (g.c + 1)).map g.border0

/-- row `I` of the unpruned matrix, length `c+1` -/
def rowsU (g : Grid α) : Nat → List α
  | 0 => row0 g
  | I+1 => nextRow (g.cellVal I) (g.borderCol (I+1)) (rowsU g I)

/-- rows `n, n-1, …, 0` of the unpruned matrix (each row computed once from its predecessor) -/
def rowsUpTo (g : Grid α) : Nat → List (List α)
  | 0 => [row0 g]
  | n+1 =>
    match rowsUpTo g n with
    | prev :: rest => nextRow (g.cellVal n) (g.borderCol (n+1)) prev :: prev :: rest
    | [] => []

/-- rows `0..n` of the unpruned matrix -/
def matU (g : Grid α) (n : Nat) : List (List α) := (rowsUpTo g n).reverse

/-! ### the kernel with early abandoning, as implemented -/

/-- state of the inner `for j` loop -/
structure JSt (α : Type) where
  sc : Nat
  found : Bool
  ecNext : Nat
  broke : Bool
  left : α

/-- one iteration of the inner `for j` loop of row `i`: `d`/`u` are the diagonal/upper predecessor
(`dtw[i0, j]`, `dtw[i0, j+1]`), `st.left` is `dtw[i1, j]`.  `js` = effective `j_start` (after
`if sc > j_start`), `ec` = `ec` of the previous row, `m` = `adj_max_dist`. -/
def pcell (g : Grid α) (m : α) (i js ec : Nat) (j : Nat) (st : JSt α) (d u : α) : α × JSt α :=
  if j < js ∨ g.jEnd i ≤ j ∨ st.broke = true then
    (top, { st with left := top })            -- outside the loop range / after `break`
  else if ¬ g.cost i j ≤ g.maxStep then
    (top, { st with left := top })            -- `continue`
  else
    let v := g.step i j d u st.left
    if v ≤ m then (v, { st with found := true, ecNext := j+1, left := v })
    else (v, { st with sc := if st.found = true ∨ i < g.psi1b then st.sc else j+1,
                       broke := decide (ec ≤ j), left := v })

/-- scan of a row with a carried state: `prev = [prev[j], prev[j+1], …]` -/
def scanSt {σ : Type} (f : Nat → σ → α → α → α × σ) : Nat → σ → List α → List α × σ
  | j, st, d :: u :: rest =>
      let r := f j st d u
      let rr := scanSt f (j+1) r.2 (u :: rest)
      (r.1 :: rr.1, rr.2)
  | _, st, _ => ([], st)

/-- state carried from row to row -/
structure PSt (α : Type) where
  sc : Nat
  ec : Nat
  rowsRev : List (List α)     -- rows computed so far, last first

def prow (g : Grid α) (m : α) (i : Nat) (sc ec : Nat) (prev : List α) : List α × Nat × Nat :=
  let js := max (g.jStart i) sc
  let first := g.borderCol (i+1)
  let r := scanSt (pcell g m i js ec) 0
      { sc := sc, found := false, ecNext := i, broke := false, left := first } prev
  (first :: r.1, r.2.sc, r.2.ecNext)

/-- rows `0..n` of the pruned matrix together with the final `(sc, ec)` -/
def matPAux (g : Grid α) (m : α) : Nat → List (List α) × Nat × Nat
  | 0 => ([row0 g], 0, g.psi2b)
  | n+1 =>
      match matPAux g m n with
      | (rows, sc, ec) =>
        let prev := rows.getLastD []
        let (row, sc', ec') := prow g m n sc ec prev
        (rows ++ [row], sc', ec')

def matP (g : Grid α) (m : α) (n : Nat) : List (List α) := (matPAux g m n).1

/-- cell of a matrix given as list of rows, `⊤` outside -/
def cellOf (mat : List (List α)) (I J : Nat) : α := getT (mat.getD I []) J

/-! ### end-point selection (`psi` epilogue) -/

/-- candidate end cells in matrix coordinates `(I,J)` -/
def endCells (g : Grid α) : List (Nat × Nat) :=
  ((List.range (g.psi2e + 1)).map fun k => (g.r, g.c - k)) ++
  ((List.range (g.psi1e + 1)).map fun k => (g.r - k, g.c))

/-- the value `dtw.distance` returns before `max_dist` check / result transform, computed from a
full matrix -/
def endMin (g : Grid α) (mat : List (List α)) : α :=
  minList ((endCells g).map fun p => cellOf mat p.1 p.2)

/-- specification value: optimum over all admissible complete paths (`dtwSpec_eq` in
Proofs/GridDP.lean: this is `min` over the end cells of the recurrence `D`) -/
def dtwSpec (g : Grid α) : α := endMin g (matU g g.r)

/-- what C01 says `distance` must return: `⊤` when the length difference exceeds `max_length_diff`,
otherwise the optimum over admissible complete paths -/
def distSpec (g : Grid α) (mld : Option Nat) : α :=
  match mld with
  | some k => if k < (g.r - g.c) + (g.c - g.r) then top else dtwSpec g
  | none => dtwSpec g

/-- `if s.adj_max_dist and d > s.adj_max_dist: d = inf` -/
def finalCheck (m d : α) : α := if ¬ m ≤ 0 ∧ ¬ d ≤ m then top else d

/-- `dtw.distance` / `dtw_distance` in internal representation; `mld` = `max_length_diff` (none = off).
`chk` says whether the final "over threshold ⇒ infinity" conversion is applied: always in Python
(`if s.adj_max_dist and d > s.adj_max_dist`), in C only for a user-given `max_dist`
(`settings->max_dist != 0 && result > settings->max_dist`), not under `use_pruning`. -/
def distModel (g : Grid α) (m : α) (mld : Option Nat) (chk : Bool := true) : α :=
  let v := endMin g (matP g m g.r)
  let v' := if chk then finalCheck m v else v
  match mld with
  | some k => if k < (g.r - g.c) + (g.c - g.r) then top else v'
  | none => v'

/-- `max_dist` and `use_pruning` together: the kernel abandons on `mK`, the final conversion tests `mF`.
Python: `mK = mF = min(adj_max_dist, ub)` (`DTWSettings.set_max_dist`); C: `mK = ub` and `mF` the user's
`max_dist` (`settings->max_dist != 0 && result > settings->max_dist`). -/
def distModelBoth (g : Grid α) (mK mF : α) (mld : Option Nat) : α :=
  let v := finalCheck mF (endMin g (matP g mK g.r))
  match mld with
  | some k => if k < (g.r - g.c) + (g.c - g.r) then top else v
  | none => v

/-! ### `warping_paths`: matrix, distance, psi_neg marking -/

/-- first index of a minimal element (`numpy.argmin` / `util.argmin`), with the value -/
def argminFirst : List α → Nat × α
  | [] => (0, top)
  | x :: xs =>
    let r := argminFirst xs
    if xs.isEmpty then (0, x) else if x ≤ r.2 then (0, x) else (r.1 + 1, r.2)

structure WpsOut (α : Type) where
  d : α
  mat : List (List α)
  /-- cells reported as `-1` when `psi_neg` is requested (matrix coordinates) -/
  neg : List (Nat × Nat)
  /-- the selected end cell (matrix coordinates) -/
  endCell : Nat × Nat

/-- `dtw.warping_paths` before the result transform: pruned matrix, end-point selection of the psi
epilogue (`argmin` over the reversed last column / last row slices, strict `<` between them) and
the cells marked `-1`. The final threshold check is applied by the caller (`finalCheck`). -/
def wpsModel (g : Grid α) (m : α) : WpsOut α :=
  let mat := matP g m g.r
  if g.psi1e = 0 ∧ g.psi2e = 0 then { d := cellOf mat g.r g.c, mat := mat, neg := [], endCell := (g.r, g.c) }
  else
    let vr := (List.range (min g.r (g.psi1e + 1))).map fun k => cellOf mat (g.r - k) g.c
    let vc := (List.range (min g.c (g.psi2e + 1))).map fun k => cellOf mat g.r (g.c - k)
    let mir : Nat × α := if g.psi1e ≠ 0 then argminFirst vr else (g.r, top)
    let mic : Nat × α := if g.psi2e ≠ 0 then argminFirst vc else (g.c, top)
    if mir.2 ≤ mic.2 ∧ ¬ mic.2 ≤ mir.2 then
      { d := mir.2, mat := mat, neg := (List.range mir.1).map fun k => (g.r - k, g.c),
        endCell := (g.r - mir.1, g.c) }
    else
      { d := mic.2, mat := mat, neg := (List.range mic.1).map fun k => (g.r, g.c - k),
        endCell := (g.r, g.c - mic.1) }

end

/-! ### warping paths -/

/-- A path is stored end-first (head = last pair). -/
abbrev Cell := Nat × Nat

def IsStep (p q : Cell) : Prop :=
  (q.1 = p.1 + 1 ∧ q.2 = p.2 + 1) ∨ (q.1 = p.1 + 1 ∧ q.2 = p.2) ∨ (q.1 = p.1 ∧ q.2 = p.2 + 1)

instance (p q : Cell) : Decidable (IsStep p q) := by unfold IsStep; infer_instance

section
variable {α : Type} [Add α] [Min α] [LE α] [DecidableLE α] [Zero α] [HasTop α]

def Grid.StartOk (g : Grid α) (p : Cell) : Prop :=
  (p.1 = 0 ∧ p.2 ≤ g.psi2b) ∨ (p.2 = 0 ∧ p.1 ≤ g.psi1b)

def Grid.EndOk (g : Grid α) (p : Cell) : Prop :=
  (p.1 + 1 = g.r ∧ p.2 < g.c ∧ g.c ≤ p.2 + 1 + g.psi2e) ∨
  (p.2 + 1 = g.c ∧ p.1 < g.r ∧ g.r ≤ p.1 + 1 + g.psi1e)

/-- `ValidRev g path`: `path` (end first) is an admissible partial warping path. -/
def Grid.ValidRev (g : Grid α) : List Cell → Prop
  | [] => False
  | [p] => g.StartOk p ∧ g.ok p.1 p.2 = true
  | q :: p :: rest => IsStep p q ∧ g.ok q.1 q.2 = true ∧ Grid.ValidRev g (p :: rest)

/-- penalty of the step `p → q` -/
def Grid.stepPen (g : Grid α) (p q : Cell) : α :=
  if q.1 = p.1 + 1 ∧ q.2 = p.2 + 1 then 0 else g.pen

/-- accumulated cost of a path (end first): point costs plus a penalty per non-diagonal step -/
def Grid.costRev (g : Grid α) : List Cell → α
  | [] => 0
  | [p] => g.cost p.1 p.2
  | q :: p :: rest => g.cost q.1 q.2 + (Grid.costRev g (p :: rest) + g.stepPen p q)

end

end Dtai
