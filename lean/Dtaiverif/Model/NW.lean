/-
Model/NW.lean — Needleman–Wunsch as implemented by `alignment.needleman_wunsch` on top of `dp.dp`
(no window / thresholds / psi): score matrix in the MIN orientation of the code (the caller negates),
direction flags, and `alignment.best_alignment` (traceback with a preference order).

Sequences are handled as REVERSED prefixes (`xs` = the first `i` symbols of `s1`, last one first), so
that cell `(i, j)` of the matrix is `nwSpec xs zs` with `i = xs.length`, `j = zs.length`.
-/
import Dtaiverif.Model.Basic

namespace Dtai

inductive Dir | diag | up | left
  deriving DecidableEq, Repr

/-- one column of an alignment; a gap is never aligned with a gap by construction -/
inductive Col (σ : Type) where
  | both (x y : σ)       -- s1 symbol over s2 symbol
  | gap2 (x : σ)         -- s1 symbol over a gap (traceback moves up)
  | gap1 (y : σ)         -- gap over s2 symbol (traceback moves left)
  deriving DecidableEq, Repr

section
variable {σ α : Type} [Add α] [Zero α] [Min α]

/-- border value `n * gap` -/
def borderVal (gap : α) : Nat → α
  | 0 => 0
  | n + 1 => gap + borderVal gap n

/-- SPEC / recurrence of `dp` with the Needleman–Wunsch border: `min(left, above, diag)` -/
def nwSpec (sub : σ → σ → α) (gap : α) : List σ → List σ → α
  | [], zs => borderVal gap zs.length
  | x :: xs, [] => borderVal gap (xs.length + 1)
  | x :: xs, z :: zs =>
    min (min (gap + nwSpec sub gap (x :: xs) zs) (gap + nwSpec sub gap xs (z :: zs))) (sub x z + nwSpec sub gap xs zs)
termination_by xs zs => xs.length + zs.length

/-- executable row: `prev` is row `i-1` from column `j-1` on, `leftv` is the cell to the left -/
def nwRowAux (sub : σ → σ → α) (gap : α) (x : σ) : List σ → List α → α → List α
  | y :: ys, pd :: pu :: prest, leftv =>
    let v := min (min (gap + leftv) (gap + pu)) (sub x y + pd)
    v :: nwRowAux sub gap x ys (pu :: prest) v
  | _, _, _ => []

/-- row `i` of the score matrix for the reversed prefix `xs` of `s1` against all of `s2` (forward) -/
def nwRowOf (sub : σ → σ → α) (gap : α) (s2 : List σ) : List σ → List α
  | [] => (List.range (s2.length + 1)).map (borderVal gap)
  | x :: xs =>
    let b := borderVal gap (xs.length + 1)
    b :: nwRowAux sub gap x s2 (nwRowOf sub gap s2 xs) b

/-- the whole matrix, rows `0 … len(s1)` -/
def nwMatrix (sub : σ → σ → α) (gap : α) (s1 s2 : List σ) : List (List α) :=
  (List.range (s1.length + 1)).map fun i => nwRowOf sub gap s2 (s1.take i).reverse

/-- score of an alignment (MIN orientation) -/
def colsScore (sub : σ → σ → α) (gap : α) : List (Col σ) → α
  | [] => 0
  | .both x y :: rest => sub x y + colsScore sub gap rest
  | .gap2 _ :: rest => gap + colsScore sub gap rest
  | .gap1 _ :: rest => gap + colsScore sub gap rest

def colsFst : List (Col σ) → List σ
  | [] => []
  | .both x _ :: rest => x :: colsFst rest
  | .gap2 x :: rest => x :: colsFst rest
  | .gap1 _ :: rest => colsFst rest

def colsSnd : List (Col σ) → List σ
  | [] => []
  | .both _ y :: rest => y :: colsSnd rest
  | .gap2 _ :: rest => colsSnd rest
  | .gap1 y :: rest => y :: colsSnd rest

variable [DecidableEq α]

/-- `best_alignment`: from cell `(xs.length, zs.length)` back to the origin; `val i j` is the score
matrix; in the interior the first direction of `order` whose flag is set is taken (`none` when no listed
direction is flagged: Python's `StopIteration`), on a border the walk goes straight. Columns are
produced last-to-first, as the Python code does before reversing. -/
def nwTraceback (sub : σ → σ → α) (gap : α) (val : Nat → Nat → α) (order : List Dir) :
    List σ → List σ → Option (List (Col σ))
  | [], [] => some []
  | x :: xs, [] => (nwTraceback sub gap val order xs []).map (Col.gap2 x :: ·)
  | [], z :: zs => (nwTraceback sub gap val order [] zs).map (Col.gap1 z :: ·)
  | x :: xs, z :: zs =>
    let i := xs.length + 1
    let j := zs.length + 1
    let v := val i j
    let flag : Dir → Bool := fun d =>
      match d with
      | .left => v == gap + val i (j - 1)
      | .up => v == gap + val (i - 1) j
      | .diag => v == sub x z + val (i - 1) (j - 1)
    match order.find? flag with
    | some .diag => (nwTraceback sub gap val order xs zs).map (Col.both x z :: ·)
    | some .up => (nwTraceback sub gap val order xs (z :: zs)).map (Col.gap2 x :: ·)
    | some .left => (nwTraceback sub gap val order (x :: xs) zs).map (Col.gap1 z :: ·)
    | none => none
termination_by xs zs => xs.length + zs.length

end

end Dtai
