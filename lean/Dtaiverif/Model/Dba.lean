/-
Model/Dba.lean — one DTW Barycenter Averaging step (dtw_barycenter.dba, dtw_dba_ptrs/_matrix).

For every selected series an optimal warping path between the current average `c` (rows) and the
series (columns) is traced; the points aligned to position `i` are collected and averaged.  The model
returns exact sums and counts (the mean is `sum / count`, one rounding in the implementation).
-/
import Dtaiverif.Model.Path
import Dtaiverif.Model.Settings

namespace Dtai

/-- association table of one path: for position `i` and coordinate `d` the values `seq[j*ndim+d]` of all
`(i, j)` on the path -/
def assocOfPath (ndim : Nat) (seq : Array Int) (path : List Cell) (i d : Nat) : List Int :=
  (path.filter fun p => p.1 == i).map fun p => pt seq ndim p.2 d

/-- `(sum, count)` for position `i`, coordinate `d` over the selected series with their paths -/
def dbaCell (ndim : Nat) (sel : List (Array Int × List Cell)) (i d : Nat) : Int × Nat :=
  let vals := sel.flatMap fun sp => assocOfPath ndim sp.1 sp.2 i d
  (vals.foldl (· + ·) 0, vals.length)

/-- `bit_test(mask, r)` on the packed little-endian mask (`np.packbits(mask, bitorder='little')`) -/
def bitTest (mask : Array Nat) (r : Nat) : Bool := (mask.getD (r / 8) 0 / 2 ^ (r % 8)) % 2 == 1

/-- one DBA step with the deterministic trace-back of `dtw.best_path`; settings without psi -/
def dbaStep (s : RawSettings) (c : Array Int) (series : List (Array Int)) (mask : List Bool) :
    List (List (Int × Nat)) :=
  let t := c.size / s.ndim
  let sel : List (Array Int × List Cell) := (series.zip mask).filterMap fun sm =>
    if sm.2 then
      let len := sm.1.size / s.ndim
      let g := s.toGridPy t len c sm.1
      let rows := (matU g t).map (·.toArray) |>.toArray
      let M : Nat → Nat → Cost := fun I J => (rows.getD I #[]).getD J Cost.inf
      some (sm.1, backtrack M g.pen (t + len + 2) t len)
    else none
  (List.range t).map fun i => (List.range s.ndim).map fun d => dbaCell s.ndim sel i d

end Dtai
