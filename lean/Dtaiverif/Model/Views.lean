/-
Model/Views.lean — how series reach the C kernels: NumPy views (base address, shape, strides) versus
what a kernel reads through a bare pointer (unit stride, row-major), the contiguity flags tested by
`util_numpy.verify_np_array` / `SeriesContainer.c_data_compat`, and the copy they make.
-/
import Dtaiverif.Model.Basic

namespace Dtai

/-- which buffer flag a guard tests: `c_contiguous`, `f_contiguous`, or `contiguous` (either) -/
inductive ContigFlag | c | f | any
  deriving DecidableEq, Repr

structure View1 where
  base : Int
  n : Nat
  stride : Int
  deriving Repr

structure View2 where
  base : Int
  n : Nat      -- points
  d : Nat      -- values per point
  s0 : Int
  s1 : Int
  deriving Repr

/-- a collection of equal-length multivariate series as one 3-D array: `n` series × `len` points × `d` values -/
structure View3 where
  base : Int
  n : Nat
  len : Nat
  d : Nat
  s0 : Int
  s1 : Int
  s2 : Int
  deriving Repr

section
variable {α : Type}

/-- the logical content of the view -/
def View1.get (mem : Int → α) (v : View1) (i : Nat) : α := mem (v.base + i * v.stride)
/-- what a kernel reads from `&s[0]` -/
def View1.kernel (mem : Int → α) (v : View1) (i : Nat) : α := mem (v.base + i)

def View2.get (mem : Int → α) (v : View2) (i k : Nat) : α := mem (v.base + i * v.s0 + k * v.s1)
def View2.kernel (mem : Int → α) (v : View2) (i k : Nat) : α := mem (v.base + (i * v.d + k : Nat))

def View3.get (mem : Int → α) (v : View3) (i j k : Nat) : α := mem (v.base + i * v.s0 + j * v.s1 + k * v.s2)
/-- what the matrix routines read: series `i` starts at `i * len * d`, point `j` at `j * d` -/
def View3.kernel (mem : Int → α) (v : View3) (i j k : Nat) : α := mem (v.base + ((i * v.len + j) * v.d + k : Nat))

def View3.cContig (v : View3) : Bool :=
  (decide (v.d ≤ 1) || decide (v.s2 = 1)) && (decide (v.len ≤ 1) || decide (v.s1 = v.d)) &&
  (decide (v.n ≤ 1) || decide (v.s0 = v.len * v.d))

def View3.copyC (mem : Int → α) (v : View3) : (Int → α) × View3 :=
  (fun a => v.get mem (a.toNat / (v.len * v.d)) (a.toNat % (v.len * v.d) / v.d) (a.toNat % v.d),
   { base := 0, n := v.n, len := v.len, d := v.d, s0 := v.len * v.d, s1 := v.d, s2 := 1 })

def View3.prepare (mem : Int → α) (v : View3) : (Int → α) × View3 :=
  if v.cContig then (mem, v) else v.copyC mem

/-- NumPy's contiguity flags (dimensions of extent ≤ 1 do not constrain the strides) -/
def View1.flag (_ : ContigFlag) (v : View1) : Bool := decide (v.n ≤ 1) || decide (v.stride = 1)

def View2.cContig (v : View2) : Bool :=
  (decide (v.d ≤ 1) || decide (v.s1 = 1)) && (decide (v.n ≤ 1) || decide (v.s0 = v.d))
def View2.fContig (v : View2) : Bool :=
  (decide (v.n ≤ 1) || decide (v.s0 = 1)) && (decide (v.d ≤ 1) || decide (v.s1 = v.n))
def View2.flag (fl : ContigFlag) (v : View2) : Bool :=
  match fl with
  | .c => v.cContig
  | .f => v.fContig
  | .any => v.cContig || v.fContig

/-- `.copy(order='C')` / `np.asarray(x, order="C")`: fresh memory holding the logical content row-major -/
def View1.copyC (mem : Int → α) (v : View1) : (Int → α) × View1 :=
  (fun a => v.get mem a.toNat, { base := 0, n := v.n, stride := 1 })

def View2.copyC (mem : Int → α) (v : View2) : (Int → α) × View2 :=
  (fun a => v.get mem (a.toNat / v.d) (a.toNat % v.d), { base := 0, n := v.n, d := v.d, s0 := v.d, s1 := 1 })

/-- the guard `if not <flag>: copy to C order` -/
def View1.prepare (fl : ContigFlag) (mem : Int → α) (v : View1) : (Int → α) × View1 :=
  if v.flag fl then (mem, v) else v.copyC mem
def View2.prepare (fl : ContigFlag) (mem : Int → α) (v : View2) : (Int → α) × View2 :=
  if v.flag fl then (mem, v) else v.copyC mem

end

end Dtai
