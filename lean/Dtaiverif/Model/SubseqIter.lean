/-
Model/SubseqIter.lean — the k-best iterator of `SubsequenceAlignment._best_matches` as a state machine
over the working copy of the matching function.

A slot of the working copy is either a value, `rejected` (set to `maxv`: tried and discarded) or
`blocked` (set to `inf`: covered by an accepted match).
-/
import Dtaiverif.Model.Basic

namespace Dtai

inductive Slot (α : Type) where
  | val (v : α)
  | rejected
  | blocked
  deriving Repr, DecidableEq

/-- first index of the blocked range of an accepted match `[b, e]`:
`mb = best_idx + 1 - (e - b) + min(overlap, e - b - 1)` (Python ints: `-1` for `e = b`) -/
def mbOf (overlap b e : Nat) : Nat :=
  if e ≤ b then e else b + 1 + min overlap (e - b - 1)

structure Match (α : Type) where
  b : Nat
  e : Nat
  v : α

structure IterState (α : Type) where
  slots : Nat → Slot α
  yielded : List (Match α)      -- most recent first

section
variable {α : Type}

def IterState.accept (st : IterState α) (overlap : Nat) (m : Match α) : IterState α :=
  { slots := fun j => if mbOf overlap m.b m.e ≤ j ∧ j ≤ m.e then Slot.blocked else st.slots j
    yielded := m :: st.yielded }

def IterState.reject (st : IterState α) (e : Nat) : IterState α :=
  { slots := fun j => if j = e then Slot.rejected else st.slots j, yielded := st.yielded }

variable [LE α]

/-- reachable states of the iterator for a matching function of length `n`, a start-point function
`startOf` (from the traced path) and the user options -/
inductive Reach (n overlap minlen : Nat) (maxlen : Option Nat) (startOf : Nat → Nat)
    (init : Nat → Slot α) : IterState α → Prop
  | init : Reach n overlap minlen maxlen startOf init { slots := init, yielded := [] }
  | reject (st : IterState α) (e : Nat) (v : α) :
      Reach n overlap minlen maxlen startOf init st → st.slots e = Slot.val v →
      Reach n overlap minlen maxlen startOf init (st.reject e)
  | accept (st : IterState α) (e : Nat) (v : α) :
      Reach n overlap minlen maxlen startOf init st → e < n → st.slots e = Slot.val v →
      (∀ j w, j < n → st.slots j = Slot.val w → v ≤ w) →           -- `argmin`
      startOf e ≤ e →
      minlen ≤ e - startOf e + 1 → (∀ ml, maxlen = some ml → e - startOf e + 1 ≤ ml) →
      (∀ j, mbOf overlap (startOf e) e ≤ j → j ≤ e → st.slots j ≠ Slot.blocked) →
      Reach n overlap minlen maxlen startOf init (st.accept overlap ⟨startOf e, e, v⟩)

end

/-! ### executable version on the exact cost domain (used by the driver) -/

def firstMin (vals : List (Slot Cost)) : Option (Nat × Cost) :=
  let rec go (l : List (Slot Cost)) (i : Nat) (best : Option (Nat × Cost)) : Option (Nat × Cost) :=
    match l with
    | [] => best
    | Slot.val v :: rest =>
      (match best with
       | none => go rest (i+1) (some (i, v))
       | some (bi, bv) => if bv ≤ v then go rest (i+1) (some (bi, bv)) else go rest (i+1) (some (i, v)))
    | _ :: rest => go rest (i+1) best
  go vals 0 none

/-- `while k is None or ki < k` has ended -/
def kReached (k : Option Nat) (ki : Nat) : Bool :=
  match k with
  | some kk => decide (kk ≤ ki)
  | none => false

/-- the positions `mb … e` blocked by an accepted match `[b, e]` -/
def blockRange (overlap b e : Nat) : List Nat :=
  (List.range (e + 1 - mbOf overlap b e)).map (· + mbOf overlap b e)

/-- the candidate ending in `e` is discarded: too short, too long, or its range touches a blocked slot -/
def candRejected (slots : List (Slot Cost)) (overlap : Nat) (minlen maxlen : Option Nat) (b e : Nat) : Bool :=
  (match minlen with | some m => decide (e - b + 1 < m) | none => false) ||
  (match maxlen with | some m => decide (m < e - b + 1) | none => false) ||
  (blockRange overlap b e).any (fun j => slots.getD j Slot.rejected == Slot.blocked)

def blockSlots (slots : List (Slot Cost)) (overlap b e : Nat) : List (Slot Cost) :=
  (blockRange overlap b e).foldl (fun s j => s.set j Slot.blocked) slots

/-- `_best_matches(k, overlap, minlength, maxlength)`; returns the yielded `(b, e)` in order -/
def kbestRun (starts : List Nat) (lq overlap : Nat) (minlen : Option Nat) (maxlen : Option Nat) (k : Option Nat) :
    Nat → List (Slot Cost) → Nat → List (Nat × Nat)
  | 0, _, _ => []
  | fuel+1, slots, ki =>
    if kReached k ki then [] else
    match firstMin slots with
    | none => []
    | some (e, _) =>
      if candRejected slots overlap minlen maxlen (starts.getD e 0) e then
        kbestRun starts lq overlap minlen maxlen k fuel (slots.set e Slot.rejected) ki
      else
        (starts.getD e 0, e) :: kbestRun starts lq overlap minlen maxlen k fuel (blockSlots slots overlap (starts.getD e 0) e) (ki + 1)

/-- the same loop with an additional stopping rule, as used by `best_matches` (stop when a candidate value
exceeds `max_rangefactor` times the first one) and `best_matches_knee` (stop when the knee detector fires):
`stop hist ki v` is asked for every candidate value `v`, in the order of the code (after the "no more
candidates" test, before the candidate is examined); `hist` holds the earlier candidates as `(ki, value)`,
most recent first, which is all the state those rules keep -/
def kbestRunStop (stop : List (Nat × Cost) → Nat → Cost → Bool) (starts : List Nat) (lq overlap : Nat)
    (minlen : Option Nat) (maxlen : Option Nat) (k : Option Nat) :
    Nat → List (Slot Cost) → Nat → List (Nat × Cost) → List (Nat × Nat)
  | 0, _, _, _ => []
  | fuel+1, slots, ki, hist =>
    if kReached k ki then [] else
    match firstMin slots with
    | none => []
    | some (e, v) =>
      if stop hist ki v then [] else
      if candRejected slots overlap minlen maxlen (starts.getD e 0) e then
        kbestRunStop stop starts lq overlap minlen maxlen k fuel (slots.set e Slot.rejected) ki ((ki, v) :: hist)
      else
        (starts.getD e 0, e) :: kbestRunStop stop starts lq overlap minlen maxlen k fuel
          (blockSlots slots overlap (starts.getD e 0) e) (ki + 1) ((ki, v) :: hist)

/-- the stopping rule of `best_matches(max_rangefactor)`, on internal (squared) values: with the factor's square
given as `num/den`, stop at a candidate whose value exceeds `num/den` times the value of the most recent candidate
that was examined while nothing had been yielded yet (`if ki == 0: max_dist = v * factor elif v > max_dist: break`) -/
def rangeStop (num den : Nat) (hist : List (Nat × Cost)) (ki : Nat) (v : Cost) : Bool :=
  if ki = 0 then false else
  match hist.find? (fun p => p.1 == 0) with
  | some (_, Cost.fin f) => (match v with | Cost.fin x => decide (f * num < x * den) | Cost.inf => true)
  | _ => false

/-- initial working copy: `matching[:min(len(query) - 1, overlap)] = maxv` -/
def kbestInit (vals : List Cost) (lq overlap : Nat) : List (Slot Cost) :=
  vals.zipIdx.map fun (v, i) =>
    if i < min (lq - 1) overlap then Slot.rejected
    else match v with | Cost.inf => Slot.blocked | c => Slot.val c

end Dtai
