/-
Model/Inner.lean — point distances (innerdistance.py / SEDIST, fabs in dd_dtw.c) on exact integer
data, and the flattened row-major addressing `s[i*ndim + d]` of multivariate series.
-/
import Dtaiverif.Model.Basic

namespace Dtai

/-- `s[i*ndim + d]` with 0 outside (never read outside by the callers; lengths are checked there) -/
def pt (s : Array Int) (ndim i d : Nat) : Int := s.getD (i * ndim + d) 0

/-- squared Euclidean distance between point `i` of `s1` and point `j` of `s2` -/
def sqDist (ndim : Nat) (s1 s2 : Array Int) (i j : Nat) : Nat :=
  (List.range ndim).foldl (fun acc d => acc + (pt s1 ndim i d - pt s2 ndim j d).natAbs ^ 2) 0

/-- `|x - y|` (univariate Euclidean inner distance) -/
def absDist (s1 s2 : Array Int) (i j : Nat) : Nat := (pt s1 1 i 0 - pt s2 1 j 0).natAbs

end Dtai
