/-
Props/C17.lean — C17: Needleman–Wunsch returns the optimal score and a consistent alignment.

Model: `Model/NW.lean` (score matrix of `dp.dp` with the Needleman–Wunsch border, direction flags,
`best_alignment`).  Scores live in any linearly ordered additive commutative monoid and are in the MIN
orientation of the code (`needleman_wunsch` negates value and matrix on return; a maximal similarity is
a minimal cost).  `sub` is any substitution function (default, dictionary based, either orientation —
they only differ in the numbers), `gap` any gap cost, `order` any preference order of the traceback that
lists the three directions.
-/
import Dtaiverif.Props.PyBand
import Dtaiverif.Proofs.NW

namespace Dtai
variable {σ α : Type} [AddCommMonoid α] [LinearOrder α] [IsOrderedAddMonoid α]

/-! gapped sequences of an alignment -/

def gapped1 : List (Col σ) → List (Option σ)
  | [] => []
  | .both x _ :: rest => some x :: gapped1 rest
  | .gap2 x :: rest => some x :: gapped1 rest
  | .gap1 _ :: rest => none :: gapped1 rest

def gapped2 : List (Col σ) → List (Option σ)
  | [] => []
  | .both _ y :: rest => some y :: gapped2 rest
  | .gap2 _ :: rest => none :: gapped2 rest
  | .gap1 y :: rest => some y :: gapped2 rest

/-- **Consistent alignment**: the two gapped sequences have equal length, reduce to the two sequences
when the gaps are removed, and no position holds a gap in both. -/
theorem C17_gapped (cols : List (Col σ)) :
    (gapped1 cols).length = (gapped2 cols).length ∧
    (gapped1 cols).filterMap id = colsFst cols ∧ (gapped2 cols).filterMap id = colsSnd cols ∧
    ∀ k : Nat, ¬ ((gapped1 cols)[k]? = some none ∧ (gapped2 cols)[k]? = some none) := by
  induction cols with
  | nil => simp [gapped1, gapped2, colsFst, colsSnd]
  | cons c rest ih =>
    obtain ⟨h1, h2, h3, h4⟩ := ih
    cases c with
    | both x y =>
      refine ⟨by simp [gapped1, gapped2, h1], by simpa [gapped1, colsFst] using h2, by simpa [gapped2, colsSnd] using h3, ?_⟩
      intro k
      cases k with
      | zero => simp [gapped1]
      | succ k => simpa [gapped1, gapped2] using h4 k
    | gap2 x =>
      refine ⟨by simp [gapped1, gapped2, h1], by simpa [gapped1, colsFst] using h2, by simpa [gapped2, colsSnd] using h3, ?_⟩
      intro k
      cases k with
      | zero => simp [gapped1]
      | succ k => simpa [gapped1, gapped2] using h4 k
    | gap1 y =>
      refine ⟨by simp [gapped1, gapped2, h1], by simpa [gapped1, colsFst] using h2, by simpa [gapped2, colsSnd] using h3, ?_⟩
      intro k
      cases k with
      | zero => simp [gapped2]
      | succ k => simpa [gapped1, gapped2] using h4 k

theorem colsScore_append (sub : σ → σ → α) (gap : α) (a b : List (Col σ)) :
    colsScore sub gap (a ++ b) = colsScore sub gap a + colsScore sub gap b := by
  induction a with
  | nil => simp [colsScore]
  | cons c rest ih => cases c <;> simp [colsScore, ih, add_assoc]

theorem colsScore_reverse (sub : σ → σ → α) (gap : α) (cols : List (Col σ)) :
    colsScore sub gap cols.reverse = colsScore sub gap cols := by
  induction cols with
  | nil => rfl
  | cons c rest ih =>
    rw [List.reverse_cons, colsScore_append, ih]
    cases c <;> simp [colsScore, add_comm]

theorem colsFst_append (a b : List (Col σ)) : colsFst (a ++ b) = colsFst a ++ colsFst b := by
  induction a with
  | nil => rfl
  | cons c rest ih => cases c <;> simp [colsFst, ih]

theorem colsSnd_append (a b : List (Col σ)) : colsSnd (a ++ b) = colsSnd a ++ colsSnd b := by
  induction a with
  | nil => rfl
  | cons c rest ih => cases c <;> simp [colsSnd, ih]

theorem colsFst_reverse (cols : List (Col σ)) : colsFst cols.reverse = (colsFst cols).reverse := by
  induction cols with
  | nil => rfl
  | cons c rest ih => rw [List.reverse_cons, colsFst_append, ih]; cases c <;> simp [colsFst]

theorem colsSnd_reverse (cols : List (Col σ)) : colsSnd cols.reverse = (colsSnd cols).reverse := by
  induction cols with
  | nil => rfl
  | cons c rest ih => rw [List.reverse_cons, colsSnd_append, ih]; cases c <;> simp [colsSnd]

/-- the value `dp` leaves in the last cell -/
def nwValue (sub : σ → σ → α) (gap : α) (s1 s2 : List σ) : α := nwSpec sub gap s1.reverse s2.reverse

/-- the last cell of the executable matrix is that value, and so is every other cell for its prefixes -/
theorem C17_matrix (sub : σ → σ → α) (gap : α) (s1 s2 : List σ) (i j : Nat) (hi : i ≤ s1.length)
    (hj : j ≤ s2.length) :
    ((nwMatrix sub gap s1 s2)[i]?.bind fun row => row[j]?) = some (nwValue sub gap (s1.take i) (s2.take j)) :=
  nwMatrix_get sub gap s1 s2 i j hi hj

/-- **Optimal score**: every global alignment of `s1` and `s2` costs at least the returned value
(i.e. scores at most the returned similarity) … -/
theorem C17_optimal (sub : σ → σ → α) (gap : α) (s1 s2 : List σ) (cols : List (Col σ))
    (h1 : colsFst cols = s1) (h2 : colsSnd cols = s2) : nwValue sub gap s1 s2 ≤ colsScore sub gap cols := by
  have := nwSpec_le_score sub gap cols.reverse
  rw [colsFst_reverse, colsSnd_reverse, h1, h2, colsScore_reverse] at this
  exact this

theorem suffix_reverse_eq (l xs : List σ) (h : xs <:+ l.reverse) : xs = (l.take xs.length).reverse := by
  have hp : xs.reverse <+: l := by
    have := List.reverse_prefix.mpr h
    simpa using this
  have := List.prefix_iff_eq_take.mp hp
  rw [List.length_reverse] at this
  rw [← this, List.reverse_reverse]

variable [DecidableEq α]

/-- … **and the alignment reconstructed from the matrix attains it**: for the executable matrix and any
preference order covering the three directions, `best_alignment` succeeds; its columns (reversed into
reading order, as the Python code does) are an alignment of `s1` and `s2` whose score is exactly the
returned value. With `C17_gapped` this is the full consistency clause. -/
theorem C17_traceback (sub : σ → σ → α) (gap : α) (s1 s2 : List σ) (order : List Dir) (hord : ∀ d : Dir, d ∈ order) :
    let val : Nat → Nat → α := fun i j => (((nwMatrix sub gap s1 s2)[i]?.bind fun row => row[j]?).getD 0)
    ∃ cols, nwTraceback sub gap val order s1.reverse s2.reverse = some cols ∧
      colsFst cols.reverse = s1 ∧ colsSnd cols.reverse = s2 ∧
      colsScore sub gap cols.reverse = nwValue sub gap s1 s2 := by
  intro val
  have hval : ∀ xs' zs', xs' <:+ s1.reverse → zs' <:+ s2.reverse →
      val xs'.length zs'.length = nwSpec sub gap xs' zs' := by
    intro xs' zs' hx hz
    have hxl : xs'.length ≤ s1.length := by simpa using hx.length_le
    have hzl : zs'.length ≤ s2.length := by simpa using hz.length_le
    simp only [val, nwMatrix_get sub gap s1 s2 _ _ hxl hzl, Option.getD_some]
    rw [← suffix_reverse_eq s1 xs' hx, ← suffix_reverse_eq s2 zs' hz]
  obtain ⟨cols, h1, h2, h3, h4⟩ := nwTraceback_spec sub gap val order hord s1.reverse s2.reverse hval
  exact ⟨cols, h1, by rw [colsFst_reverse, h2, List.reverse_reverse],
    by rw [colsSnd_reverse, h3, List.reverse_reverse], by rw [colsScore_reverse, h4]; rfl⟩

/-- **Transposition**: swapping the two sequences and transposing the substitution function leaves
every cell of the recurrence unchanged (the gap cost is the same for both sequences in `dp.dp`). -/
theorem nwSpec_transpose (sub : σ → σ → α) (gap : α) (xs zs : List σ) :
    nwSpec (fun a b => sub b a) gap zs xs = nwSpec sub gap xs zs := by
  induction xs generalizing zs with
  | nil => rw [nwSpec_nil_left, nwSpec_nil_right]
  | cons x xs ihx =>
    induction zs with
    | nil => rw [nwSpec_nil_left, nwSpec_nil_right]
    | cons z zs ihz =>
      rw [nwSpec_cons, nwSpec_cons, ihz, ihx (z :: zs), ihx zs]
      congr 1
      exact min_comm _ _

/-- … so the value returned for `(s2, s1)` under the transposed scoring is the value for `(s1, s2)`,
and for a symmetric scoring (the default one, a symmetric dictionary) the value is symmetric. -/
theorem C17_transpose (sub : σ → σ → α) (gap : α) (s1 s2 : List σ) :
    nwValue (fun a b => sub b a) gap s2 s1 = nwValue sub gap s1 s2 :=
  nwSpec_transpose sub gap s1.reverse s2.reverse

theorem C17_symmetric (sub : σ → σ → α) (gap : α) (hsym : ∀ a b, sub a b = sub b a) (s1 s2 : List σ) :
    nwValue sub gap s2 s1 = nwValue sub gap s1 s2 := by
  have h : (fun a b => sub b a) = sub := by funext a b; exact (hsym a b).symm
  simpa [h] using C17_transpose sub gap s1 s2

theorem borderVal_add (gap : α) (m n : Nat) : borderVal gap (m + n) = borderVal gap m + borderVal gap n := by
  induction m with
  | zero => simp [borderVal]
  | succ m ih => rw [Nat.succ_add, borderVal, borderVal, ih, add_assoc]

/-- the cost never exceeds that of the all-gaps alignment (delete all of `s1`, insert all of `s2`) -/
theorem nwSpec_le_all_gaps (sub : σ → σ → α) (gap : α) (xs zs : List σ) :
    nwSpec sub gap xs zs ≤ borderVal gap (xs.length + zs.length) := by
  induction xs with
  | nil => rw [nwSpec_nil_left]; simp
  | cons x xs ih =>
    cases zs with
    | nil => rw [nwSpec_nil_right]; simp
    | cons z zs =>
      rw [nwSpec_cons]
      refine le_trans (min_le_left _ _) (le_trans (min_le_right _ _) ?_)
      have : (x :: xs).length + (z :: zs).length = (xs.length + (z :: zs).length) + 1 := by simp; omega
      rw [this, borderVal]
      exact add_le_add le_rfl ih

/-- **Bound**: the returned score is at least the score of the alignment made of gaps only,
`-(len s1 + len s2) * gap` in the orientation of the caller. -/
theorem C17_all_gaps_bound (sub : σ → σ → α) (gap : α) (s1 s2 : List σ) :
    nwValue sub gap s1 s2 ≤ borderVal gap (s1.length + s2.length) := by
  simpa [nwValue] using nwSpec_le_all_gaps sub gap s1.reverse s2.reverse

/-- non-vacuity on the docstring example: GATTACA / GCATGCU with the default scoring has cost 0 -/
example :
    let sub : Char → Char → Int := fun a b => if a = b then -1 else 1
    ((nwMatrix sub 1 "GATTACA".toList "GCATGCU".toList)[7]?.bind fun row => row[7]?) = some 0 := by
  decide +kernel

end Dtai
