/-
Props/C01.lean — C01: the pure-Python DTW distance equals the optimum over admissible warping paths.
Property theorems only; helper lemmas live in Proofs/.
Model: `distModel` (Model/Dtw.lean) = kernel of `dtw.distance` incl. band, psi borders, max_step,
penalty, early-abandoning bookkeeping and end-point selection; value in internal representation
(the harness applies the monotone result transform, e.g. sqrt).
-/
import Dtaiverif.Proofs.Dist
import Dtaiverif.Proofs.CostInst
import Dtaiverif.Props.PyBand

namespace Dtai
variable {α : Type} [LinearOrderedAddCommMonoidWithTop α]

/-- With `max_dist` off, `dtw.distance` returns `⊤` when the length difference exceeds
`max_length_diff` and otherwise `dtwSpec`, for every size, window, psi, penalty, max_step, cost. -/
theorem C01_distance_eq_spec (g : Grid α) (h : g.NonNeg) (mld : Option Nat) (chk : Bool) :
    distModel g ⊤ mld chk = distSpec g mld :=
  distModel_eq_spec g h mld chk

/-- `dtwSpec` is a lower bound of the cost of every admissible complete warping path … -/
theorem C01_spec_le_every_path (g : Grid α) (h : g.NonNeg) (path : List Cell) (q : Cell)
    (hv : g.ValidRev (q :: path)) (he : g.EndOk q) : dtwSpec g ≤ g.costRev (q :: path) :=
  dtwSpec_le_path g h path q hv he

/-- … and it is attained by one (or is `⊤`), for non-degenerate psi: it is the minimum. -/
theorem C01_spec_attained (g : Grid α) (h : g.NonNeg) (hn : g.NonDegenerate) :
    dtwSpec g = ⊤ ∨ ∃ (q : Cell) (path : List Cell), g.ValidRev (q :: path) ∧ g.EndOk q ∧
      g.costRev (q :: path) = dtwSpec g :=
  dtwSpec_attained g h hn

/-- The distance is infinite exactly when every admissible complete path has infinite cost
(in particular when there is none). -/
theorem C01_infinite_iff (g : Grid α) (h : g.NonNeg) (hn : g.NonDegenerate) :
    dtwSpec g = ⊤ ↔ ∀ (q : Cell) (path : List Cell), g.ValidRev (q :: path) → g.EndOk q →
      g.costRev (q :: path) = ⊤ := by
  constructor
  · intro ht q path hv he
    exact top_le_iff.mp (ht ▸ dtwSpec_le_path g h path q hv he)
  · intro hall
    rcases dtwSpec_attained g h hn with ht | ⟨q, path, hv, he, hc⟩
    · exact ht
    · rw [← hc]; exact hall q path hv he

/-- cell-level statement used by C04/C13: every cell of the recurrence is the optimum over partial
paths ending there -/
theorem C01_cell_lower_bound (g : Grid α) (h : g.NonNeg) (path : List Cell) (q : Cell)
    (hv : g.ValidRev (q :: path)) : D g (q.1+1) (q.2+1) ≤ g.costRev (q :: path) :=
  D_le_costRev g h path q hv

theorem C01_cell_attained (g : Grid α) (h : g.NonNeg) (I J : Nat) : Att g I J :=
  D_attained g h (I+J) I J rfl

/-- The theorems apply verbatim to the executable domain the driver runs (`Cost` = ℕ ∪ {∞}). -/
theorem C01_at_driver_domain (g : Grid Cost) (h : g.NonNeg) (mld : Option Nat) :
    distModel g Cost.inf mld true = distSpec g mld :=
  distModel_eq_spec g h mld true

/- non-vacuity: a concrete grid meets the hypotheses and has a finite optimum -/
def exGrid : Grid Cost :=
  { r := 3, c := 2, window := 2, pen := 1, maxStep := .inf, psi1b := 0, psi1e := 1, psi2b := 0, psi2e := 0,
    cost := fun i j => .fin ((i + 2 * j) % 3) }

example : exGrid.NonDegenerate := ⟨by decide, by decide, by decide, by decide⟩
example : exGrid.NonNeg := ⟨fun _ _ => by simp [exGrid, Cost.le_def, Cost.le], by decide⟩
example : dtwSpec exGrid = .fin 0 := by decide +kernel
example : dtwSpec { exGrid with psi1e := 0 } = .fin 2 := by decide +kernel

end Dtai
