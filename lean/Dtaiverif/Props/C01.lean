import Dtaiverif.Proofs.GridDP
namespace Dtai
variable {α : Type} [LinearOrderedAddCommMonoidWithTop α]

theorem C01_cell_lower_bound (g : Grid α) (h : g.NonNeg) (path : List Cell) (q : Cell)
    (hv : g.ValidRev (q :: path)) : D g (q.1+1) (q.2+1) ≤ g.costRev (q :: path) :=
  D_le_costRev g h path q hv

theorem C01_cell_attained (g : Grid α) (h : g.NonNeg) (I J : Nat) : Att g I J :=
  D_attained g h (I+J) I J rfl
end Dtai
