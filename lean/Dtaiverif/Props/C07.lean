/-
Props/C07.lean — C07: the parallel distance matrix is schedule-independent.

Two parts:
 (1) theorems about the *model* of the plan (`preparePlan`, `rowWrites`): distinct iterations write
     disjoint, consecutive slot ranges, slot `k` receives the `k`-th pair of the serial enumeration,
     and any order of writes to pairwise distinct slots gives the same output array — thread count,
     chunking and schedule kind do not occur in the statement;
 (2) obligations about the plan *re-extracted from dd_dtw_openmp.c on every run*
     (`Generated/OmpPlan.lean`, written by translate/omp_plan.py): every variable assigned in a
     parallel loop body is private or block-local, and the loop header / index expressions are the
     ones the model uses.
-/
import Dtaiverif.Proofs.Matrix
import Dtaiverif.Generated.OmpPlan

namespace Dtai

/-! ### (1) model -/

/-- all writes of a parallel loop over the given rows: `(slot, (row, column))` -/
def allWrites (n : Nat) (b : Block) (rows : List Nat) : List (Nat × (Nat × Nat)) :=
  (planFrom n b 0 rows).flatMap (rowWrites n b)

/-- slots are `0, 1, 2, …` in the order of the serial enumeration: disjoint and covering -/
theorem C07_slots (n : Nat) (b : Block) (rows : List Nat) :
    (allWrites n b rows).map Prod.fst = List.range' 0 (allWrites n b rows).length :=
  (plan_writes n b rows 0).2

theorem C07_slots_disjoint (n : Nat) (b : Block) (rows : List Nat) :
    ((allWrites n b rows).map Prod.fst).Nodup := by
  rw [C07_slots]; exact List.nodup_range'

/-- the pairs written are the pairs of the serial double loop, in the same order -/
theorem C07_pairs (n : Nat) (b : Block) :
    (allWrites n b (List.range' b.rb ((if b.re = 0 then n else b.re) - b.rb))).map Prod.snd = pairsC n b := by
  rw [allWrites, (plan_writes n b _ 0).1]; rfl

/-- the plan computed by `dtw_distances_prepare` is the recursive plan used above -/
theorem C07_prepare (n : Nat) (b : Block) :
    preparePlan n b = planFrom n b 0 (List.range' b.rb ((if b.re = 0 then n else b.re) - b.rb)) :=
  preparePlan_eq n b

/-- **Schedule independence.** Whatever the number of threads, the assignment of iterations to
threads and the interleaving of their writes (any permutation `σ` of the write events), the output
array equals the one produced by the serial order; the value written depends only on the pair. -/
theorem C07_any_schedule {β : Type} (n : Nat) (b : Block) (rows : List Nat) (dist : Nat × Nat → β)
    (σ : List (Nat × β)) (out : Nat → Option β)
    (hσ : ((allWrites n b rows).map fun w => (w.1, dist w.2)).Perm σ) :
    applyWrites σ out = applyWrites ((allWrites n b rows).map fun w => (w.1, dist w.2)) out := by
  symm
  apply applyWrites_perm _ _ hσ
  have : (((allWrites n b rows).map fun w => (w.1, dist w.2)).map Prod.fst) = (allWrites n b rows).map Prod.fst := by
    simp [List.map_map, Function.comp_def]
  rw [this]; exact C07_slots_disjoint n b rows

/-- and that array holds, in slot `k`, the distance of the `k`-th selected pair -/
theorem C07_slot_value {β : Type} (n : Nat) (b : Block) (rows : List Nat) (dist : Nat × Nat → β)
    (out : Nat → Option β) (w : Nat × (Nat × Nat)) (hw : w ∈ allWrites n b rows) :
    applyWrites ((allWrites n b rows).map fun w => (w.1, dist w.2)) out w.1 = some (dist w.2) := by
  have hnd : (((allWrites n b rows).map fun w => (w.1, dist w.2)).map Prod.fst).Nodup := by
    have : (((allWrites n b rows).map fun w => (w.1, dist w.2)).map Prod.fst) = (allWrites n b rows).map Prod.fst := by
      simp [List.map_map, Function.comp_def]
    rw [this]; exact C07_slots_disjoint n b rows
  exact applyWrites_get _ hnd out (w.1, dist w.2) (List.mem_map.mpr ⟨w, hw, rfl⟩)

/-! ### (2) obligations on the plan extracted from the C source -/

open Generated

/-- every variable assigned in a parallel loop body is listed in `private(...)` or declared inside
the body (so no iteration can observe another iteration's value) -/
def privatised (l : OmpLoop) : Bool :=
  l.assigned.all fun v => l.privateVars.contains v || l.localVars.contains v

theorem C07_privatisation : ompLoops.all privatised = true := by decide

/-- loop header, start column, slot expressions and the only shared write are the ones modelled by
`preparePlan` / `rowWrites` (`rls[r_i] + c_i`, resp. `(ce - cb) * r_i + c_i`) -/
def planShape (l : OmpLoop) : Bool :=
  l.loopVar == "r_i" && l.lo == "0" && l.hi == "(block->re - block->rb)" &&
  l.innerVar == "c" && l.innerHi == "block->ce" &&
  l.assigns == [("r", "block->rb + r_i"), ("c_i", "0"), ("c", "cbs[r_i]"), ("c", "block->cb"), ("c", "c++"),
                ("c_i", "c_i++")] &&
  l.writes == [{ array := "output", index := "rls[r_i] + c_i", guard := "block->triu", value := "value" },
               { array := "output", index := "(block->ce - block->cb) * r_i + c_i", guard := "!(block->triu)",
                 value := "value" }] &&
  l.calls.length == 1

theorem C07_plan_shape : ompLoops.all planShape = true := by decide

theorem C07_six_loops : ompLoops.length = 6 := by decide

/-- the row loop of `dtw_distances_prepare` is the one transcribed in `preparePlan` -/
theorem C07_prepare_shape : prepareRowLoop =
    ["if (r + 1 > block->cb)", "cb = r+1", "else", "cb = block->cb", "(*cbs)[ir] = cb", "(*rls)[ir] = rs",
     "rs += block->ce - cb", "ir += 1"] := by decide

/- non-vacuity of the model part -/
example : allWrites 4 ⟨0, 3, 1, 4, true⟩ [0, 1, 2] =
    [(0, (0,1)), (1, (0,2)), (2, (0,3)), (3, (1,2)), (4, (1,3)), (5, (2,3))] := by decide

end Dtai
