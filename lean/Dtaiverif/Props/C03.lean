/-
Props/C03.lean — C03: early abandoning (max_dist, use_pruning) never changes a result.
`m` is the threshold in internal representation (`adj_max_dist`); `dtwSpec g` the unbounded optimum.
The same kernel model serves `distance`, `warping_paths` (Python) and the C kernels.
-/
import Dtaiverif.Proofs.Dist
import Dtaiverif.Proofs.CostInst
import Dtaiverif.Props.PyBand

namespace Dtai
variable {α : Type} [LinearOrderedAddCommMonoidWithTop α]

/-- below (or at) the threshold: exactly the unbounded distance -/
theorem C03_below (g : Grid α) (h : g.NonNeg) (m : α) (chk : Bool) (hle : dtwSpec g ≤ m) :
    distModel g m none chk = dtwSpec g :=
  distModel_eq_of_le g h m chk hle

/-- above the threshold: infinity -/
theorem C03_above (g : Grid α) (h : g.NonNeg) (m : α) (hm : ¬ m ≤ 0) (hgt : ¬ dtwSpec g ≤ m) :
    distModel g m none true = ⊤ :=
  distModel_top_of_gt g h m hm hgt

/-- never a different finite number -/
theorem C03_never_other (g : Grid α) (h : g.NonNeg) (m : α) (hm : ¬ m ≤ 0) :
    distModel g m none true = dtwSpec g ∨ distModel g m none true = ⊤ := by
  by_cases hle : dtwSpec g ≤ m
  · exact Or.inl (C03_below g h m true hle)
  · exact Or.inr (C03_above g h m hm hle)

/-- accumulated-cost matrix routines: every cell over-estimates the optimum of its partial paths and
is exact whenever that optimum is `≤ m` (cells above the bound may hold anything above it or `⊤`) -/
theorem C03_cells (g : Grid α) (h : g.NonNeg) (m : α) (n I J : Nat) (hI : I ≤ n) (hJ : J ≤ g.c) :
    D g I J ≤ cellOf (matP g m n) I J ∧ (D g I J ≤ m → cellOf (matP g m n) I J = D g I J) :=
  ⟨(matP_rel g h m n I J hI hJ).le, (matP_rel g h m n I J hI hJ).eq⟩

/-- `use_pruning` (threshold = any valid upper bound `ub ≥ dtwSpec`, e.g. the Euclidean distance, see
C09) yields exactly the result obtained with pruning disabled — *including* the equality case
`dtwSpec = ub` (the comparison in the kernel is strict). Holds with or without the final check. -/
theorem C03_pruning_exact (g : Grid α) (h : g.NonNeg) (ub : α) (chk chk' : Bool) (hub : dtwSpec g ≤ ub) :
    distModel g ub none chk = distModel g ⊤ none chk' := by
  rw [distModel_eq_of_le g h ub chk hub, distModel_eq_of_le g h ⊤ chk' le_top]

/-- `max_dist` **and** `use_pruning` together: whenever the kernel's threshold `mK` is a valid upper
bound (the Euclidean distance, C09) the user's threshold `mF` still decides — the result is the
unbounded distance when that is `≤ mF` and infinity otherwise. Covers the C engine (`mK = ub`,
`mF = max_dist`) and the Python engine (`mK = mF = min(max_dist, ub)`, see `C03_both_python`). -/
theorem C03_both (g : Grid α) (h : g.NonNeg) (mK mF : α) (hub : dtwSpec g ≤ mK) (hm : ¬ mF ≤ 0) :
    distModelBoth g mK mF none = if dtwSpec g ≤ mF then dtwSpec g else ⊤ := by
  have hk : endMin g (matP g mK g.r) = dtwSpec g := by
    have := distModel_eq_of_le g h mK false hub
    simpa [distModel] using this
  simp only [distModelBoth, hk, finalCheck]
  by_cases hle : dtwSpec g ≤ mF
  · simp [hle]
  · simp [hle, hm, top]

theorem C03_both_python (g : Grid α) (h : g.NonNeg) (ub mF : α) (hub : dtwSpec g ≤ ub) (hm : ¬ mF ≤ 0)
    (hub0 : ¬ ub ≤ 0) :
    distModel g (min mF ub) none true = if dtwSpec g ≤ mF then dtwSpec g else ⊤ := by
  by_cases hle : dtwSpec g ≤ mF
  · rw [if_pos hle]; exact C03_below g h _ true (le_min hle hub)
  · rw [if_neg hle]
    exact C03_above g h _ (fun h0 => by rcases min_le_iff.mp h0 with h1 | h1 <;> contradiction)
      (fun h0 => hle (h0.trans (min_le_left _ _)))

theorem C03_at_driver_domain (g : Grid Cost) (h : g.NonNeg) (m : Nat) (hm : 0 < m) :
    distModel g (.fin m) none true = dtwSpec g ∨ distModel g (.fin m) none true = Cost.inf :=
  C03_never_other g h (.fin m) (by simp [Cost.le_def, Cost.le]; omega)

/- non-vacuity: thresholds on both sides of a concrete optimum -/
def exGrid3 : Grid Cost :=
  { r := 3, c := 3, window := 3, pen := 0, maxStep := .inf, psi1b := 0, psi1e := 0, psi2b := 0, psi2e := 0,
    cost := fun i j => .fin ((i + 2 * j) % 3 + 1) }
example : dtwSpec exGrid3 = .fin 3 := by decide +kernel
example : distModel exGrid3 (.fin 3) none true = .fin 3 := by decide +kernel
example : distModel exGrid3 (.fin 2) none true = .inf := by decide +kernel

end Dtai
