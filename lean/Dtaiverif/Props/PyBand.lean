/-
Props/PyBand.lean — the integer arithmetic of the pure-Python kernels, as re-translated from /repo's
`dtw.py` on every run (`Generated/PyBand.lean`, by `translate/py_band.py`), against the model.

* the band limits of `distance`, `warping_paths` and `warping_paths_affinity` are the band of the model
  (`Grid.jStart/jEnd`, `AffGrid.jStart/jEnd`) — C01, C03, C04, C18 all reason about that band;
* the pruning adjustment `if sc > j_start: j_start = sc` is `max`;
* every subscript applied to the two-row rolling buffer of `distance` addresses the row it is meant to
  address (`i0`/`i1` times `length` plus an offset in `[0, length)`), for every pair of lengths, every
  window ≥ 1 and every row/column inside the band.  A negative subscript would not raise in Python (it
  wraps around), so this is a property no run of the code would reveal by an exception.

The theorems are about the *translated* functions: when the expressions in the source change, the
functions change with them and the proofs are re-checked against what the code says now.
-/
import Dtaiverif.Generated.PyBand
import Dtaiverif.Model.Dtw
import Dtaiverif.Model.Affinity

namespace Dtai
open Gen.PyBand

section band
variable {α : Type} [Add α] [Min α] [LE α] [DecidableLE α] [Zero α] [HasTop α]

/-- `dtw.distance`: `j_start`, `j_end` of row `i` are the model's band -/
theorem PyBand_distance (g : Grid α) (i : Nat) (e : Env) (hi : e.i = i) (hr : e.r = g.r) (hc : e.c = g.c)
    (hw : e.window = g.window) :
    distance_j_start_0 e = (g.jStart i : Int) ∧ distance_j_end_0 e = (g.jEnd i : Int) := by
  simp only [distance_j_start_0, distance_j_end_0, Grid.jStart, Grid.jEnd, hi, hr, hc, hw]
  constructor <;> omega

/-- `dtw.warping_paths`: the same band -/
theorem PyBand_warping_paths (g : Grid α) (i : Nat) (e : Env) (hi : e.i = i) (hr : e.r = g.r) (hc : e.c = g.c)
    (hw : e.window = g.window) :
    warping_paths_j_start_0 e = (g.jStart i : Int) ∧ warping_paths_j_end_0 e = (g.jEnd i : Int) := by
  simp only [warping_paths_j_start_0, warping_paths_j_end_0, Grid.jStart, Grid.jEnd, hi, hr, hc, hw]
  constructor <;> omega

end band

/-- the pruning adjustment of the first column is a maximum (`let js := max (g.jStart i) sc` in the model) -/
theorem PyBand_pruned_start (e : Env) :
    (if distance_j_start_1_cond e then distance_j_start_1 e else e.j_start) = max e.j_start e.sc ∧
    (if warping_paths_j_start_1_cond e then warping_paths_j_start_1 e else e.j_start) = max e.j_start e.sc := by
  simp only [distance_j_start_1_cond, distance_j_start_1, warping_paths_j_start_1_cond, warping_paths_j_start_1,
    decide_eq_true_eq]
  constructor <;> split <;> omega

section aff
variable {β : Type} [Add β] [Sub β] [Mul β] [Max β] [LT β] [DecidableLT β] [Zero β]

/-- `dtw.warping_paths_affinity`: band with the `only_triu` adjustment = the affinity model's band -/
theorem PyBand_affinity (g : AffGrid β) (i : Nat) (e : Env) (hi : e.i = i) (hr : e.r = g.r) (hc : e.c = g.c)
    (hw : e.window = g.window) (ht : (e.only_triu ≠ 0) ↔ g.onlyTriu = true) :
    (let e1 : Env := { e with j_start := warping_paths_affinity_j_start_0 e }
     if warping_paths_affinity_j_start_1_cond e1 then warping_paths_affinity_j_start_1 e1 else e1.j_start)
      = (g.jStart i : Int) ∧
    warping_paths_affinity_j_end_0 e = (g.jEnd i : Int) := by
  simp only [warping_paths_affinity_j_start_0, warping_paths_affinity_j_start_1_cond,
    warping_paths_affinity_j_start_1, warping_paths_affinity_j_end_0, AffGrid.jStart, AffGrid.jEnd, hi, hr, hc, hw,
    decide_eq_true_eq]
  constructor
  · by_cases h : g.onlyTriu = true
    · rw [if_pos (ht.mpr h), if_pos h]; omega
    · rw [if_neg (fun h' => h (ht.mp h')), if_neg h]; omega
  · omega

end aff

/-! ### the rolling buffer of `dtw.distance` -/

/-- the environment of row `i`, column `j` of `distance(s1, s2)` with `len(s1) = r`, `len(s2) = c`,
window `w`: `length` as assigned before the loop; `skip` as assigned in row `i` (the expression, then
`0` when the buffer holds whole rows); `skipp` the value `skip` had in the previous row (initially `0`) -/
def pyLength (r c w : Nat) : Int := distance_length_0 { r := r, c := c, window := w }

def pySkip (r c w i : Nat) : Int :=
  let e : Env := { i := i, r := r, c := c, window := w, length := pyLength r c w }
  if distance_skip_2_cond e then distance_skip_2 e else distance_skip_1 e

def pySkipPrev (r c w i : Nat) : Int :=
  if i = 0 then distance_skip_0 {} else pySkip r c w (i - 1)

def pyEnv (r c w i j : Nat) (i0 i1 : Int) : Env :=
  { i := i, j := j, r := r, c := c, window := w, length := pyLength r c w, skip := pySkip r c w i,
    skipp := pySkipPrev r c w i, i0 := i0, i1 := i1,
    j_start := distance_j_start_0 { i := i, r := r, c := c, window := w },
    j_end := distance_j_end_0 { i := i, r := r, c := c, window := w } }

theorem pyLength_eq (r c w : Nat) :
    pyLength r c w = min ((c : Int) + 1) (((Int.natAbs ((r : Int) - c) : Nat) : Int) + 2 * ((w : Int) - 1) + 1 + 1 + 1) := by
  simp only [pyLength, distance_length_0]

theorem pyLength_pos (r c w : Nat) (hw : 1 ≤ w) : 1 ≤ pyLength r c w := by
  rw [pyLength_eq]; omega

/-- `skip` in row `i`: `0` when the buffer holds whole rows, the first band column otherwise -/
theorem pySkip_cases (r c w i : Nat) :
    (pyLength r c w = (c : Int) + 1 ∧ pySkip r c w i = 0) ∨
    (pyLength r c w ≠ (c : Int) + 1 ∧ pySkip r c w i = max 0 ((i : Int) - max 0 ((r : Int) - c) - w + 1)) := by
  by_cases h : pyLength r c w = (c : Int) + 1
  · left; refine ⟨h, ?_⟩
    simp [pySkip, distance_skip_2_cond, distance_skip_2, h]
  · right; refine ⟨h, ?_⟩
    simp [pySkip, distance_skip_2_cond, distance_skip_1, h]

theorem pySkipPrev_cases (r c w i : Nat) :
    (i = 0 ∧ pySkipPrev r c w i = 0) ∨ (0 < i ∧ pySkipPrev r c w i = pySkip r c w (i - 1)) := by
  rcases Nat.eq_zero_or_pos i with h | h
  · left; subst h; simp [pySkipPrev, distance_skip_0]
  · right; refine ⟨h, ?_⟩
    have : ¬ i = 0 := by omega
    simp [pySkipPrev, this]

/-- **inner loop**: for every row `i < r` and every column `j` of the band of that row, the four cells the
recurrence touches lie inside the row they are meant to address: the written cell and its left neighbour in
row `i1`, the diagonal and upper neighbours in row `i0` -/
theorem PyBand_rolling_inner (r c w i j : Nat) (i0 i1 : Int) (hw : 1 ≤ w) (hi : i < r)
    (hlo : (pyEnv r c w i j i0 i1).j_start ≤ j) (hhi : (j : Int) < (pyEnv r c w i j i0 i1).j_end) :
    let e := pyEnv r c w i j i0 i1
    (e.i1 * e.length ≤ distance_sub_3 e ∧ distance_sub_3 e < e.i1 * e.length + e.length) ∧
    (e.i0 * e.length ≤ distance_sub_4 e ∧ distance_sub_4 e < e.i0 * e.length + e.length) ∧
    (e.i0 * e.length ≤ distance_sub_5 e ∧ distance_sub_5 e < e.i0 * e.length + e.length) ∧
    (e.i1 * e.length ≤ distance_sub_6 e ∧ distance_sub_6 e < e.i1 * e.length + e.length) ∧
    (e.i1 * e.length ≤ distance_sub_7 e ∧ distance_sub_7 e < e.i1 * e.length + e.length) := by
  simp only [pyEnv, distance_j_start_0, distance_j_end_0, distance_sub_3, distance_sub_4,
    distance_sub_5, distance_sub_6, distance_sub_7] at hlo hhi ⊢
  have hL := pyLength_eq r c w
  have hs := pySkip_cases r c w i
  have hp := pySkipPrev_cases r c w i
  have hs' := pySkip_cases r c w (i - 1)
  generalize pyLength r c w = L at *
  generalize i1 * L = b1
  generalize i0 * L = b0
  generalize pySkip r c w i = sk at *
  generalize pySkipPrev r c w i = skp at *
  generalize pySkip r c w (i - 1) = sk1 at *
  rcases hp with ⟨h0, hp⟩ | ⟨h0, hp⟩
  · subst h0
    rcases hs with ⟨_, hs⟩ | ⟨_, hs⟩ <;> omega
  · have hc : ((i - 1 : Nat) : Int) = (i : Int) - 1 := by omega
    rw [hc] at hs'
    rcases hs with ⟨_, hs⟩ | ⟨_, hs⟩ <;> rcases hs' with ⟨_, hs'⟩ | ⟨_, hs'⟩ <;> omega

/-- **psi on the last column**: `dtw[i1 * length + j_end - skip]` (read when `j_end == len(s2)`) lies in row `i1` -/
theorem PyBand_rolling_psi (r c w i : Nat) (i0 i1 : Int) (hw : 1 ≤ w) (hi : i < r)
    (hend : (pyEnv r c w i 0 i0 i1).j_end = c) :
    let e := pyEnv r c w i 0 i0 i1
    e.i1 * e.length ≤ distance_sub_8 e ∧ distance_sub_8 e < e.i1 * e.length + e.length := by
  simp only [pyEnv, distance_j_end_0, distance_sub_8] at hend ⊢
  have hL := pyLength_eq r c w
  have hs := pySkip_cases r c w i
  generalize pyLength r c w = L at *
  generalize i1 * L = b1
  generalize pySkip r c w i = sk at *
  rcases hs with ⟨_, hs⟩ | ⟨_, hs⟩ <;> omega

/-- **the result cell and the psi slice after the loop** (`i = r - 1`): the cell
`dtw[i1*length + min(c, c + window - 1) - skip]` and the slice `[max(0, ic - psi_2e), ic + 1)` lie in row `i1` -/
theorem PyBand_rolling_result (r c w psi2e : Nat) (i0 i1 : Int) (hw : 1 ≤ w) (hr : 1 ≤ r) :
    let e0 := pyEnv r c w (r - 1) 0 i0 i1
    let e : Env := { e0 with psi_2e := psi2e, ic := distance_ic_0 e0 }
    (e.i1 * e.length ≤ distance_sub_9 e ∧ distance_sub_9 e < e.i1 * e.length + e.length) ∧
    (e.i1 * e.length ≤ distance_sub_12 e ∧ distance_sub_12 e < e.i1 * e.length + e.length) ∧
    (e.i1 * e.length ≤ distance_sub_10 e ∧ distance_sub_10 e ≤ distance_sub_11 e ∧
      distance_sub_11 e ≤ e.i1 * e.length + e.length) := by
  simp only [pyEnv, distance_ic_0, distance_sub_9, distance_sub_10, distance_sub_11, distance_sub_12]
  have hL := pyLength_eq r c w
  have hs := pySkip_cases r c w (r - 1)
  have hc : ((r - 1 : Nat) : Int) = (r : Int) - 1 := by omega
  rw [hc] at hs
  generalize pyLength r c w = L at *
  generalize i1 * L = b1
  generalize pySkip r c w (r - 1) = sk at *
  rcases hs with ⟨_, hs⟩ | ⟨_, hs⟩ <;> omega

/-- **initialisation loops**: `dtw[i]` for `i < min(psi_2b + 1, length)`, `dtw[ii]` for `ii` in row `i1`, and
`dtw[i1 * length]` stay inside the `2 * length` cells of the buffer (`i1 ∈ {0, 1}`) -/
theorem PyBand_rolling_init (r c w : Nat) (i1 : Int) (e : Env) (hw : 1 ≤ w) (h1 : i1 = 0 ∨ i1 = 1)
    (hl : e.length = pyLength r c w) (he1 : e.i1 = i1) :
    (distance_loop_0_lo e ≤ e.i → e.i < distance_loop_0_hi e → 0 ≤ distance_sub_0 e ∧ distance_sub_0 e < 2 * e.length) ∧
    (distance_loop_2_lo e ≤ e.ii → e.ii < distance_loop_2_hi e → 0 ≤ distance_sub_1 e ∧ distance_sub_1 e < 2 * e.length) ∧
    (0 ≤ distance_sub_2 e ∧ distance_sub_2 e < 2 * e.length) := by
  have hp := pyLength_pos r c w hw
  simp only [distance_loop_0_lo, distance_loop_0_hi, distance_loop_2_lo, distance_loop_2_hi, distance_sub_0,
    distance_sub_1, distance_sub_2, he1]
  rcases h1 with h | h <;> subst h <;> simp <;> omega

/-! ### `dp.dp`, the routine behind `needleman_wunsch` -/

/-- the environment of `dp(s1, s2)` called without a window, in row `i0` -/
def dpEnv (r c i0 : Nat) : Env :=
  let e0 : Env := { r := r, c := c, i0 := i0, window_is_none := 1 }
  { e0 with window := if dp_window_0_cond e0 then dp_window_0 e0 else e0.window }

/-- without a window every row of the score matrix is filled over all columns `0 … c-1` -/
theorem PyBand_dp_full_rows (r c i0 : Nat) (hi : i0 < r) :
    dp_cols_lo (dpEnv r c i0) = 0 ∧ dp_cols_hi (dpEnv r c i0) = c := by
  simp only [dpEnv, dp_cols_lo, dp_cols_hi, dp_window_0, dp_window_0_cond]
  constructor <;> simp <;> omega

/-- … and the value is read from the last column `c` of the last row — also when a sequence is empty: for
`r = c = 0` the index is `-1`, which Python wraps to the only column of that row (`-1 mod 1 = 0`) -/
theorem PyBand_dp_readout (r c : Nat) :
    -((c : Int) + 1) ≤ dp_readout_col (dpEnv r c 0) ∧ dp_readout_col (dpEnv r c 0) % ((c : Int) + 1) = c := by
  by_cases h : r = 0 ∧ c = 0
  · obtain ⟨hr, hc⟩ := h
    subst hr; subst hc
    decide
  · have hcol : dp_readout_col (dpEnv r c 0) = c := by
      simp only [dpEnv, dp_readout_col, dp_window_0, dp_window_0_cond]
      simp
      omega
    rw [hcol]
    exact ⟨by omega, Int.emod_eq_of_lt (by omega) (by omega)⟩

/-- the translated items are exactly the ones the theorems above speak about (a new assignment to a band
variable, a new subscript or a new loop in the source must be looked at) -/
theorem PyBand_items_pinned :
    Gen.PyBand.items.map (·.1) =
      ["distance_length_0", "distance_skip_0", "distance_skip_1", "distance_j_start_0", "distance_j_end_0",
       "distance_j_start_1", "distance_skip_2", "distance_ic_0", "warping_paths_j_start_0", "warping_paths_j_end_0",
       "warping_paths_j_start_1", "warping_paths_affinity_j_start_0", "warping_paths_affinity_j_start_1",
       "warping_paths_affinity_j_end_0", "lb_keogh_imin_diff_0", "lb_keogh_imax_diff_0", "lb_keogh_imin_0",
       "lb_keogh_imax_0", "dp_window_0", "dp_cols", "dp_readout_col"] ∧
    Gen.PyBand.distanceSubscripts.length = 13 ∧ Gen.PyBand.distanceLoops.length = 4 := by decide

/- non-vacuity: a concrete row of a concrete pair satisfies the hypotheses of the inner-loop theorem -/
example : (pyEnv 7 4 2 5 3 0 1).j_start ≤ 3 ∧ (3 : Int) < (pyEnv 7 4 2 5 3 0 1).j_end := by decide
example : pyLength 7 4 2 = 5 ∧ pySkip 7 4 2 5 = 0 ∧ pyLength 9 30 2 = 26 ∧ pySkip 9 30 2 5 = 4 := by decide

end Dtai
