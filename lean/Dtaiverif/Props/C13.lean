/-
Props/C13.lean — C13: subsequence alignment.
`SubsequenceAlignment.align` builds the accumulated-cost matrix of (query, series) with free start and
end columns (psi = (0, 0, len(series), len(series))); the matching function is its last row (transformed
and divided by len(query)).
-/
import Dtaiverif.Proofs.Subseq
import Dtaiverif.Proofs.SubseqIter
import Dtaiverif.Proofs.SubseqIterRun
import Dtaiverif.Proofs.Path

namespace Dtai
variable {α : Type} [LinearOrderedAddCommMonoidWithTop α]

/-- matching value at end position `e` = minimum over start positions `b ≤ e` of the (penalised) DTW
cost between the query and `series[b..e]` -/
theorem C13_matching_eq_min_over_starts (g : Grid α) (h : g.NonNeg) (hf : g.Full) (hpsi : g.psi1b = 0)
    (e : Nat) (hr : 1 ≤ g.r) (he : e < g.c) (hfree : e ≤ g.psi2b) :
    D g g.r (e+1) = minList ((List.range (e+1)).map fun b => D (subGrid g b e) g.r (e - b + 1)) := by
  obtain ⟨r', hr'⟩ : ∃ r', g.r = r' + 1 := ⟨g.r - 1, by omega⟩
  have := matching_eq_min_over_starts g h hf hpsi r' e (by omega) he hfree
  rw [hr']; exact this

/-- the path of a match (trace-back from the last query row at end position `e`, with the internal
penalty) is an admissible path whose cost is the matching value; its first cell gives the start of the
reported segment -/
theorem C13_match_realises (g : Grid α) (h : g.NonNeg) (I e : Nat) (hfin : D g (I+1) (e+1) ≠ ⊤) :
    ∃ rest, backtrack (D g) g.pen (I + e + 2) (I+1) (e+1) = (I, e) :: rest ∧
      g.ValidRev ((I, e) :: rest) ∧ g.costRev ((I, e) :: rest) = D g (I+1) (e+1) :=
  backtrack_valid g h I e hfin

/-- k-best iterator: in every reachable state the yielded matches have distinct end points, come in
non-decreasing value order, respect the length limits, and — when no overlap is allowed — any two of them
share at most a single boundary sample. Holds for every sequence of iterator steps. -/
theorem C13_iterator {β : Type} [Preorder β] (n overlap minlen : Nat) (maxlen : Option Nat)
    (startOf : Nat → Nat) (init : Nat → Slot β) (st : IterState β)
    (hreach : Reach n overlap minlen maxlen startOf init st) :
    (st.yielded.Pairwise fun m1 m2 => m1.e ≠ m2.e) ∧
    (st.yielded.Pairwise fun later earlier => earlier.v ≤ later.v) ∧
    (∀ m ∈ st.yielded, m.b ≤ m.e ∧ m.e < n ∧ minlen ≤ m.e - m.b + 1 ∧ ∀ ml, maxlen = some ml → m.e - m.b + 1 ≤ ml) ∧
    (overlap = 0 → st.yielded.Pairwise fun m1 m2 => ¬ SharesTwo m1 m2) := by
  have inv := reach_inv n overlap minlen maxlen startOf init st hreach
  exact ⟨inv.distinct, inv.sorted, inv.wf, inv.disjoint⟩

/-- **The executable iterator** (what the driver runs and what `kbest_matches` is compared with): for any
matching function `vals`, start-point table with `start ≤ end`, and options, its output consists of
well-formed segments within the length limits, with pairwise distinct end points and — without overlap —
sharing at most a single boundary sample pairwise. Obtained from `C13_iterator` through
`kbestRun_reach`: the executable run only performs reachable steps. -/
theorem C13_executable_iterator (vals : List Cost) (starts : List Nat) (lq overlap : Nat) (minlen maxlen k : Option Nat)
    (fuel : Nat) (hstarts : ∀ e, starts.getD e 0 ≤ e) :
    let out := kbestRun starts lq overlap minlen maxlen k fuel (kbestInit vals lq overlap) 0
    (out.Pairwise fun s1 s2 => s1.2 ≠ s2.2) ∧
    (∀ s ∈ out, s.1 ≤ s.2 ∧ s.2 < vals.length ∧ minlen.getD 0 ≤ s.2 - s.1 + 1 ∧
      ∀ ml, maxlen = some ml → s.2 - s.1 + 1 ≤ ml) ∧
    (overlap = 0 → out.Pairwise fun s1 s2 =>
      ¬ ∃ j, s1.1 ≤ j ∧ j + 1 ≤ s1.2 ∧ s2.1 ≤ j ∧ j + 1 ≤ s2.2) := by
  intro out
  have hlen : (kbestInit vals lq overlap).length = vals.length := by simp [kbestInit]
  obtain ⟨st, hreach, heq⟩ := kbestRun_reach starts lq overlap minlen maxlen k
    (absSlots (kbestInit vals lq overlap)) vals.length hstarts fuel (kbestInit vals lq overlap) 0
    { slots := absSlots (kbestInit vals lq overlap), yielded := [] } Reach.init hlen rfl
  simp only [List.map_nil, List.append_nil] at heq
  obtain ⟨h1, _, h3, h4⟩ := C13_iterator vals.length overlap (minlen.getD 0) maxlen _ _ st hreach
  have hout : out = (st.yielded.map fun m => (m.b, m.e)).reverse := by rw [heq, List.reverse_reverse]
  refine ⟨?_, ?_, ?_⟩
  · rw [hout, List.pairwise_reverse, List.pairwise_map]
    exact h1.imp (fun {a b} h => by simpa using Ne.symm h)
  · intro s hs
    rw [hout] at hs
    simp only [List.mem_reverse, List.mem_map] at hs
    obtain ⟨m, hm, rfl⟩ := hs
    exact h3 m hm
  · intro h0
    rw [hout, List.pairwise_reverse, List.pairwise_map]
    exact (h4 h0).imp (fun {a b} h => by
      intro ⟨j, a1, a2, a3, a4⟩
      exact h ⟨j, a3, a4, a1, a2⟩)

/- non-vacuity: the executable iterator on a concrete matching function -/
example : kbestRun [0, 0, 1, 2, 3, 5] 2 0 (some 2) none (some 2) 20
    (kbestInit [.fin 5, .fin 1, .fin 3, .fin 0, .fin 4, .fin 2] 2 0) 0 = [(2, 3), (0, 1)] := by decide

/-- **The other entry points of the iterator** (`best_matches` with a range factor, `best_matches_knee`
with a knee detector) run the same loop with an extra stopping rule that looks only at the candidate values
seen so far: whatever that rule is, they yield a prefix of the matches of the unlimited iterator with the same
overlap and length limits — so every invariant of C13 (distinct end points, order, length limits, overlap)
carries over. -/
theorem C13_stop_rule_prefix (stop : List (Nat × Cost) → Nat → Cost → Bool) (starts : List Nat) (lq overlap : Nat)
    (minlen maxlen k : Option Nat) (fuel : Nat) (slots : List (Slot Cost)) (ki : Nat) (hist : List (Nat × Cost)) :
    kbestRunStop stop starts lq overlap minlen maxlen k fuel slots ki hist <+:
      kbestRun starts lq overlap minlen maxlen k fuel slots ki :=
  kbestRunStop_prefix stop starts lq overlap minlen maxlen k fuel slots ki hist

theorem C13_stop_rule_never (starts : List Nat) (lq overlap : Nat) (minlen maxlen k : Option Nat) (fuel : Nat)
    (slots : List (Slot Cost)) (ki : Nat) (hist : List (Nat × Cost)) :
    kbestRunStop (fun _ _ _ => false) starts lq overlap minlen maxlen k fuel slots ki hist =
      kbestRun starts lq overlap minlen maxlen k fuel slots ki :=
  kbestRunStop_never starts lq overlap minlen maxlen k fuel slots ki hist

/- non-vacuity: a range factor that really cuts the iteration short (values 1, 2, 9; factor² = 4) -/
example : kbestRunStop (rangeStop 4 1) [0, 1, 2, 3, 4, 5] 1 0 (some 1) none none 20
    [Slot.val (.fin 1), Slot.blocked, Slot.val (.fin 2), Slot.blocked, Slot.val (.fin 9), Slot.blocked] 0 [] = [(0, 0), (2, 2)] ∧
  kbestRun [0, 1, 2, 3, 4, 5] 1 0 (some 1) none none 20
    [Slot.val (.fin 1), Slot.blocked, Slot.val (.fin 2), Slot.blocked, Slot.val (.fin 9), Slot.blocked] 0 = [(0, 0), (2, 2), (4, 4)] := by
  decide +kernel

end Dtai
