/-
Props/C16.lean — C16: DBA k-means returns k clusters covering all series, nearest mean each.

Model: `Model/KMeans.lean`.  The table `table[i][j]` is the DTW distance of series `i` to mean `j` for the
means held when the final assignment is made (arbitrary values of a linear order with top: ties and
duplicates included).  The only hypothesis is the one under which the implementation's `-1` start value
cannot survive: every row has `k` entries and at least one of them is finite.
-/
import Dtaiverif.Proofs.GridDP
import Dtaiverif.Model.KMeans
import Dtaiverif.Proofs.CostInst

namespace Dtai
variable {α : Type} [LinearOrderedAddCommMonoidWithTop α]

/-- state of the scan after the prefix `pre`: the pair held is the first strict minimum of the prefix -/
structure NearInv (pre : List α) (acc : Option Nat × α) : Prop where
  le : ∀ d ∈ pre, acc.2 ≤ d
  someSpec : ∀ j, acc.1 = some j → j < pre.length ∧ pre[j]? = some acc.2 ∧ acc.2 ≠ ⊤ ∧
      ∀ j' d, j' < j → pre[j']? = some d → acc.2 < d
  noneSpec : acc.1 = none → acc.2 = ⊤ ∧ ∀ d ∈ pre, d = ⊤

theorem nearestAux_inv (ds : List α) : ∀ (pre : List α) (acc : Option Nat × α), NearInv pre acc →
    NearInv (pre ++ ds) (nearestAux ds pre.length acc) := by
  induction ds with
  | nil => intro pre acc h; simpa [nearestAux] using h
  | cons d ds ih =>
    intro pre acc h
    have hstep : NearInv (pre ++ [d]) (if ¬ acc.2 ≤ d then (some pre.length, d) else acc) := by
      by_cases hle : acc.2 ≤ d
      · simp only [hle, not_true_eq_false, if_false]
        refine ⟨?_, ?_, ?_⟩
        · intro x hx
          rcases List.mem_append.mp hx with hx | hx
          · exact h.le x hx
          · simp only [List.mem_singleton] at hx; rw [hx]; exact hle
        · intro j hj
          obtain ⟨h1, h2, h3, h4⟩ := h.someSpec j hj
          refine ⟨by simp; omega, by rw [List.getElem?_append_left h1]; exact h2, h3, ?_⟩
          intro j' x hj' hx
          rw [List.getElem?_append_left (by omega)] at hx
          exact h4 j' x hj' hx
        · intro hn
          obtain ⟨h1, h2⟩ := h.noneSpec hn
          refine ⟨h1, ?_⟩
          intro x hx
          rcases List.mem_append.mp hx with hx | hx
          · exact h2 x hx
          · simp only [List.mem_singleton] at hx
            rw [hx]; rw [h1] at hle; exact top_le_iff.mp hle
      · simp only [hle, not_false_eq_true, if_true]
        have hlt : d < acc.2 := lt_of_not_ge hle
        refine ⟨?_, ?_, ?_⟩
        · intro x hx
          rcases List.mem_append.mp hx with hx | hx
          · exact le_trans (le_of_lt hlt) (h.le x hx)
          · simp only [List.mem_singleton] at hx; rw [hx]
        · intro j hj
          simp only [Option.some.injEq] at hj
          subst hj
          refine ⟨by simp, by simp, ?_, ?_⟩
          · intro htop
            have htop' : d = ⊤ := htop
            rw [htop'] at hlt; exact absurd hlt (not_lt.mpr le_top)
          · intro j' x hj' hx
            rw [List.getElem?_append_left hj'] at hx
            exact lt_of_lt_of_le hlt (h.le x (List.mem_of_getElem? hx))
        · intro hn; cases hn
    have := ih (pre ++ [d]) _ hstep
    simpa [nearestAux, List.append_assoc] using this

theorem nearest_inv (ds : List α) : NearInv ds (nearest ds) := by
  have h0 : NearInv ([] : List α) ((none, ⊤) : Option Nat × α) :=
    ⟨by simp, (by intro j hj; cases hj), fun _ => ⟨rfl, by simp⟩⟩
  simpa [nearest] using nearestAux_inv ds [] _ h0

/-- **Nearest mean, first among ties.** If some distance in the row is finite the scan returns an index
`j` inside the row whose distance is finite, minimal over the row, and strictly smaller than all earlier
ones. -/
theorem C16_nearest (row : List α) (hfin : ∃ d ∈ row, d ≠ ⊤) :
    ∃ j v, nearest row = (some j, v) ∧ j < row.length ∧ row[j]? = some v ∧ v ≠ ⊤ ∧
      (∀ d ∈ row, v ≤ d) ∧ ∀ j' d, j' < j → row[j']? = some d → v < d := by
  have h := nearest_inv row
  cases hn : (nearest row).1 with
  | none =>
    obtain ⟨d, hd, hne⟩ := hfin
    exact absurd ((h.noneSpec hn).2 d hd) hne
  | some j =>
    obtain ⟨h1, h2, h3, h4⟩ := h.someSpec j hn
    exact ⟨j, (nearest row).2, by rw [← hn], h1, h2, h3, h.le, h4⟩

/-- the `-1` start value survives exactly when every distance of the row is infinite -/
theorem C16_unassigned_iff (row : List α) : (nearest row).1 = none ↔ ∀ d ∈ row, d = ⊤ := by
  have h := nearest_inv row
  constructor
  · intro hn; exact (h.noneSpec hn).2
  · intro hall
    cases hn : (nearest row).1 with
    | none => rfl
    | some j =>
      obtain ⟨h1, h2, h3, _⟩ := h.someSpec j hn
      exact absurd (hall _ (List.mem_of_getElem? h2)) h3

theorem mem_clustersOf (k : Nat) (assign : List (Option Nat)) (j i : Nat) (hj : j < k) :
    i ∈ (clustersOf k assign).getD j [] ↔ assign[i]? = some (some j) := by
  simp only [clustersOf, List.getD_eq_getElem?_getD, List.getElem?_map, List.getElem?_range hj, Option.map_some,
    Option.getD_some, List.mem_filter, List.mem_range, beq_iff_eq]
  constructor
  · exact fun h => h.2
  · intro h
    refine ⟨?_, h⟩
    by_contra hge
    rw [List.getElem?_eq_none (by omega)] at h
    cases h

/-- **k clusters that partition all series, nearest mean each.** For a table with `n` rows of `k`
distances, each row containing a finite distance: there are exactly `k` clusters; every series `i < n`
belongs to exactly one of them, `j`; and the mean `j` is nearest to it (no mean is closer). -/
theorem C16_partition_nearest (k : Nat) (table : List (List α))
    (hrow : ∀ row ∈ table, row.length = k ∧ ∃ d ∈ row, d ≠ ⊤) :
    (clustersOf k (assignAll table)).length = k ∧
    ∀ i row, table[i]? = some row →
      ∃ j, j < k ∧ (∀ j', j' < k → (i ∈ (clustersOf k (assignAll table)).getD j' [] ↔ j' = j)) ∧
        ∃ v, row[j]? = some v ∧ ∀ d ∈ row, v ≤ d := by
  refine ⟨by simp [clustersOf], ?_⟩
  intro i row hi
  obtain ⟨hlen, hfin⟩ := hrow row (List.mem_of_getElem? hi)
  obtain ⟨j, v, hn, hj, hv, _, hmin, _⟩ := C16_nearest row hfin
  have hassign : (assignAll table)[i]? = some (some j) := by
    simp [assignAll, List.getElem?_map, hi, hn]
  refine ⟨j, by omega, ?_, v, hv, hmin⟩
  intro j' hj'
  rw [mem_clustersOf k _ j' i hj', hassign]
  constructor
  · intro h; simp only [Option.some.injEq] at h; exact h.symm
  · intro h; rw [h]

/-- every index placed in a cluster is an index of a series (`< n`), so the clusters cover exactly
`0 … n-1` -/
theorem C16_members_lt (k : Nat) (table : List (List α)) (j i : Nat) (hj : j < k)
    (h : i ∈ (clustersOf k (assignAll table)).getD j []) : i < table.length := by
  rw [mem_clustersOf k _ j i hj] at h
  by_contra hge
  rw [List.getElem?_eq_none (by simp [assignAll]; omega)] at h
  cases h

theorem loopCount_le (fuel : Nat) (stop : Nat → Bool) (it : Nat) : loopCount fuel stop it ≤ fuel := by
  induction fuel generalizing it with
  | zero => simp [loopCount]
  | succ fuel ih =>
    simp only [loopCount]
    split
    · omega
    · have := ih (it + 1); omega

/-- **Iteration count**: whatever makes the loop stop (unchanged assignment, unchanged means, the
monitor function), `performed_it ≤ max_it + 1` -/
theorem C16_iterations (maxIt : Nat) (stop : Nat → Bool) : performedIt maxIt stop ≤ maxIt + 1 := by
  have := loopCount_le maxIt stop 0
  simp only [performedIt]; omega

/-- non-vacuity: ties, an infinite entry, three means -/
example : assignAll ([[.fin 3, .fin 1, .fin 1], [.inf, .fin 7, .fin 2], [.fin 0, .fin 0, .inf]] : List (List Cost))
    = [some 1, some 2, some 0] := by decide +kernel

end Dtai
