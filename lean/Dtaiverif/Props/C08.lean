/-
Props/C08.lean — C08: the C engine stays within its buffers.

Proved for the index-faithful models (all lengths >= 1, all windows, all psi <= length):
  * rolling two-row buffer of `dtw_distance*`          : `C08_rolling_in_row`, `C08_rolling_last_row`
  * compact warping-paths buffer (`dtw_warping_paths*`, expansion, best path) : `C08_wps_in_row`
  * index arrays of `dtw_best_path*`                   : `C08_path_fits`
  * distance-matrix output slots                       : `C08_matrix_slots`
and tied to the source by obligations on the index expressions re-extracted from dd_dtw.c on every
run (`Generated/RollingPlan.lean`, translate/c_index.py): they must be exactly the transcribed ones.
Reads outside buffers, UB beyond index arithmetic and the remaining routines are exercised with
red zones and ASan/UBSan by the harness (validation / failing-input search, not proof).
-/
import Dtaiverif.Props.CBand
import Dtaiverif.Proofs.Rolling
import Dtaiverif.Proofs.Compact
import Dtaiverif.Proofs.Path
import Dtaiverif.Proofs.Matrix
import Dtaiverif.Generated.RollingPlan

namespace Dtai

/-- rolling buffer: all four offsets of a cell stay inside the row (`[0, length)`) -/
theorem C08_rolling_in_row (p : Roll) (h1 : 1 ≤ p.l1) (h2 : 1 ≤ p.l2) (hw : 1 ≤ p.window)
    (i j : Nat) (hi : i < p.l1) (hj1 : p.maxj i ≤ j) (hj2 : j < p.minj i) :
    p.skipp i ≤ j ∧ j - p.skipp i + 1 < p.length ∧ p.skip i ≤ j ∧ j - p.skip i + 1 < p.length :=
  rolling_in_row p h1 h2 hw i j hi hj1 hj2

/-- the final cell / psi scan of the last row is inside the row -/
theorem C08_rolling_last_row (p : Roll) (h1 : 1 ≤ p.l1) (h2 : 1 ≤ p.l2) (hw : 1 ≤ p.window) :
    p.skip (p.l1 - 1) ≤ p.l2 ∧ p.l2 - p.skip (p.l1 - 1) < p.length :=
  rolling_last_row_scan p h1 h2 hw

/-- compact warping-paths buffer of the advertised size `(l1+1) * width` suffices and rows do not overlap -/
theorem C08_wps_in_row (l1 l2 window r : Nat) (h1 : 1 ≤ l1) (h2 : 1 ≤ l2) (hr1 : 1 ≤ r) (hr : r ≤ l1) :
    let p := wpsParts l1 l2 window
    let lc := locColumns p l2 r
    r * p.width ≤ lc.1 ∧ lc.2.1 ≤ min lc.2.2 (l2 + 1) ∧
      lc.1 + (min lc.2.2 (l2 + 1) - lc.2.1) ≤ r * p.width + p.width :=
  locColumns_in_row l1 l2 window r h1 h2 hr1 hr

/-- a warping path never has more than `len1 + len2 - 1` entries: index arrays of length
`len1 + len2` suffice -/
theorem C08_path_fits {α : Type} [LinearOrderedAddCommMonoidWithTop α] (g : Grid α) (path : List Cell)
    (q : Cell) (hv : g.ValidRev (q :: path)) (hq1 : q.1 < g.r) (hq2 : q.2 < g.c) :
    (q :: path).length + 1 ≤ g.r + g.c := by
  have := validRev_length g path q hv
  omega

/-- distance-matrix routines write exactly the slots `0 .. length-1` -/
theorem C08_matrix_slots (n : Nat) (b : Block) (rows : List Nat) :
    ((planFrom n b 0 rows).flatMap (rowWrites n b)).map Prod.fst =
      List.range' 0 (((planFrom n b 0 rows).flatMap (rowWrites n b)).length) :=
  (plan_writes n b rows 0).2

/-! ### obligations on the expressions extracted from dd_dtw.c -/

open Generated

def expectedAssigns : List String := ["window = settings->window", "ldiff = l1 - l2", "dl = ldiff", "ldiff = l2 - l1", "dl = 0", "window = MAX(l1, l2)", "length = MIN(l2+1, ldiff + 2*window + 1)", "skip = 0", "skipp = 0", "i0 = 1", "i1 = 0", "curidx = 0", "dl_window = dl + window - 1", "ldiff_window = window", "ldiff_window += ldiff", "maxj = (i - dl_window) * (i > dl_window)", "minj = i + ldiff_window", "minj = l2", "skipp = skip", "skip = maxj", "i0 = 1 - i0", "i1 = 1 - i1", "skip = skip * (length != l2 + 1)", "maxj = sc", "curidx = i0 * length + j - skipp", "curidx += 1", "curidx = i1 * length + j - skip", "curidx += 1", "curidx = i1 * length + l2 - skip"]
def expectedMallocs : List String := ["sizeof(seq_t) * length * 2"]
def expectedLoops : List String := ["j=0; j<length*2; j++", "i=0; i<settings->psi_2b + 1 && i<length; i++", "i=0; i<l1; i++", "j=0; j<length; j++", "j=maxj; j<minj; j++", "i=MAX(0, l2 - skip - settings->psi_2e); i<l2 - skip + 1; i++"]
def expectedLoopsNdim : List String := ["j=0; j<length*2; j++", "i=0; i<settings->psi_2b + 1 && i<length; i++", "i=0; i<l1; i++", "j=0; j<length; j++", "j=maxj; j<minj; j++", "int d_i=0; d_i<ndim; d_i++", "i=MAX(0, l2 - skip - settings->psi_2e); i<l2 - skip + 1; i++"]
def expectedSubscripts : List String := ["j", "i", "length * i1 + j", "i1*length + 0", "curidx", "curidx", "curidx", "curidx", "curidx", "curidx", "curidx", "length * i1 + l2 - skip", "i1*length + i", "i1*length + i"]

/-- all four kernels use the transcribed index arithmetic, allocation size and buffer subscripts -/
theorem C08_index_expressions :
    rollingFns.map (·.name) = ["dtw_distance", "dtw_distance_ndim", "dtw_distance_euclidean",
      "dtw_distance_ndim_euclidean"] ∧
    rollingFns.all (fun f => f.assigns == expectedAssigns && f.mallocs == expectedMallocs &&
      f.subscripts == expectedSubscripts && (f.loops == expectedLoops || f.loops == expectedLoopsNdim)) = true := by
  decide

/-- barycenter update: the buffer sized as the maximum over all series of the compact length suffices
for every series of the collection … -/
theorem C08_dba_wps_size (t window : Nat) (lens : List Nat) (l : Nat) (hl : l ∈ lens) :
    (wpsParts t l window).length ≤ (lens.map fun x => (wpsParts t x window).length).foldl max 0 := by
  have key : ∀ (xs : List Nat) (a : Nat), a ≤ xs.foldl max a ∧ ∀ y ∈ xs, y ≤ xs.foldl max a := by
    intro xs
    induction xs with
    | nil => intro a; simp
    | cons x xs ih =>
      intro a
      obtain ⟨h1, h2⟩ := ih (max a x)
      refine ⟨le_trans (Nat.le_max_left a x) h1, ?_⟩
      intro y hy
      rcases List.mem_cons.mp hy with rfl | hm
      · exact le_trans (Nat.le_max_right a y) h1
      · exact h2 y hm
  exact (key _ 0).2 _ (List.mem_map.mpr ⟨l, hl, rfl⟩)

/-- … while sizing it for the longest (or the longest and the shortest) series only does not: the
compact length is not monotone in the series length -/
theorem C08_dba_wps_not_monotone :
    (wpsParts 10 10 1).length < (wpsParts 10 6 1).length ∧ (wpsParts 10 2 1).length < (wpsParts 10 6 1).length := by
  decide

/-- the allocation logic extracted from `dtw_dba_ptrs` / `dtw_dba_matrix` is the transcribed one
(maximum over all series; index arrays of `max_length + t` entries) -/
theorem C08_dba_alloc : dbaAllocs =
    [{ name := "dtw_dba_ptrs",
       mallocs := ["t * ndim * sizeof(seq_t)", "t * sizeof(idx_t)", "(max_length + t) * sizeof(idx_t)",
                   "(max_length + t) * sizeof(idx_t)", "wps_length * sizeof(seq_t)"],
       sizes := ["max_length = 0", "max_length = lengths[r_idx]", "wps_length = 0",
                 "cur_wps_length = dtw_settings_wps_length(t, lengths[r_idx], settings)",
                 "wps_length = cur_wps_length"] },
     { name := "dtw_dba_matrix",
       mallocs := ["t * ndim * sizeof(seq_t)", "t * sizeof(idx_t)", "(nb_cols + t) * sizeof(idx_t)",
                   "(nb_cols + t) * sizeof(idx_t)", "wps_length * sizeof(seq_t)"],
       sizes := ["wps_length = dtw_settings_wps_length(t, nb_cols, settings)"] }] := by
  decide

/- non-vacuity: a concrete narrow-window configuration -/
example : (⟨9, 9, 2⟩ : Roll).length = 5 ∧ (⟨9, 9, 2⟩ : Roll).skip 8 = 7 ∧ (⟨9, 9, 2⟩ : Roll).minj 8 = 9 := by decide

end Dtai
