/-
Props/C14.lean — C14: k-NN subsequence search is exact despite lower bounds and early abandoning.

Model: `knnScan` (Model/SubseqSearch.lean).  Each candidate is a triple (index, true DTW distance,
LB_Keogh value); the only facts used about them are `lb ≤ dist` (C09) and that the thresholded
distance call returns `dist` when `dist ≤ bound` and infinity otherwise (C03).
-/
import Dtaiverif.Proofs.SubseqSearch
import Dtaiverif.Proofs.CostInst
import Dtaiverif.Proofs.Bounds
import Dtaiverif.Proofs.Dist

namespace Dtai
variable {α : Type} [LinearOrderedAddCommMonoidWithTop α]

/-- `R` is "the k smallest qualifying distances in ascending order" for the candidate list: sorted;
made of genuine qualifying candidates; at most `k`; and every qualifying candidate that is not
reported is at least as far as every reported one, the report being full (`k` entries) in that case.
This determines the list of distances uniquely (indices up to ties). -/
structure KSpec (k : Nat) (M : α) (cands : List (Nat × α × α)) (R : List (α × Nat)) : Prop where
  sorted : R.Pairwise fun a b => a.1 ≤ b.1
  genuine : ∀ x ∈ R, ∃ c ∈ cands, c.1 = x.2 ∧ c.2.1 = x.1 ∧ Qual M c
  len : R.length ≤ k
  excluded : ∀ c ∈ cands, Qual M c → (c.2.1, c.1) ∉ R → R.length = k ∧ ∀ x ∈ R, x.1 ≤ c.2.1

/-- **Exactness** for every candidate list (ties and duplicates included), every `k ≥ 1`, with or without
the lower-bound skip, any user bound `M`. -/
theorem C14_exact (k : Nat) (hk : 1 ≤ k) (useLb : Bool) (M : α) (cands : List (Nat × α × α))
    (hlb : ∀ c ∈ cands, c.2.2 ≤ c.2.1) : KSpec k M cands (knnScan k useLb M cands).best := by
  have h0 : KInv k M [] ({ best := [], bound := M } : KState α) :=
    ⟨List.Pairwise.nil, by simp, by simp, by simp, le_rfl, fun _ => rfl, fun h => by simp at h; omega⟩
  have := knnScan_inv k hk useLb M cands [] _ hlb h0
  simp only [List.nil_append] at this
  exact ⟨this.sorted, this.genuine, this.len, this.excluded⟩

/-- the lower bound never changes the reported distances: with and without `use_lb` the result satisfies
the same specification -/
theorem C14_lb_irrelevant (k : Nat) (hk : 1 ≤ k) (M : α) (cands : List (Nat × α × α))
    (hlb : ∀ c ∈ cands, c.2.2 ≤ c.2.1) :
    KSpec k M cands (knnScan k true M cands).best ∧ KSpec k M cands (knnScan k false M cands).best :=
  ⟨C14_exact k hk true M cands hlb, C14_exact k hk false M cands hlb⟩

/-- a prefix of the stored k₀-best answer is a k-best answer (re-use of the stored result) -/
theorem C14_prefix (k k0 : Nat) (hk : k ≤ k0) (M : α) (cands : List (Nat × α × α)) (R : List (α × Nat))
    (h : KSpec k0 M cands R) : KSpec k M cands (R.take k) := by
  refine ⟨List.Pairwise.sublist (List.take_sublist k R) h.sorted,
    fun x hx => h.genuine x (List.mem_of_mem_take hx), by simp, ?_⟩
  intro c hc hq hnot
  by_cases hin : (c.2.1, c.1) ∈ R
  · have hdrop : (c.2.1, c.1) ∈ R.drop k := by
      have := (List.take_append_drop k R) ▸ hin
      rcases List.mem_append.mp this with h1 | h2
      · exact absurd h1 hnot
      · exact h2
    have hklt : k < R.length := by
      by_contra hge
      rw [List.drop_eq_nil_of_le (by omega)] at hdrop
      simp at hdrop
    exact ⟨by simp; omega, fun x hx => take_le_drop R h.sorted k x hx _ hdrop⟩
  · obtain ⟨hfull, hall⟩ := h.excluded c hc hq hin
    exact ⟨by simp; omega, fun x hx => hall x (List.mem_of_mem_take hx)⟩

/-- **History independence.** Whatever was stored by earlier queries (provided it satisfies the
specification, which `C14_state_preserved` shows to be invariant), the answer to `kbest_matches(k)`
satisfies the specification of a fresh object's answer for the same `k`. -/
theorem C14_history (useLb : Bool) (M : α) (cands : List (Nat × α × α))
    (hlb : ∀ c ∈ cands, c.2.2 ≤ c.2.1) (o : SSObj α) (k : Nat) (hk : 1 ≤ k)
    (hstored : ∀ k0 R, o.stored = some (k0, R) → KSpec k0 M cands R) :
    KSpec k M cands (ssQuery useLb M cands o k).2 := by
  cases ho : o.stored with
  | none => simp only [ssQuery, ho]; exact C14_exact k hk useLb M cands hlb
  | some p =>
    obtain ⟨k0, R⟩ := p
    simp only [ssQuery, ho]
    split
    · rename_i hle
      exact C14_prefix k k0 hle M cands R (hstored k0 R ho)
    · exact C14_exact k hk useLb M cands hlb

/-- the stored state after any query again satisfies the specification: by induction the statement
above applies along every sequence of `kbest_matches` / `best_match` / `align` calls -/
theorem C14_state_preserved (useLb : Bool) (M : α) (cands : List (Nat × α × α))
    (hlb : ∀ c ∈ cands, c.2.2 ≤ c.2.1) (o : SSObj α) (k : Nat) (hk : 1 ≤ k)
    (hstored : ∀ k0 R, o.stored = some (k0, R) → KSpec k0 M cands R) :
    ∀ k0 R, (ssQuery useLb M cands o k).1.stored = some (k0, R) → KSpec k0 M cands R := by
  intro k0 R
  cases ho : o.stored with
  | none =>
    simp only [ssQuery, ho]
    intro h
    simp only [Option.some.injEq, Prod.mk.injEq] at h
    obtain ⟨rfl, rfl⟩ := h
    exact C14_exact k hk useLb M cands hlb
  | some p =>
    obtain ⟨k1, R1⟩ := p
    simp only [ssQuery, ho]
    split
    · intro h; rw [ho] at h
      simp only [Option.some.injEq, Prod.mk.injEq] at h
      obtain ⟨rfl, rfl⟩ := h
      exact hstored k1 R1 ho
    · intro h
      simp only [Option.some.injEq, Prod.mk.injEq] at h
      obtain ⟨rfl, rfl⟩ := h
      exact C14_exact k hk useLb M cands hlb

/-- … hence for every finite sequence of queries, starting from a fresh object -/
theorem C14_all_histories (useLb : Bool) (M : α) (cands : List (Nat × α × α))
    (hlb : ∀ c ∈ cands, c.2.2 ≤ c.2.1) :
    ∀ (ks : List Nat) (o : SSObj α), (∀ k ∈ ks, 1 ≤ k) →
      (∀ k0 R, o.stored = some (k0, R) → KSpec k0 M cands R) →
      ∀ (pre : List Nat) (k : Nat) (post : List Nat), ks = pre ++ k :: post →
        KSpec k M cands (ssQuery useLb M cands (pre.foldl (fun o k' => (ssQuery useLb M cands o k').1) o) k).2 := by
  intro ks o hks hstored pre
  induction pre generalizing o ks with
  | nil =>
    intro k post hsplit
    exact C14_history useLb M cands hlb o k (hks k (by rw [hsplit]; simp)) hstored
  | cons p ps ih =>
    intro k post hsplit
    simp only [List.foldl_cons]
    have hp : 1 ≤ p := hks p (by rw [hsplit]; simp)
    exact ih (ps ++ k :: post) _ (fun k' hk' => hks k' (by rw [hsplit]; simp; right; simpa using hk'))
      (C14_state_preserved useLb M cands hlb o p hp hstored) k post rfl

/- non-vacuity: ties, a bound, and a candidate skipped by its lower bound -/
example : (knnScan 2 true (Cost.fin 10) [(0, .fin 4, .fin 1), (1, .fin 2, .fin 2), (2, .fin 12, .fin 11),
    (3, .fin 2, .fin 0), (4, .fin 3, .fin 3)]).best = [(.fin 2, 3), (.fin 2, 1)] := by decide

/-! ### end to end with C09: the hypothesis `lb ≤ dist` discharged for DTW grids -/

/-- the candidate list built from the DTW grids (query vs candidate `i`) and their row-wise lower bounds:
distance = the optimum over admissible paths (`dtwSpec`, C01), lower bound = the sum of the row bounds
(`lbUpTo`, the shape of LB_Keogh, C09) -/
def candsOfGrids (gs : List (Grid α × (Nat → α))) : List (Nat × α × α) :=
  gs.zipIdx.map fun p => (p.2, dtwSpec p.1.1, lbUpTo p.1.2 (p.1.1.r - 1))

/-- **Exact k-NN search over DTW distances with Keogh-type lower bounds**: for candidate grids with
non-negative costs and penalty, non-degenerate psi, no relaxation on the query side, and row bounds
that are below every admissible point cost of their row, the scan returns the k smallest qualifying DTW
optima — the lower-bound hypothesis of `C14_exact` is a theorem here (`lb_le_dtw`). -/
theorem C14_end_to_end (k : Nat) (hk : 1 ≤ k) (useLb : Bool) (M : α) (gs : List (Grid α × (Nat → α)))
    (hg : ∀ p ∈ gs, p.1.NonNeg ∧ p.1.NonDegenerate ∧ p.1.psi1b = 0 ∧ p.1.psi1e = 0 ∧
      ∀ i j, p.1.ok i j = true → p.2 i ≤ p.1.cost i j) :
    KSpec k M (candsOfGrids gs) (knnScan k useLb M (candsOfGrids gs)).best := by
  apply C14_exact k hk useLb M
  intro c hc
  simp only [candsOfGrids, List.mem_map] at hc
  obtain ⟨p, hp, rfl⟩ := hc
  have hmem : p.1 ∈ gs := by
    have := List.mem_zipIdx hp
    exact (List.mem_iff_getElem.mpr ⟨p.2 - 0, by omega, by simpa using this.2.2.symm⟩)
  obtain ⟨h1, h2, h3, h4, h5⟩ := hg p.1 hmem
  exact lb_le_dtw p.1.1 h1 h2 p.1.2 h5 h3 h4

/-! ### end to end with C03: the thresholded distance call -/

/-- what `distance(query, series, max_dist=b)` returns in the search loop, with the kernel of C01/C03:
`max_dist = 0` means "no bound" (`if not max_dist`), any other bound is handed to the early-abandoning
kernel, whose result is then compared with the bound once more -/
def callDist (g : Grid α) (b : α) : α :=
  if b ≤ 0 then distModel g ⊤ none true else distModel g b none true

/-- **The scan never sees a difference between the early-abandoning kernel and the true distance**: the
test `dist ≤ bound ∧ dist ≠ ∞` made by the search has the same outcome on the kernel's result as on the
optimum over admissible paths, and when it succeeds the kernel's result *is* that optimum (C03). -/
theorem C14_threshold_call (g : Grid α) (h : g.NonNeg) (b : α) :
    ((callDist g b ≤ b ∧ callDist g b ≠ ⊤) ↔ (dtwSpec g ≤ b ∧ dtwSpec g ≠ ⊤)) ∧
    (dtwSpec g ≤ b → callDist g b = dtwSpec g) := by
  unfold callDist
  by_cases hb : b ≤ 0
  · simp only [hb, if_true]
    have : distModel g ⊤ none true = dtwSpec g := by
      rw [distModel_eq_spec g h none true]; rfl
    rw [this]
    exact ⟨Iff.rfl, fun _ => rfl⟩
  · simp only [hb, if_false]
    by_cases hle : dtwSpec g ≤ b
    · rw [distModel_eq_of_le g h b true hle]
      exact ⟨Iff.rfl, fun _ => rfl⟩
    · rw [distModel_top_of_gt g h b hb hle]
      refine ⟨?_, fun h' => absurd h' hle⟩
      constructor
      · intro ⟨_, hne⟩; exact absurd rfl hne
      · intro ⟨hle', _⟩; exact absurd hle' hle

/-! ### `k = None`: the full ranking -/

theorem insertSorted_perm (x : α × Nat) (l : List (α × Nat)) : (insertSorted x l).Perm (x :: l) := by
  induction l with
  | nil => simp [insertSorted]
  | cons y ys ih =>
    unfold insertSorted
    split
    · exact List.Perm.refl _
    · exact (List.Perm.cons y ih).trans (List.Perm.swap x y ys)

/-- **`kbest_matches(None)`**: every candidate is reported exactly once, in ascending order of the reported
value; the reported value of a qualifying candidate (finite, within the user bound) is its true distance,
of any other candidate infinity — whether or not the lower-bound skip is used. -/
theorem C14_all (useLb : Bool) (M : α) (cands : List (Nat × α × α)) (hlb : ∀ c ∈ cands, c.2.2 ≤ c.2.1) :
    (knnAll useLb M cands).Pairwise (fun a b => a.1 ≤ b.1) ∧
    (knnAll useLb M cands).Perm (cands.map fun c => (allVal useLb M c, c.1)) ∧
    ∀ c ∈ cands, allVal useLb M c = if c.2.1 ≤ M then c.2.1 else ⊤ := by
  refine ⟨?_, ?_, ?_⟩
  · unfold knnAll
    induction cands.map (fun c => (allVal useLb M c, c.1)) with
    | nil => simp
    | cons x xs ih => simp only [List.foldr_cons]; exact insertSorted_sorted x _ ih
  · unfold knnAll
    induction cands.map (fun c => (allVal useLb M c, c.1)) with
    | nil => simp
    | cons x xs ih =>
      simp only [List.foldr_cons]
      exact (insertSorted_perm x _).trans (List.Perm.cons x ih)
  · intro c hc
    unfold allVal
    split
    · rename_i hskip
      -- skipped by the lower bound: lb > M, hence dist > M
      have : ¬ c.2.1 ≤ M := fun h => hskip.2 (le_trans (hlb c hc) h)
      simp [this]
    · rfl

/-- after a `None` query nothing is re-used: the next numeric query is answered like on a fresh object -/
theorem C14_after_all (useLb : Bool) (M : α) (cands : List (Nat × α × α)) (o : SSObj α) (k : Nat) :
    (ssQuery useLb M cands (ssQueryAll useLb M cands o).1 k).2 = (knnScan k useLb M cands).best := by
  simp [ssQueryAll, ssQuery]


end Dtai
