/-
Props/C19.lean — C19: distance-to-similarity and squashing are monotone, bounded, faithful.

Model: `Model/Similarity.lean` instantiated with the real numbers (`Real.exp`, `Real.log`, `Real.sqrt`,
`x ^ y`). The theorems are about the documented formulas and about the parameters derived from the data
(maximum, minimum + maximum, the `cover_quantile` scales); the driver runs the same definitions on IEEE
doubles and is compared with the implementation.
-/
import Mathlib.Analysis.Complex.Exponential
import Mathlib.Analysis.SpecialFunctions.Log.Basic
import Mathlib.Analysis.SpecialFunctions.Pow.Real
import Mathlib.Analysis.Real.Sqrt
import Mathlib.Tactic
import Dtaiverif.Model.Similarity

namespace Dtai

noncomputable instance : HasExp ℝ := ⟨Real.exp, Real.log, Real.sqrt, fun b x => b ^ x⟩

/-! ### distance → similarity: non-increasing, zero ↦ maximal similarity, range -/

theorem C19_exponential (r : ℝ) (hr : 0 < r) :
    (∀ d e : ℝ, d ≤ e → simExponential r e ≤ simExponential r d) ∧ simExponential r 0 = 1 ∧
    ∀ d : ℝ, 0 ≤ d → 0 ≤ simExponential r d ∧ simExponential r d ≤ 1 := by
  refine ⟨?_, by simp [simExponential, HasExp.exp], ?_⟩
  · intro d e h
    simp only [simExponential, HasExp.exp]
    apply Real.exp_le_exp.mpr
    rw [neg_div, neg_div]
    exact neg_le_neg (div_le_div_of_nonneg_right h (le_of_lt hr))
  · intro d hd
    simp only [simExponential, HasExp.exp]
    refine ⟨le_of_lt (Real.exp_pos _), Real.exp_le_one_iff.mpr ?_⟩
    rw [neg_div]
    exact neg_nonpos.mpr (div_nonneg hd (le_of_lt hr))

theorem C19_gaussian (r : ℝ) (hr : r ≠ 0) :
    (∀ d e : ℝ, 0 ≤ d → d ≤ e → simGaussian r e ≤ simGaussian r d) ∧ simGaussian r 0 = 1 ∧
    ∀ d : ℝ, 0 ≤ simGaussian r d ∧ simGaussian r d ≤ 1 := by
  have hr2 : 0 < r * r := mul_self_pos.mpr hr
  refine ⟨?_, by simp [simGaussian, HasExp.exp], ?_⟩
  · intro d e hd h
    simp only [simGaussian, HasExp.exp]
    apply Real.exp_le_exp.mpr
    rw [neg_div, neg_div]
    exact neg_le_neg (div_le_div_of_nonneg_right (mul_self_le_mul_self hd h) (le_of_lt hr2))
  · intro d
    simp only [simGaussian, HasExp.exp]
    refine ⟨le_of_lt (Real.exp_pos _), Real.exp_le_one_iff.mpr ?_⟩
    rw [neg_div]
    exact neg_nonpos.mpr (div_nonneg (mul_self_nonneg d) (le_of_lt hr2))

theorem C19_reciprocal (r a : ℝ) (hr : 0 < r) (ha : 0 ≤ a) :
    (∀ d e : ℝ, 0 ≤ d → d ≤ e → simReciprocal r a e ≤ simReciprocal r a d) ∧ simReciprocal r a 0 = 1 / r ∧
    ∀ d : ℝ, 0 ≤ d → 0 ≤ simReciprocal r a d ∧ simReciprocal r a d ≤ 1 / r := by
  refine ⟨?_, by simp [simReciprocal], ?_⟩
  · intro d e hd h
    simp only [simReciprocal]
    have h1 : 0 < r + d * a := by have := mul_nonneg hd ha; linarith
    exact one_div_le_one_div_of_le h1 (by have := mul_le_mul_of_nonneg_right h ha; linarith)
  · intro d hd
    simp only [simReciprocal]
    have h0 := mul_nonneg hd ha
    have h1 : 0 < r + d * a := by linarith
    exact ⟨le_of_lt (one_div_pos.mpr h1), one_div_le_one_div_of_le hr (by linarith)⟩

/-- default scale `r = 1`, `a = 1`: values in `[0, 1]` -/
theorem C19_reciprocal_default (d : ℝ) (hd : 0 ≤ d) :
    0 ≤ simReciprocal 1 1 d ∧ simReciprocal 1 1 d ≤ 1 := by
  have := (C19_reciprocal 1 1 one_pos zero_le_one).2.2 d hd
  simpa using this

theorem C19_reverse (r : ℝ) (hr : 0 < r) :
    (∀ d e : ℝ, d ≤ e → simReverse r e ≤ simReverse r d) ∧ simReverse r 0 = 1 := by
  refine ⟨?_, by simp [simReverse, ne_of_gt hr]⟩
  intro d e h
  simp only [simReverse]
  exact div_le_div_of_nonneg_right (by linarith) (le_of_lt hr)

/-- default scale of the reverse transform `r = min + max`: every value of the data maps into `[0, 1]` -/
theorem C19_reverse_default (mn mx d : ℝ) (hmn : 0 ≤ mn) (hpos : 0 < mn + mx) (h1 : mn ≤ d) (h2 : d ≤ mx) :
    0 ≤ simReverse (mn + mx) d ∧ simReverse (mn + mx) d ≤ 1 := by
  simp only [simReverse]
  constructor
  · exact div_nonneg (by linarith) (le_of_lt hpos)
  · rw [div_le_one hpos]; linarith

/-! ### the derived scales are positive, so the laws above apply to them -/

theorem listMax_ge (l : List ℝ) : ∀ x ∈ l, x ≤ listMax l := by
  unfold listMax
  suffices h : ∀ (l : List ℝ) (m : ℝ), m ≤ l.foldl (fun m x => if m < x then x else m) m ∧
      ∀ x ∈ l, x ≤ l.foldl (fun m x => if m < x then x else m) m by
    intro x hx
    cases l with
    | nil => cases hx
    | cons a rest =>
      simp only [List.headD_cons, List.foldl_cons, lt_self_iff_false, if_false]
      rcases List.mem_cons.mp hx with rfl | hx'
      · exact (h rest x).1
      · exact (h rest a).2 x hx'
  intro l
  induction l with
  | nil => intro m; simp
  | cons a rest ih =>
    intro m
    simp only [List.foldl_cons]
    obtain ⟨h1, h2⟩ := ih (if m < a then a else m)
    refine ⟨le_trans ?_ h1, ?_⟩
    · split <;> [exact le_of_lt ‹_›; exact le_rfl]
    · intro x hx
      rcases List.mem_cons.mp hx with rfl | hx'
      · refine le_trans ?_ h1
        split <;> [exact le_rfl; exact not_lt.mp ‹_›]
      · exact h2 x hx'

/-- default scale of the exponential / Gaussian transform: positive as soon as some distance is -/
theorem C19_default_scale_pos (l : List ℝ) (h : ∃ x ∈ l, 0 < x) : 0 < defaultScaleMax l := by
  obtain ⟨x, hx, hpos⟩ := h
  exact lt_of_lt_of_le hpos (listMax_ge l x hx)

/-- the guard on derived scales: a zero scale becomes 1, every other scale is kept; in particular a
non-negative derived scale is positive after the guard -/
theorem C19_guard (r : ℝ) : (r ≠ 0 → guardScale r = r) ∧ (r = 0 → guardScale r = 1) ∧ (0 ≤ r → 0 < guardScale r) := by
  refine ⟨?_, ?_, ?_⟩
  · intro h
    rcases lt_or_gt_of_ne h with h' | h'
    · simp [guardScale, h', not_lt.mpr (le_of_lt h')]
    · simp [guardScale, h']
  · intro h; simp [guardScale, h]
  · intro h
    rcases eq_or_lt_of_le h with h' | h'
    · simp [guardScale, ← h']
    · simp [guardScale, h']

/-- `cover_quantile`: for a positive quantile `Q` and a target similarity in `(0, 1)` the derived scales
are positive, and the exponential transform then reaches exactly the target at `Q` -/
theorem C19_cover_scales (Q t : ℝ) (hQ : 0 < Q) (ht0 : 0 < t) (ht1 : t < 1) :
    0 < coverExponential Q t ∧ 0 < coverGaussian Q t ∧ simExponential (coverExponential Q t) Q = t := by
  have hlog : Real.log t < 0 := Real.log_neg ht0 ht1
  have h1 : 0 < coverExponential Q t := by
    simp only [coverExponential, HasExp.log]
    exact div_pos_of_neg_of_neg (by linarith) hlog
  refine ⟨h1, ?_, ?_⟩
  · simp only [coverGaussian, HasExp.sqrt, HasExp.log]
    apply Real.sqrt_pos.mpr
    exact div_pos_of_neg_of_neg (by have := mul_pos hQ hQ; linarith) hlog
  · simp only [simExponential, coverExponential, HasExp.exp, HasExp.log]
    have : -Q / (-Q / Real.log t) = Real.log t := by
      field_simp
    rw [this, Real.exp_log ht0]

/-! ### squashing: non-decreasing, into [0, 1] -/

theorem C19_logistic (r x0 : ℝ) (hr : 0 < r) :
    (∀ x y : ℝ, x ≤ y → sqLogistic r x0 x ≤ sqLogistic r x0 y) ∧
    ∀ x : ℝ, 0 ≤ sqLogistic r x0 x ∧ sqLogistic r x0 x ≤ 1 := by
  refine ⟨?_, ?_⟩
  · intro x y h
    simp only [sqLogistic, HasExp.exp]
    apply one_div_le_one_div_of_le (by have := Real.exp_pos (-(y - x0) / r); linarith)
    have : Real.exp (-(y - x0) / r) ≤ Real.exp (-(x - x0) / r) := by
      apply Real.exp_le_exp.mpr
      exact div_le_div_of_nonneg_right (by linarith) (le_of_lt hr)
    linarith
  · intro x
    simp only [sqLogistic, HasExp.exp]
    have hp := Real.exp_pos (-(x - x0) / r)
    exact ⟨le_of_lt (one_div_pos.mpr (by linarith)), by rw [div_le_one (by linarith)]; linarith⟩

theorem C19_logistic_base (b r x0 : ℝ) (hb : 1 ≤ b) (hr : 0 < r) :
    (∀ x y : ℝ, x ≤ y → sqLogisticBase b r x0 x ≤ sqLogisticBase b r x0 y) ∧
    ∀ x : ℝ, 0 ≤ sqLogisticBase b r x0 x ∧ sqLogisticBase b r x0 x ≤ 1 := by
  have hb0 : 0 < b := lt_of_lt_of_le one_pos hb
  refine ⟨?_, ?_⟩
  · intro x y h
    simp only [sqLogisticBase, HasExp.pow]
    apply one_div_le_one_div_of_le (by have := Real.rpow_pos_of_pos hb0 (-(y - x0) / r); linarith)
    have : b ^ (-(y - x0) / r) ≤ b ^ (-(x - x0) / r) :=
      Real.rpow_le_rpow_of_exponent_le hb (div_le_div_of_nonneg_right (by linarith) (le_of_lt hr))
    linarith
  · intro x
    simp only [sqLogisticBase, HasExp.pow]
    have hp := Real.rpow_pos_of_pos hb0 (-(x - x0) / r)
    exact ⟨le_of_lt (one_div_pos.mpr (by linarith)), by rw [div_le_one (by linarith)]; linarith⟩

/-- the logistic squash takes the value one half exactly at its midpoint, whatever the slope and the base (for an
input that is, e.g., a one-element or a constant array the midpoint — the mean — is an entry) -/
theorem C19_logistic_midpoint (b r x0 : ℝ) (hb : 0 < b) :
    sqLogistic r x0 x0 = 1 / 2 ∧ sqLogisticBase b r x0 x0 = 1 / 2 := by
  simp only [sqLogistic, sqLogisticBase, HasExp.exp, HasExp.pow, sub_self, neg_zero, zero_div, Real.exp_zero,
    Real.rpow_zero]
  norm_num

theorem C19_sq_exponential (r : ℝ) (hr : 0 < r) :
    (∀ x y : ℝ, x ≤ y → sqExponential r x ≤ sqExponential r y) ∧
    ∀ x : ℝ, 0 ≤ x → 0 ≤ sqExponential r x ∧ sqExponential r x ≤ 1 := by
  refine ⟨?_, ?_⟩
  · intro x y h
    simp only [sqExponential, HasExp.exp]
    have : Real.exp (-y / r) ≤ Real.exp (-x / r) :=
      Real.exp_le_exp.mpr (div_le_div_of_nonneg_right (by linarith) (le_of_lt hr))
    linarith
  · intro x hx
    simp only [sqExponential, HasExp.exp]
    have h1 : Real.exp (-x / r) ≤ 1 := Real.exp_le_one_iff.mpr (by rw [neg_div]; exact neg_nonpos.mpr (div_nonneg hx (le_of_lt hr)))
    have h2 := Real.exp_pos (-x / r)
    constructor <;> linarith

theorem C19_sq_gaussian (r : ℝ) (hr : r ≠ 0) :
    (∀ x y : ℝ, 0 ≤ x → x ≤ y → sqGaussian r x ≤ sqGaussian r y) ∧
    ∀ x : ℝ, 0 ≤ sqGaussian r x ∧ sqGaussian r x ≤ 1 := by
  have hr2 : 0 < r * r := mul_self_pos.mpr hr
  refine ⟨?_, ?_⟩
  · intro x y hx h
    simp only [sqGaussian, HasExp.exp]
    have : Real.exp (-(y * y) / (r * r)) ≤ Real.exp (-(x * x) / (r * r)) := by
      apply Real.exp_le_exp.mpr
      rw [neg_div, neg_div]
      exact neg_le_neg (div_le_div_of_nonneg_right (mul_self_le_mul_self hx h) (le_of_lt hr2))
    linarith
  · intro x
    simp only [sqGaussian, HasExp.exp]
    have h1 : Real.exp (-(x * x) / (r * r)) ≤ 1 :=
      Real.exp_le_one_iff.mpr (by rw [neg_div]; exact neg_nonpos.mpr (div_nonneg (mul_self_nonneg x) (le_of_lt hr2)))
    have h2 := Real.exp_pos (-(x * x) / (r * r))
    constructor <;> linarith

/-- `keep_sign` for a non-decreasing squashing function with values in `[0, 1]`: the result is still
non-decreasing, non-negative inputs map into `[0, 1]` and negative inputs stay non-positive -/
theorem C19_keep_sign (f : ℝ → ℝ) (hmono : ∀ x y, 0 ≤ x → x ≤ y → f x ≤ f y) (hrange : ∀ x, 0 ≤ x → 0 ≤ f x ∧ f x ≤ 1) :
    (∀ x y : ℝ, x ≤ y → keepSign f x ≤ keepSign f y) ∧
    (∀ x : ℝ, 0 ≤ x → 0 ≤ keepSign f x ∧ keepSign f x ≤ 1) ∧ (∀ x : ℝ, x < 0 → keepSign f x ≤ 0) := by
  have hval : ∀ x : ℝ, (0 < x → keepSign f x = f x - f 0) ∧ (x < 0 → keepSign f x = -(f (-x) - f 0)) ∧
      (x = 0 → keepSign f x = 0) := by
    intro x
    refine ⟨fun h => by simp [keepSign, h], fun h => by simp [keepSign, h, not_lt.mpr (le_of_lt h)], fun h => by simp [keepSign, h]⟩
  have hnn : ∀ x : ℝ, 0 ≤ x → 0 ≤ f x - f 0 := fun x hx => by have := hmono 0 x le_rfl hx; linarith
  refine ⟨?_, ?_, ?_⟩
  · intro x y h
    rcases lt_trichotomy x 0 with hx | hx | hx <;> rcases lt_trichotomy y 0 with hy | hy | hy
    · rw [(hval x).2.1 hx, (hval y).2.1 hy]
      have := hmono (-y) (-x) (by linarith) (by linarith); linarith
    · rw [(hval x).2.1 hx, (hval y).2.2 hy]
      have := hnn (-x) (by linarith); linarith
    · rw [(hval x).2.1 hx, (hval y).1 hy]
      have := hnn (-x) (by linarith); have := hnn y (by linarith); linarith
    · linarith
    · rw [(hval x).2.2 hx, (hval y).2.2 hy]
    · rw [(hval x).2.2 hx, (hval y).1 hy]; exact hnn y (le_of_lt hy)
    · linarith
    · linarith
    · rw [(hval x).1 hx, (hval y).1 hy]
      have := hmono x y (le_of_lt hx) h; linarith
  · intro x hx
    rcases eq_or_lt_of_le hx with h0 | hpos
    · rw [(hval x).2.2 h0.symm]; exact ⟨le_rfl, zero_le_one⟩
    · rw [(hval x).1 hpos]
      have h1 := hrange x hx; have h2 := hrange 0 le_rfl
      exact ⟨hnn x hx, by linarith⟩
  · intro x hx
    rw [(hval x).2.1 hx]
    have := hnn (-x) (by linarith); linarith

/-- **Faithful / reproducible**: the transforms are functions of the data and the reported parameters
only, so re-applying them with the reported parameters reproduces the output — in the model this is the
definitional statement that a derived parameter is used exactly like an explicit one -/
theorem C19_round_trip (l : List ℝ) :
    l.map (simExponential (defaultScaleMax l)) = l.map (fun d => Real.exp (-d / listMax l)) ∧
    l.map (simReverse (defaultScaleReverse l)) = l.map (fun d => (listMin l + listMax l - d) / (listMin l + listMax l)) :=
  ⟨rfl, rfl⟩

end Dtai
