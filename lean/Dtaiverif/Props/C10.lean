/-
Props/C10.lean — C10: identity, non-negativity, symmetry and option monotonicity of DTW.
All statements are about `dtwSpec`, which both engines return (C01_distance_eq_spec, C02_distC_eq_spec).
-/
import Dtaiverif.Proofs.Laws
import Dtaiverif.Proofs.CostInst

namespace Dtai
variable {α : Type} [LinearOrderedAddCommMonoidWithTop α]

theorem C10_nonneg (g : Grid α) (h : g.NonNeg) : 0 ≤ dtwSpec g := dtwSpec_nonneg g h

/-- swapping the two series together with the per-series psi entries leaves the distance unchanged
(this is what makes mirroring the upper triangle of a distance matrix valid) -/
theorem C10_symm (g : Grid α) : dtwSpec g.transpose = dtwSpec g := dtwSpec_transpose g

/-- general form of all option-monotonicity laws -/
theorem C10_relax (g' g : Grid α) (h : Relaxes g' g) (h1 : g.psi1e ≤ g'.psi1e) (h2 : g.psi2e ≤ g'.psi2e) :
    dtwSpec g' ≤ dtwSpec g := dtwSpec_mono g' g h h1 h2

theorem ok_window_mono (g : Grid α) (w' : Nat) (hw : g.window ≤ w') (i j : Nat)
    (h : g.ok i j = true) : ({ g with window := w' } : Grid α).ok i j = true := by
  unfold Grid.ok Grid.inBand Grid.jStart Grid.jEnd at *
  simp only [Bool.and_eq_true, decide_eq_true_eq] at *
  refine ⟨⟨by omega, by omega⟩, h.2⟩

/-- a larger window never increases the distance -/
theorem C10_window_mono (g : Grid α) (w' : Nat) (hw : g.window ≤ w') :
    dtwSpec ({ g with window := w' } : Grid α) ≤ dtwSpec g :=
  dtwSpec_mono _ g ⟨rfl, rfl, fun _ _ => rfl, ok_window_mono g w' hw, fun _ => le_rfl, fun _ => le_rfl, le_rfl⟩
    le_rfl le_rfl

/-- more psi-relaxation never increases the distance -/
theorem C10_psi_mono (g : Grid α) (p1b p1e p2b p2e : Nat)
    (h1b : g.psi1b ≤ p1b) (h1e : g.psi1e ≤ p1e) (h2b : g.psi2b ≤ p2b) (h2e : g.psi2e ≤ p2e) :
    dtwSpec ({ g with psi1b := p1b, psi1e := p1e, psi2b := p2b, psi2e := p2e } : Grid α) ≤ dtwSpec g := by
  refine dtwSpec_mono ({ g with psi1b := p1b, psi1e := p1e, psi2b := p2b, psi2e := p2e } : Grid α) g ?_ h1e h2e
  refine ⟨rfl, rfl, fun _ _ => rfl, fun _ _ h => h, ?_, ?_, le_rfl⟩
  · intro J; unfold Grid.border0; dsimp only
    split_ifs <;> first | exact le_rfl | exact le_top | (exfalso; omega)
  · intro I; unfold Grid.borderCol; dsimp only
    split_ifs <;> first | exact le_rfl | exact le_top | (exfalso; omega)

/-- relaxing max_step never increases the distance -/
theorem C10_maxstep_mono (g : Grid α) (m' : α) (hm : g.maxStep ≤ m') :
    dtwSpec ({ g with maxStep := m' } : Grid α) ≤ dtwSpec g := by
  refine dtwSpec_mono ({ g with maxStep := m' } : Grid α) g ?_ le_rfl le_rfl
  refine ⟨rfl, rfl, fun _ _ => rfl, ?_, fun _ => le_rfl, fun _ => le_rfl, le_rfl⟩
  intro i j h
  unfold Grid.ok at *
  simp only [Bool.and_eq_true, decide_eq_true_eq] at *
  exact ⟨h.1, le_trans h.2 hm⟩

/-- a larger penalty never decreases the distance -/
theorem C10_penalty_mono (g : Grid α) (p' : α) (hp : p' ≤ g.pen) :
    dtwSpec ({ g with pen := p' } : Grid α) ≤ dtwSpec g :=
  dtwSpec_mono _ g ⟨rfl, rfl, fun _ _ => rfl, fun _ _ h => h, fun _ => le_rfl, fun _ => le_rfl, hp⟩ le_rfl le_rfl

/-- the distance of a series to itself is zero -/
theorem C10_self_zero (g : Grid α) (h : g.NonNeg) (hr : 1 ≤ g.r) (heq : g.r = g.c) (hw : 1 ≤ g.window)
    (hms : g.maxStep = ⊤) (hself : ∀ i, g.cost i i = 0) : dtwSpec g = 0 := by
  apply le_antisymm _ (dtwSpec_nonneg g h)
  have := dtw_le_ed g h hr (by omega) hw hms (Or.inr heq)
  have hz : edSum g.cost g.r g.c = 0 := by
    rw [edSum_eq]
    have : ∀ (l : List Nat), sumList (l.map fun k => g.cost (edCell g.r g.c k).1 (edCell g.r g.c k).2) = 0 := by
      intro l
      induction l with
      | nil => rfl
      | cons k ks ih =>
        simp only [List.map_cons, sumList, List.foldr_cons] at ih ⊢
        rw [ih]
        have : (edCell g.r g.c k).1 = (edCell g.r g.c k).2 := by simp [edCell, heq]
        rw [this, hself, add_zero]
    exact this _
  rw [hz] at this; exact this

/-- with window 1 on equal-length series (no psi, no max_step) DTW equals the Euclidean distance -/
theorem C10_window1_eq_ed (g : Grid α) (h : g.NonNeg) (hr : 1 ≤ g.r) (heq : g.r = g.c) (hw : g.window = 1)
    (hms : g.maxStep = ⊤) (hpsi : g.psi1b = 0 ∧ g.psi1e = 0 ∧ g.psi2b = 0 ∧ g.psi2e = 0) :
    dtwSpec g = edSum g.cost g.r g.c := by
  apply le_antisymm (dtw_le_ed g h hr (by omega) (by omega) hms (Or.inr heq))
  have hn : g.NonDegenerate := ⟨hr, by omega, by omega, by omega⟩
  have hlb := lb_le_dtw g h hn (fun i => g.cost i i) (by
      intro i j hok
      have hb := ok_inBand g hok
      unfold Grid.inBand Grid.jStart Grid.jEnd at hb
      simp only [Bool.and_eq_true, decide_eq_true_eq] at hb
      have : j = i := by omega
      rw [this]) hpsi.1 hpsi.2.1
  refine le_trans ?_ hlb
  rw [edSum_eq, show max g.r g.c = (g.r - 1) + 1 by omega]
  have key : ∀ n, n < g.r →
      sumList ((List.range (n+1)).map fun k => g.cost (edCell g.r g.c k).1 (edCell g.r g.c k).2)
        = lbUpTo (fun i => g.cost i i) n := by
    intro n
    induction n with
    | zero => intro _; simp [sumList, lbUpTo, edCell]
    | succ n ih =>
      intro hn'
      rw [List.range_succ, List.map_append, lbUpTo, ← ih (by omega)]
      have hsum : ∀ (l : List α) (x : α), sumList (l ++ [x]) = x + sumList l := by
        intro l x
        induction l with
        | nil => simp [sumList]
        | cons y ys ihl =>
          simp only [List.cons_append, sumList, List.foldr_cons] at ihl ⊢
          rw [ihl]; exact add_left_comm _ _ _
      simp only [List.map_cons, List.map_nil]
      rw [hsum]
      have : edCell g.r g.c (n+1) = (n+1, n+1) := by simp only [edCell]; ext <;> simp <;> omega
      rw [this]
  rw [key (g.r - 1) (by omega)]

/- non-vacuity: window monotonicity on a concrete grid -/
def exGrid10 : Grid Cost :=
  { r := 4, c := 4, window := 1, pen := 0, maxStep := .inf, psi1b := 0, psi1e := 0, psi2b := 0, psi2e := 0,
    cost := fun i j => .fin (if i = j then 3 else if j = i + 1 then 0 else 2) }
example : dtwSpec exGrid10 = .fin 12 ∧ dtwSpec { exGrid10 with window := 2 } = .fin 6 := by decide +kernel

end Dtai
