/-
Props/C11.lean — C11: multivariate DTW is DTW with vector point distances.
The kernels never look at series values, only at `cost i j` (Model/Dtw.lean); the multivariate
routines are the same kernels at the cost function `sqDist ndim` over the flattened row-major layout
`s[i*ndim + d]`.  Hence every theorem of C01–C05, C09, C10 holds verbatim for any `ndim`.
-/
import Dtaiverif.Proofs.Bounds
import Dtaiverif.Proofs.CostInst
import Dtaiverif.Model.Settings

namespace Dtai

/-- flattened addressing of point `i`, coordinate `d` -/
theorem C11_flat_addressing (s : Array Int) (ndim i d : Nat) : pt s ndim i d = s.getD (i * ndim + d) 0 := rfl

/-- for one dimension the vector point distance is the univariate squared difference of the
flattened series -/
theorem C11_d1_cost (s1 s2 : Array Int) (i j : Nat) :
    sqDist 1 s1 s2 i j = (s1.getD i 0 - s2.getD j 0).natAbs ^ 2 := by
  simp [sqDist, pt]

/-- hence for `ndim = 1` the multivariate grid *is* the univariate grid: distance, cost matrix,
paths and distance matrices coincide -/
theorem C11_d1_grid (s : RawSettings) (r c : Nat) (s1 s2 : Array Int) (h1 : s.ndim = 1) (hs : s.inner = .sq) :
    (s.toGridPy r c s1 s2).cost = fun i j => Cost.fin (s.scale * (s1.getD i 0 - s2.getD j 0).natAbs ^ 2) := by
  funext i j
  simp [RawSettings.toGridPy, RawSettings.costFn, hs, h1, C11_d1_cost]

variable {α : Type} [LinearOrderedAddCommMonoidWithTop α]

/-- the multivariate Euclidean distance is an upper bound of multivariate DTW (instance of C09 at the
vector cost) and may therefore be used for pruning -/
theorem C11_ub_ndim (g : Grid α) (h : g.NonNeg) (hr : 1 ≤ g.r) (hc : 1 ≤ g.c) (hw : 1 ≤ g.window)
    (hms : g.maxStep = ⊤) (hpen : g.pen = 0 ∨ g.r = g.c) (chk : Bool) :
    dtwSpec g ≤ edSum g.cost g.r g.c ∧ distModel g (edSum g.cost g.r g.c) none chk = dtwSpec g :=
  ⟨dtw_le_ed g h hr hc hw hms hpen, distModel_eq_of_le g h _ chk (dtw_le_ed g h hr hc hw hms hpen)⟩

/-- the multivariate distance is the optimum over admissible paths for the vector cost -/
theorem C11_generic (g : Grid α) (h : g.NonNeg) (mld : Option Nat) (chk : Bool) :
    distModel g ⊤ mld chk = distSpec g mld := distModel_eq_spec g h mld chk

example : sqDist 3 #[1, 2, 3, 4, 5, 6] #[0, 0, 0, 4, 4, 4] 1 1 = 0 + 1 + 4 := by decide

end Dtai
