/-
Props/C15.lean — C15: hierarchical clustering is a partition built from monotone, bounded merges.

Model: `Model/Hier.lean`.  `HReach` contains every state `Hierarchical.fit` can be in after any number of
loop iterations, for ANY choice among tied minimal entries (the `order_hook`) and ANY decision of the
`merge_hook` to swap the two prototypes; the deterministic `hierRun` (first minimal entry in row-major
order, no swap: the hook-free behaviour) is proved to stay inside it and is what the driver executes.
The distance matrix is an arbitrary function into a linearly ordered type with top (ties, duplicates
and infinite entries included); `maxDist` is arbitrary.
-/
import Dtaiverif.Proofs.Hier
import Dtaiverif.Proofs.Matrix
import Dtaiverif.Proofs.CostInst

namespace Dtai
variable {α : Type} [LinearOrderedAddCommMonoidWithTop α]

/-- **Partition keyed by prototypes.** `rep` maps every series to the prototype of its cluster; the
clusters are the fibres of `rep` over the live (non-deleted) prototypes. Being a function, `rep` puts
every series in exactly one cluster; the key is live, below `n`, and a member of its own cluster; the
live prototypes are exactly the fixed points. -/
theorem C15_partition (n : Nat) (maxDist : α) (d0 : Nat → Nat → α) (st : HState α)
    (h : HReach n maxDist d0 st) :
    (∀ x, x < n → st.rep x < n ∧ st.rep x ∉ st.deleted ∧ st.rep (st.rep x) = st.rep x) ∧
    (∀ p, p ∉ st.deleted ↔ st.rep p = p) := by
  have hi := reach_hinv n maxDist d0 st h
  refine ⟨fun x hx => ⟨hi.repLt x hx, ?_, hi.repIdem x⟩, ?_⟩
  · intro hdel
    exact (hi.delIff _).mp hdel (hi.repIdem x)
  · intro p
    constructor
    · intro hp; by_contra hne; exact hp ((hi.delIff p).mpr hne)
    · intro hp hdel; exact (hi.delIff p).mp hdel hp

/-- **Monotone, bounded merges.** The recorded merge distances (most recent first) are non-decreasing in
time, each is at most `maxDist`, the number of merges equals the number of deleted prototypes and is
at most `n - 1`. -/
theorem C15_monotone_bounded (n : Nat) (hn : 1 ≤ n) (maxDist : α) (d0 : Nat → Nat → α) (st : HState α)
    (h : HReach n maxDist d0 st) :
    st.merges.Pairwise (fun later earlier => earlier.2.2 ≤ later.2.2) ∧
    (∀ m ∈ st.merges, m.2.2 ≤ maxDist) ∧ st.merges.length + 1 ≤ n := by
  have hi := reach_hinv n maxDist d0 st h
  refine ⟨hi.sorted, hi.bounded, ?_⟩
  rw [← hi.count]
  clear hi
  induction h with
  | init => simpa [hierInit] using hn
  | step st r c swap hre hrc hcn hle hfin hmin ih =>
    have hi := reach_hinv n maxDist d0 st hre
    have hr : r ∉ st.deleted := fun hdel => hfin (hi.blanked r c (Or.inl hdel))
    have hc : c ∉ st.deleted := fun hdel => hfin (hi.blanked r c (Or.inr hdel))
    have := two_live n st.deleted hi.nodup hi.delLt r c (by omega) hcn (by omega) hr hc
    cases swap <;> simp [HState.merge] <;> omega

/-- every merge joins two live prototypes at their ORIGINAL distance: the working matrix never changes
an entry between live prototypes (blanking only touches the merged one) -/
theorem C15_live_entries_original (n : Nat) (maxDist : α) (d0 : Nat → Nat → α) (st : HState α)
    (h : HReach n maxDist d0 st) (r c : Nat) (hrc : r < c) (hcn : c < n)
    (hr : r ∉ st.deleted) (hc : c ∉ st.deleted) : st.dist r c = d0 r c := by
  have hi := reach_hinv n maxDist d0 st h
  rw [hi.kept r c hr hc]; simp [hierInit, hrc, hcn]

/-- what `Hierarchical.fit` has reached when its loop ends: a single prototype, or no two remaining
prototypes within `maxDist` (infinite distances never merge) -/
def HFinal (n : Nat) (maxDist : α) (d0 : Nat → Nat → α) (st : HState α) : Prop :=
  st.deleted.length + 1 = n ∨
  ∀ r c, r < c → c < n → r ∉ st.deleted → c ∉ st.deleted → ¬ (d0 r c ≤ maxDist ∧ d0 r c ≠ ⊤)

/-- **Stop condition, relational form**: if the loop guard fails on a reachable state for a minimal
entry `m` (it exceeds `maxDist` or is infinite) then no two remaining prototypes are within `maxDist`. -/
theorem C15_stop (n : Nat) (maxDist : α) (d0 : Nat → Nat → α) (st : HState α)
    (h : HReach n maxDist d0 st) (m : α) (hm : ∀ r c, m ≤ st.dist r c) (hguard : ¬ (m ≤ maxDist ∧ m ≠ ⊤)) :
    HFinal n maxDist d0 st := by
  right
  intro r c hrc hcn hr hc hd
  rw [← C15_live_entries_original n maxDist d0 st h r c hrc hcn hr hc] at hd
  apply hguard
  refine ⟨le_trans (hm r c) hd.1, ?_⟩
  intro htop
  have := hm r c
  rw [htop] at this
  exact hd.2 (top_le_iff.mp this)

/-- **Stop condition, executable form**: the hook-free run with enough fuel ends in a final state. -/
theorem C15_run_final (n : Nat) (hn : 1 ≤ n) (maxDist : α) (d0 : Nat → Nat → α) :
    ∀ (fuel : Nat) (st : HState α), HReach n maxDist d0 st → n ≤ st.deleted.length + fuel + 1 →
      HFinal n maxDist d0 (hierRun maxDist fuel st) := by
  intro fuel
  induction fuel with
  | zero =>
    intro st h hf
    left
    have := (C15_monotone_bounded n hn maxDist d0 st h).2.2
    rw [← (reach_hinv n maxDist d0 st h).count] at this
    simp only [hierRun]; omega
  | succ fuel ih =>
    intro st h hf
    have hi := reach_hinv n maxDist d0 st h
    unfold hierRun
    cases hfm : firstMinPair st.n st.dist with
    | none =>
      right
      intro r c hrc hcn _ _ _
      rw [hi.size] at hfm
      exact firstMinPair_none n st.dist hfm r c hrc hcn
    | some p =>
      obtain ⟨r, c⟩ := p
      simp only []
      rw [hi.size] at hfm
      obtain ⟨hrc, hcn, hmin⟩ := firstMinPair_some n st.dist r c hfm
      have hall : ∀ r' c', st.dist r c ≤ st.dist r' c' := by
        intro r' c'
        by_cases hin : r' < c' ∧ c' < n
        · exact hmin r' c' hin.1 hin.2
        · rw [dist_top_outside n maxDist d0 st hi r' c' hin]; exact le_top
      split
      · rename_i hg
        have hstep := HReach.step st r c false h hrc hcn hg.1 hg.2 hall
        simp only [Bool.false_eq_true, if_false] at hstep
        split
        · rename_i hlen
          left; rw [← hi.size]; exact hlen
        · apply ih _ hstep
          simp only [HState.merge, List.length_cons]; omega
      · rename_i hg
        exact C15_stop n maxDist d0 st h _ hall hg

/-- the hook-free run from the initial state, as executed by the driver -/
theorem C15_run (n : Nat) (hn : 1 ≤ n) (maxDist : α) (d0 : Nat → Nat → α) :
    let fin := hierRun maxDist (n - 1) (hierInit n d0)
    HReach n maxDist d0 fin ∧ HFinal n maxDist d0 fin :=
  ⟨hierRun_reach n maxDist d0 _ _ HReach.init,
   C15_run_final n hn maxDist d0 _ _ HReach.init (by simp [hierInit]; omega)⟩

/-- **Progress with finite distances** (the tree variant resets `max_dist` to infinity): while two
prototypes are left the loop guard holds for every minimal entry, so the loop only ends with a single
prototype, i.e. after exactly `n - 1` merges. -/
theorem C15_progress (n : Nat) (d0 : Nat → Nat → α) (hfin : ∀ r c, r < c → c < n → d0 r c ≠ ⊤)
    (st : HState α) (h : HReach n ⊤ d0 st) (hfinal : HFinal n ⊤ d0 st) (hn : 1 ≤ n) :
    st.merges.length + 1 = n := by
  have hi := reach_hinv n ⊤ d0 st h
  rw [← hi.count]
  rcases hfinal with hf | hf
  · exact hf
  · -- otherwise at most one live prototype is left, and the deleted ones are all the others
    by_contra hne
    have hle := (C15_monotone_bounded n hn ⊤ d0 st h).2.2
    rw [← hi.count] at hle
    have hlt : st.deleted.length + 2 ≤ n := by omega
    -- two distinct live prototypes exist: otherwise `deleted` would cover all but one index
    have : ∃ r c, r < c ∧ c < n ∧ r ∉ st.deleted ∧ c ∉ st.deleted := by
      by_contra hno
      have hcov : ∀ x y, x < n → y < n → x ∉ st.deleted → y ∉ st.deleted → x = y := by
        intro x y hx hy hxd hyd
        by_contra hxy
        rcases Nat.lt_or_gt_of_ne hxy with hlt' | hlt'
        · exact hno ⟨x, y, hlt', hy, hxd, hyd⟩
        · exact hno ⟨y, x, hlt', hx, hyd, hxd⟩
      -- the live indices form a duplicate-free list of length ≥ 2
      have hlive : ((List.range n).filter fun x => x ∉ st.deleted).length ≤ 1 := by
        by_contra hgt
        have h2 : 2 ≤ ((List.range n).filter fun x => x ∉ st.deleted).length := by omega
        have hnd : ((List.range n).filter fun x => x ∉ st.deleted).Nodup := (List.nodup_range).filter _
        match hl : (List.range n).filter fun x => x ∉ st.deleted, h2, hnd with
        | a :: b :: _, _, hnd' =>
          have ha : a ∈ (List.range n).filter fun x => x ∉ st.deleted := by rw [hl]; simp
          have hb : b ∈ (List.range n).filter fun x => x ∉ st.deleted := by rw [hl]; simp
          simp only [List.mem_filter, List.mem_range, decide_eq_true_eq] at ha hb
          have := hcov a b ha.1 hb.1 ha.2 hb.2
          subst this
          simp at hnd'
      -- range n splits into live and deleted indices
      have hsplit : n ≤ ((List.range n).filter fun x => x ∉ st.deleted).length + st.deleted.length := by
        have hsub : List.range n ⊆ ((List.range n).filter fun x => x ∉ st.deleted) ++ st.deleted := by
          intro x hx
          by_cases hxd : x ∈ st.deleted
          · exact List.mem_append_right _ hxd
          · exact List.mem_append_left _ (List.mem_filter.mpr ⟨hx, by simpa using hxd⟩)
        have := (List.subperm_of_subset List.nodup_range hsub).length_le
        simpa using this
      omega
    obtain ⟨r, c, hrc, hcn, hr, hc⟩ := this
    exact hf r c hrc hcn hr hc ⟨le_top, hfin r c hrc hcn⟩

/-- **The recorded tree.** For the linkage recorded along any reachable merge sequence: every row refers
to leaves or earlier rows only; no node id is used as a child twice; and once `n - 1` merges are
recorded, every node `0 … 2n-3` is a child (exactly once), while the last created node `2n-2` — the
root — is not a child: a single rooted binary tree over the `n` series. -/
theorem C15_tree (n : Nat) (maxDist : α) (d0 : Nat → Nat → α) (st : HState α)
    (h : HReach n maxDist d0 st) :
    let t := treeOf n st.merges
    t.linkage.length = st.merges.length ∧ WellOrdered n t.linkage ∧ (children t.linkage).Nodup ∧
    (st.merges.length + 1 = n →
      (∀ id, id < 2 * n - 2 → id ∈ children t.linkage) ∧ (∀ id ∈ children t.linkage, id < 2 * n - 2)) := by
  intro t
  have ht := reach_tinv n maxDist d0 st h
  refine ⟨ht.len, ht.ordered, ht.nodup, ?_⟩
  intro hfull
  have hlen : (children t.linkage).length = 2 * n - 2 := by
    rw [children_length, ht.len]; omega
  have hlt : ∀ id ∈ children t.linkage, id < 2 * n - 2 := by
    intro id hid
    have h1 := ht.childLt id hid
    have h2 := ht.len
    omega
  exact ⟨nodup_full _ _ ht.nodup hlen hlt, hlt⟩

/-- **Condensed vector for SciPy**: `LinkageTree.fit` hands over the upper triangle in row-major order,
which is the layout `scipy.cluster.hierarchy.linkage` expects: entry `(a, b)`, `a < b < n`, sits at the
condensed index `n·a − a(a+1)/2 + (b − a − 1)`. -/
theorem C15_condensed (n : Nat) (d : Nat → Nat → α) (a b : Nat) (hab : a < b) (hb : b < n) :
    (condensedOf n d)[condensedIndex a b n]? = some (d a b) := by
  have hup : upperPairs n = pairs n none := by
    simp [upperPairs, pairs, completeBlock, rowCols, List.range_eq_range']
  have := (condensedIndex_spec n a b hab hb).1
  simp only [condensedOf, hup, List.getElem?_map, this, Option.map_some]

/-- non-vacuity: a concrete matrix with a tie and an infinite entry, run by the executable model -/
example :
    let d0 : Nat → Nat → Cost := fun r c =>
      if (r, c) = (0, 1) then .fin 2 else if (r, c) = (2, 3) then .fin 2 else if (r, c) = (0, 2) then .inf else .fin 5
    ((hierRun (.fin 4) 3 (hierInit 4 d0)).merges.map fun m => (m.1, m.2.1)) = [(2, 3), (0, 1)] := by
  decide +kernel

end Dtai
