/-
Props/C09.lean — C09: LB_Keogh ≤ DTW ≤ Euclidean upper bound.
-/
import Dtaiverif.Props.CBand
import Dtaiverif.Proofs.Bounds
import Dtaiverif.Proofs.CostInst

namespace Dtai
variable {α : Type} [LinearOrderedAddCommMonoidWithTop α]

/-- The Euclidean distance (surplus elements compared with the last element of the shorter series) is
never below the DTW distance: for every window ≥ 1 and any psi, without max_step, when there is no
penalty or the lengths are equal. -/
theorem C09_dtw_le_ed (g : Grid α) (h : g.NonNeg) (hr : 1 ≤ g.r) (hc : 1 ≤ g.c) (hw : 1 ≤ g.window)
    (hms : g.maxStep = ⊤) (hpen : g.pen = 0 ∨ g.r = g.c) :
    dtwSpec g ≤ edSum g.cost g.r g.c :=
  dtw_le_ed g h hr hc hw hms hpen

/-- Any row-wise lower bound of the point costs over the window band sums to a lower bound of DTW
(any penalty ≥ 0, any window, no relaxation of series 1). -/
theorem C09_lb_le_dtw (g : Grid α) (h : g.NonNeg) (hn : g.NonDegenerate) (lb : Nat → α)
    (hlb : ∀ i j, g.ok i j = true → lb i ≤ g.cost i j) (hpsi : g.psi1b = 0) (hpsie : g.psi1e = 0) :
    lbUpTo lb (g.r - 1) ≤ dtwSpec g :=
  lb_le_dtw g h hn lb hlb hpsi hpsie

/-- the envelope window of `lb_keogh` is exactly the window band of the DTW kernel -/
theorem C09_envelope_is_band (g : Grid α) (hw : 1 ≤ g.window) (i : Nat) :
    i - ((g.r - g.c) + g.window - 1) = g.jStart i ∧ min g.c (i + (g.c - g.r) + g.window) = g.jEnd i :=
  envelope_is_band g hw i

/-- each Keogh term (squared or absolute inner distance, any signs of the data) is such a row bound -/
theorem C09_keogh_term_sq (s1 s2 : Array Int) (r c window i j : Nat)
    (hj1 : i - ((r - c) + window - 1) ≤ j) (hj2 : j < min c (i + (c - r) + window)) :
    (lbKeoghTerms (fun a b => (a - b).natAbs ^ 2) s1 s2 r c window).getD i 0 ≤
      (s1.getD i 0 - s2.getD j 0).natAbs ^ 2 ∨ r ≤ i :=
  keogh_term_le _ (fun ci ui y => sq_envelope_hi ci ui y) (fun ci li y => sq_envelope_lo ci li y)
    s1 s2 r c window i j hj1 hj2

theorem C09_keogh_term_abs (s1 s2 : Array Int) (r c window i j : Nat)
    (hj1 : i - ((r - c) + window - 1) ≤ j) (hj2 : j < min c (i + (c - r) + window)) :
    (lbKeoghTerms (fun a b => (a - b).natAbs) s1 s2 r c window).getD i 0 ≤
      (s1.getD i 0 - s2.getD j 0).natAbs ∨ r ≤ i :=
  keogh_term_le _ (fun ci ui y => abs_envelope_hi ci ui y) (fun ci li y => abs_envelope_lo ci li y)
    s1 s2 r c window i j hj1 hj2

/-- `use_pruning` is sound: with the Euclidean bound as threshold the kernel returns the unbounded
distance (C03_pruning_exact applied to C09_dtw_le_ed) -/
theorem C09_pruning_with_ed (g : Grid α) (h : g.NonNeg) (hr : 1 ≤ g.r) (hc : 1 ≤ g.c) (hw : 1 ≤ g.window)
    (hms : g.maxStep = ⊤) (hpen : g.pen = 0 ∨ g.r = g.c) (chk : Bool) :
    distModel g (edSum g.cost g.r g.c) none chk = dtwSpec g :=
  distModel_eq_of_le g h _ chk (dtw_le_ed g h hr hc hw hms hpen)

/- non-vacuity -/
example : lbKeogh (fun a b => (a - b).natAbs ^ 2) #[-5, -1, -7] #[-2, -3, -2] 3 3 1 = 9 + 4 + 25 := by decide
example : edPairs 2 4 = [(0,0), (1,1), (1,2), (1,3)] := by decide

end Dtai
