/-
Props/CBand.lean — the integer control state of the C kernels, as re-translated from /repo's `dd_dtw.c`
on every run (`Generated/CBand.lean`, by `translate/c_band.py`: a program slice of each function on its
`idx_t` variables, in single-assignment form), against the model.

* `lb_keogh`, `lb_keogh_euclidean`: the range of `s2` whose envelope is used in row `i` is the range of
  the model (`lbKeoghTerms`), which is the DTW band of that row — the fact `lb ≤ dtw` (C09) rests on;
* `dtw_distance` and its three variants: `length`, the band `[maxj, minj)` (with the pruning adjustment
  `max … sc`), and the buffer offsets `skip` / `skipp` along the whole run of the row loop are the
  functions of `Model/Rolling.lean` for which C08 proves that every access stays inside the buffer, and
  the band is the band of the DTW model (`Grid.jStart/jEnd` with the C settings).

The theorems are about the *translated* functions; when the C statements change, the functions change with
them and the proofs are re-checked against what the code says now.
-/
import Dtaiverif.Generated.CBand
import Dtaiverif.Generated.PyBand
import Dtaiverif.Model.Rolling
import Dtaiverif.Model.Bounds
import Dtaiverif.Model.Dtw
import Dtaiverif.Model.Compact

namespace Dtai
open Gen.CBand

/-- the window the kernels work with: `0` (not given) means `max l1 l2` -/
def cEffWindow (l1 l2 w : Nat) : Nat := if w = 0 then max l1 l2 else w

/-- the range of `s2` whose envelope row `i` of LB_Keogh is compared with — as in `lbKeoghTerms` -/
def lbRange (r c window i : Nat) : Nat × Nat := (i - ((r - c) + window - 1), min c (i + (c - r) + window))

/-- the model's LB_Keogh really uses `lbRange` -/
theorem lbKeoghTerms_range (dist : Int → Int → Nat) (s1 s2 : Array Int) (r c window : Nat) :
    lbKeoghTerms dist s1 s2 r c window = (List.range r).map fun i =>
      let seg := (List.range ((lbRange r c window i).2 - (lbRange r c window i).1)).map
        fun k => s2.getD ((lbRange r c window i).1 + k) 0
      match seg with
      | [] => 0
      | x :: xs =>
        let ui := xs.foldl max x
        let li := xs.foldl min x
        let ci := s1.getD i 0
        if ci > ui then dist ci ui else if ci < li then dist ci li else 0 := rfl

theorem cEffWindow_cast (l1 l2 w : Nat) :
    (if (w : Int) = 0 then max (l1 : Int) (l2 : Int) else (w : Int)) = ((cEffWindow l1 l2 w : Nat) : Int) := by
  unfold cEffWindow
  by_cases h : w = 0
  · subst h; simp only [Int.natCast_zero, if_true, ↓reduceIte]; omega
  · have : ¬ (w : Int) = 0 := by omega
    simp only [this, h, if_false, ↓reduceIte]

theorem CBand_lb_keogh (l1 l2 w i : Nat) (hw : 1 ≤ cEffWindow l1 l2 w) :
    let e := lb_keogh_row { lb_keogh_pre { l1 := l1, l2 := l2, settings_window := w } with i := i }
    e.imin = ((lbRange l1 l2 (cEffWindow l1 l2 w) i).1 : Int) ∧
    e.imax = ((lbRange l1 l2 (cEffWindow l1 l2 w) i).2 : Int) := by
  simp only [lb_keogh_row, lb_keogh_pre, lbRange, cEffWindow_cast]
  generalize cEffWindow l1 l2 w = W at *
  constructor <;> (repeat' split) <;> omega

theorem CBand_lb_keogh_euclidean (l1 l2 w i : Nat) (hw : 1 ≤ cEffWindow l1 l2 w) :
    let e := lb_keogh_euclidean_row { lb_keogh_euclidean_pre { l1 := l1, l2 := l2, settings_window := w } with i := i }
    e.imin = ((lbRange l1 l2 (cEffWindow l1 l2 w) i).1 : Int) ∧
    e.imax = ((lbRange l1 l2 (cEffWindow l1 l2 w) i).2 : Int) := by
  simp only [lb_keogh_euclidean_row, lb_keogh_euclidean_pre, lbRange, cEffWindow_cast]
  generalize cEffWindow l1 l2 w = W at *
  constructor <;> (repeat' split) <;> omega

/-- the pure-Python `lb_keogh` (translated by `translate/py_band.py`) uses the same range -/
theorem PyBand_lb_keogh (r c w i : Nat) (hw : 1 ≤ w) :
    let e0 : Gen.PyBand.Env := { i := i, r := r, c := c, window := w }
    let e : Gen.PyBand.Env := { e0 with imin_diff := Gen.PyBand.lb_keogh_imin_diff_0 e0,
                                        imax_diff := Gen.PyBand.lb_keogh_imax_diff_0 e0 }
    Gen.PyBand.lb_keogh_imin_0 e = ((lbRange r c w i).1 : Int) ∧ Gen.PyBand.lb_keogh_imax_0 e = ((lbRange r c w i).2 : Int) := by
  simp only [Gen.PyBand.lb_keogh_imin_0, Gen.PyBand.lb_keogh_imax_0, Gen.PyBand.lb_keogh_imin_diff_0,
    Gen.PyBand.lb_keogh_imax_diff_0, lbRange]
  constructor <;> omega

/-! ### `dtw_distance` and its variants: the whole run of the row loop -/

/-- the part of the state that the row loop leaves unchanged, as set up before the loop -/
structure CInv (p : Roll) (e : CEnv) : Prop where
  l1 : e.l1 = p.l1
  l2 : e.l2 = p.l2
  len : e.length = p.length
  dlw : e.dl_window = p.dlWindow
  ldw : e.ldiff_window = p.ldiffWindow

theorem dtw_distance_pre_spec (l1 l2 w : Nat) (hw : 1 ≤ cEffWindow l1 l2 w) :
    let p : Roll := ⟨l1, l2, cEffWindow l1 l2 w⟩
    let e := dtw_distance_pre { l1 := l1, l2 := l2, settings_window := w }
    CInv p e ∧ e.skip = 0 ∧ e.i0 = 1 ∧ e.i1 = 0 := by
  simp only [dtw_distance_pre, cEffWindow_cast]
  generalize hW : cEffWindow l1 l2 w = W at *
  refine ⟨⟨?_, ?_, ?_, ?_, ?_⟩, ?_, ?_, ?_⟩ <;>
    first
    | trivial
    | rfl
    | (simp only [Roll.length, Roll.ldiff, Roll.dl, Roll.dlWindow, Roll.ldiffWindow]; (repeat' split) <;> omega)

/-- one iteration of the row loop, from any state that satisfies the invariant -/
theorem dtw_distance_row_spec (p : Roll) (e : CEnv) (h : CInv p e) (hw : 1 ≤ p.window) (n : Nat) (s : Int) :
    let e' := dtw_distance_row { e with i := n, sc := s }
    CInv p e' ∧ e'.skip = p.skip n ∧ e'.skipp = e.skip ∧ e'.minj = p.minj n ∧ e'.maxj = max (p.maxj n : Int) s ∧
      e'.i0 = 1 - e.i0 ∧ e'.i1 = 1 - e.i1 := by
  obtain ⟨h1, h2, h3, h4, h5⟩ := h
  refine ⟨⟨h1, h2, h3, h4, h5⟩, ?_, rfl, ?_, ?_, rfl, rfl⟩
  · show (dtw_distance_row { e with i := n, sc := s }).skip = _
    simp only [dtw_distance_row, h2, h3, h4, Roll.skip, Roll.maxj]
    generalize p.length = L; generalize p.dlWindow = D
    (repeat' split) <;> simp_all <;> omega
  · show (dtw_distance_row { e with i := n, sc := s }).minj = _
    simp only [dtw_distance_row, h2, h5, Roll.minj]
    (repeat' split) <;> omega
  · show (dtw_distance_row { e with i := n, sc := s }).maxj = _
    simp only [dtw_distance_row, h4, Roll.maxj]
    generalize p.dlWindow = D
    (repeat' split) <;> simp_all <;> omega

/-- state of the integer variables after the index bookkeeping of row `n`; `sc n` is the value the pruning
column `sc` has at that point (it depends on the data, so it is a parameter) -/
def cRun (pre row : CEnv → CEnv) (l1 l2 w : Nat) (sc : Nat → Int) : Nat → CEnv
  | 0 => row { pre { l1 := l1, l2 := l2, settings_window := w } with i := (0 : Nat), sc := sc 0 }
  | n + 1 => row { cRun pre row l1 l2 w sc n with i := ((n + 1 : Nat) : Int), sc := sc (n + 1) }

/-- **`dtw_distance`, every row of the loop**: buffer length, band and offsets are those of `Model/Rolling`
(whose accesses C08 proves to be in range); the band start carries the pruning adjustment; the two rows of
the buffer alternate -/
theorem CBand_dtw_distance (l1 l2 w : Nat) (sc : Nat → Int) (hw : 1 ≤ cEffWindow l1 l2 w) (n : Nat) :
    let p : Roll := ⟨l1, l2, cEffWindow l1 l2 w⟩
    let e := cRun dtw_distance_pre dtw_distance_row l1 l2 w sc n
    CInv p e ∧ e.skip = p.skip n ∧ e.skipp = p.skipp n ∧ e.minj = p.minj n ∧ e.maxj = max (p.maxj n : Int) (sc n) ∧
      e.i1 = ((n + 1) % 2 : Nat) ∧ e.i0 = 1 - e.i1 := by
  intro p
  induction n with
  | zero =>
    obtain ⟨hinv, hs, h0, h1⟩ := dtw_distance_pre_spec l1 l2 w hw
    have := dtw_distance_row_spec p _ hinv hw 0 (sc 0)
    obtain ⟨a, b, c, d, e', f, g⟩ := this
    refine ⟨a, b, ?_, d, e', ?_, ?_⟩
    · simp only [cRun]; rw [c, hs]; simp [Roll.skipp]
    · simp only [cRun]; rw [g, h1]; rfl
    · simp only [cRun]; rw [f, g, h0, h1]; rfl
  | succ n ih =>
    obtain ⟨hinv, hs, _, _, _, hi1, hi0⟩ := ih
    have := dtw_distance_row_spec p _ hinv hw (n + 1) (sc (n + 1))
    obtain ⟨a, b, c, d, e', f, g⟩ := this
    refine ⟨a, b, ?_, d, e', ?_, ?_⟩
    · simp only [cRun]; rw [c, hs]; simp [Roll.skipp]
    · simp only [cRun]; rw [g, hi1]; omega
    · simp only [cRun]; rw [f, g, hi0]

/-- the three other kernels have the same integer slice -/
theorem CBand_variants_same :
    dtw_distance_ndim_pre = dtw_distance_pre ∧ dtw_distance_ndim_row = dtw_distance_row ∧
    dtw_distance_euclidean_pre = dtw_distance_pre ∧ dtw_distance_euclidean_row = dtw_distance_row ∧
    dtw_distance_ndim_euclidean_pre = dtw_distance_pre ∧ dtw_distance_ndim_euclidean_row = dtw_distance_row :=
  ⟨rfl, rfl, rfl, rfl, rfl, rfl⟩

section grid
variable {α : Type}

/-- the band of `Model/Rolling` is the band of the DTW model -/
theorem Roll_band_eq_grid (g : Grid α) (hw : 1 ≤ g.window) (i : Nat) :
    (⟨g.r, g.c, g.window⟩ : Roll).maxj i = g.jStart i ∧ (⟨g.r, g.c, g.window⟩ : Roll).minj i = g.jEnd i := by
  simp only [Roll.maxj, Roll.minj, Roll.dlWindow, Roll.ldiffWindow, Roll.dl, Roll.ldiff, Grid.jStart, Grid.jEnd]
  constructor <;> (repeat' split) <;> omega

end grid

/-- **`dtw_wps_parts`** (the layout of the compact warping-paths matrix: effective window, row width, buffer
length and the three row indices that separate the four regions A–D) is `wpsParts` of `Model/Compact.lean`,
for all lengths and every window setting (0 = none) -/
theorem CBand_wps_parts (l1 l2 w : Nat) :
    let e := dtw_wps_parts { l1 := l1, l2 := l2, settings_window := w }
    let p := wpsParts l1 l2 w
    e.parts_window = p.window ∧ e.parts_ldiff = p.ldiff ∧ e.parts_ldiffr = p.ldiffr ∧ e.parts_ldiffc = p.ldiffc ∧
    e.parts_width = p.width ∧ e.parts_overlap_left_ri = p.ol ∧ e.parts_overlap_right_ri = p.or ∧
    e.parts_ri1 = p.ri1 ∧ e.parts_ri2 = p.ri2 ∧ e.parts_ri3 = p.ri3 ∧ e.parts_length = p.length := by
  intro e p
  have hw0 : ((w : Int) = 0) ↔ w = 0 := by omega
  have hld : e.parts_ldiff = p.ldiff ∧ e.parts_ldiffr = p.ldiffr ∧ e.parts_ldiffc = p.ldiffc := by
    simp only [e, p, dtw_wps_parts, wpsParts]
    refine ⟨?_, ?_, ?_⟩ <;> (repeat' split) <;> omega
  have hwin : e.parts_window = p.window := by
    simp only [e, p, dtw_wps_parts, wpsParts, hw0]
    by_cases h0 : w = 0
    · simp only [h0, if_true, ↓reduceIte]; omega
    · simp only [h0, if_false, ↓reduceIte]; omega
  have hwidth : e.parts_width = p.width := by
    simp only [e, p, dtw_wps_parts, wpsParts, hw0]
    by_cases h0 : w = 0
    · simp only [h0, if_true, ↓reduceIte]; omega
    · simp only [h0, if_false, ↓reduceIte]
      (repeat' split) <;> omega
  have hol : e.parts_overlap_left_ri = p.ol := by
    have he : e.parts_overlap_left_ri = min (e.parts_window + e.parts_ldiffr) ((l1 : Int) + 1) := rfl
    have hp : p.ol = min (p.window + p.ldiffr) (l1 + 1) := rfl
    rw [he, hp, hwin, hld.2.1]; omega
  have hor : e.parts_overlap_right_ri = p.or := by
    have he : e.parts_overlap_right_ri = if e.parts_window + e.parts_ldiffr ≤ (l1 : Int)
        then max ((l1 : Int) + 1 - e.parts_window - e.parts_ldiffr) 0 else 0 := rfl
    have hp : p.or = if p.window + p.ldiffr ≤ l1 then l1 + 1 - p.window - p.ldiffr else 0 := rfl
    rw [he, hp, hwin, hld.2.1]
    (repeat' split) <;> omega
  have h1 : e.parts_ri1 = p.ri1 := by
    have he : e.parts_ri1 = min (l1 : Int) (min e.parts_overlap_left_ri e.parts_overlap_right_ri) := rfl
    have hp : p.ri1 = min l1 (min p.ol p.or) := rfl
    rw [he, hp, hol, hor]; omega
  have h2 : e.parts_ri2 = p.ri2 := by
    have he : e.parts_ri2 = min (l1 : Int) e.parts_overlap_left_ri := rfl
    have hp : p.ri2 = min l1 p.ol := rfl
    rw [he, hp, hol]; omega
  have h3 : e.parts_ri3 = p.ri3 := by
    have he : e.parts_ri3 = min (l1 : Int) (max e.parts_overlap_left_ri e.parts_overlap_right_ri) := rfl
    have hp : p.ri3 = min l1 (max p.ol p.or) := rfl
    rw [he, hp, hol, hor]; omega
  have hlen : e.parts_length = p.length := by
    have he : e.parts_length = ((l1 : Int) + 1) * e.parts_width := rfl
    have hp : p.length = (l1 + 1) * p.width := rfl
    rw [he, hp, hwidth]; simp only [Int.natCast_mul, Int.natCast_add, Int.natCast_one]
  exact ⟨hwin, hld.1, hld.2.1, hld.2.2, hwidth, hol, hor, h1, h2, h3, hlen⟩

theorem CBand_functions_pinned :
    Gen.CBand.functions = ["lb_keogh_pre", "lb_keogh_row", "lb_keogh_euclidean_pre", "lb_keogh_euclidean_row",
      "dtw_distance_pre", "dtw_distance_row", "dtw_distance_ndim_pre", "dtw_distance_ndim_row",
      "dtw_distance_euclidean_pre", "dtw_distance_euclidean_row", "dtw_distance_ndim_euclidean_pre",
      "dtw_distance_ndim_euclidean_row", "dtw_wps_parts"] := by decide

/- non-vacuity: a concrete run -/
example : (cRun dtw_distance_pre dtw_distance_row 9 9 2 (fun _ => 0) 8).skip = 7 ∧
    (cRun dtw_distance_pre dtw_distance_row 9 9 2 (fun _ => 0) 8).minj = 9 ∧
    (cRun dtw_distance_pre dtw_distance_row 9 9 2 (fun _ => 0) 8).length = 5 := by decide

end Dtai
