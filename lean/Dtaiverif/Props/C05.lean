/-
Props/C05.lean — C05: a reported best path is a valid warping path that achieves the distance.
-/
import Dtaiverif.Proofs.Path
import Dtaiverif.Proofs.CostInst

namespace Dtai
variable {α : Type} [LinearOrderedAddCommMonoidWithTop α]

/-- Engine-independent statement: *any* trace-back whose every step goes to a predecessor realising
the recurrence (whichever of several equally optimal predecessors is taken) is a contiguous monotone
path with steps (1,1),(1,0),(0,1), inside the band / below max_step, starting in the psi-relaxed
corner, and its accumulated cost (penalties included) equals the value of the cell it ends in. -/
theorem C05_greedy_path_valid (g : Grid α) (path : List Cell) (q : Cell) (hb : g.IsBack (q :: path)) :
    g.ValidRev (q :: path) ∧ g.costRev (q :: path) = D g (q.1+1) (q.2+1) :=
  isBack_valid g path q hb

/-- `dtw.best_path` (first minimum of `[diag, up + penalty, left + penalty]`, internal representation),
started in any cell with a finite value, returns such a path — for custom start cells as well. -/
theorem C05_best_path (g : Grid α) (h : g.NonNeg) (I J : Nat) (hfin : D g (I+1) (J+1) ≠ ⊤) :
    ∃ rest, backtrack (D g) g.pen (I + J + 2) (I+1) (J+1) = (I, J) :: rest ∧
      g.ValidRev ((I, J) :: rest) ∧ g.costRev ((I, J) :: rest) = D g (I+1) (J+1) :=
  backtrack_valid g h I J hfin

/-- started in an admissible end cell that attains the optimum, the path is a complete admissible
path whose cost is the DTW distance (`dtwSpec`) -/
theorem C05_path_achieves_distance (g : Grid α) (h : g.NonNeg) (I J : Nat) (he : g.EndOk (I, J))
    (hopt : D g (I+1) (J+1) = dtwSpec g) (hfin : dtwSpec g ≠ ⊤) :
    ∃ rest, backtrack (D g) g.pen (I + J + 2) (I+1) (J+1) = (I, J) :: rest ∧
      g.ValidRev ((I, J) :: rest) ∧ g.EndOk (I, J) ∧ g.costRev ((I, J) :: rest) = dtwSpec g := by
  obtain ⟨rest, hbt, hv, hc⟩ := backtrack_valid g h I J (hopt ▸ hfin)
  exact ⟨rest, hbt, hv, he, hc.trans hopt⟩

/-- the index arrays of length `len1 + len2` handed to the C engine always suffice -/
theorem C05_length_le (g : Grid α) (path : List Cell) (q : Cell) (hv : g.ValidRev (q :: path))
    (hq1 : q.1 < g.r) (hq2 : q.2 < g.c) : (q :: path).length + 1 ≤ g.r + g.c := by
  have := validRev_length g path q hv
  omega

/- non-vacuity on the executable domain -/
def exGrid5 : Grid Cost :=
  { r := 3, c := 3, window := 3, pen := 1, maxStep := .inf, psi1b := 0, psi1e := 0, psi2b := 0, psi2e := 0,
    cost := fun i j => .fin ((i + 2 * j) % 3 + 1) }
example : backtrack (fun I J => cellOf (matU exGrid5 3) I J) exGrid5.pen 8 3 3 = [(2,2), (1,1), (0,0)] := by
  decide +kernel

end Dtai
