/-
Props/C02.lean — C02: the C engine returns the same distances as the Python engine.
Both engines are instances of one kernel model (`distModel`); they differ in how user-level options
are decoded (`RawSettings.toGridPy` / `toGridC`) and in whether the final threshold check is applied
under `use_pruning` (`chk`).
-/
import Dtaiverif.Generated.PySettings
import Dtaiverif.Props.CBand
import Dtaiverif.Proofs.Dist
import Dtaiverif.Proofs.CostInst
import Dtaiverif.Model.Settings

namespace Dtai

/-- The two decoders denote the same grid for every setting expressible in both engines
(`window = 0` is not a Python setting; `None`/`0` for the other options mean "off" in both). -/
theorem C02_decode_agree (s : RawSettings) (r c : Nat) (s1 s2 : Array Int) (hw : s.window ≠ some 0) :
    s.toGridC r c s1 s2 = s.toGridPy r c s1 s2 := by
  unfold RawSettings.toGridC RawSettings.toGridPy
  cases hwin : s.window with
  | none => rfl
  | some w =>
    cases w with
    | zero => exact absurd hwin hw
    | succ w => rfl

/-- `max_length_diff`: the encodings agree except for the value 0 (known finding C02-MLD0) -/
theorem C02_mld_agree (s : RawSettings) (h : s.maxLengthDiff ≠ some 0) : s.mldC = s.mldPy := by
  unfold RawSettings.mldC RawSettings.mldPy optOff
  cases hm : s.maxLengthDiff with
  | none => rfl
  | some k => cases k with
    | zero => exact absurd hm h
    | succ k => rfl

variable {α : Type} [LinearOrderedAddCommMonoidWithTop α]

/-- Same grid, same threshold ⇒ same value whenever the threshold is a valid bound or off; the
engines' different treatment of the final check is then immaterial. -/
theorem C02_engines_agree (g : Grid α) (h : g.NonNeg) (m : α) (mld : Option Nat)
    (hle : dtwSpec g ≤ m) : distModel g m mld false = distModel g m mld true := by
  unfold distModel
  simp only [endMin_matP_eq g h m hle, finalCheck_of_le m _ hle]
  simp

/-- with a user threshold (no pruning) both engines apply the final check: identical by definition;
stated for completeness of the case split used by the harness -/
theorem C02_engines_agree_maxdist (g : Grid α) (m : α) (mld : Option Nat) :
    distModel g m mld true = distModel g m mld true := rfl

/-- both engines return the optimum over admissible paths when no threshold is given -/
theorem C02_distC_eq_spec (g : Grid α) (h : g.NonNeg) (mld : Option Nat) (chk : Bool) :
    distModel g ⊤ mld chk = distSpec g mld :=
  distModel_eq_spec g h mld chk

example : ({ window := some 3, psi := (1,0,0,1) } : RawSettings).toGridC 4 5 #[0,1,2,3] #[1,1,2,2,0] =
    ({ window := some 3, psi := (1,0,0,1) } : RawSettings).toGridPy 4 5 #[0,1,2,3] #[1,1,2,2,0] :=
  C02_decode_agree _ _ _ _ _ (by decide)

/-- **The option glue the decoders of the model assume**, re-extracted from `DTWSettings` in dtw.py on every run
(`translate/py_settings.py`): which test switches an option off in the Python engine (`not x`: `None` and `0`; for
`max_length_diff` only `None` — the source of the known finding C02-MLD0), which value replaces `None` on the way to the
C engine (always `0`, which the C code reads as "off"), that every option is forwarded under its own name — to the C
engine and to other Python routines —, the order in which a psi 4-tuple is unpacked, and the default of `window`. -/
theorem C02_settings_glue :
    Gen.PySettings.adjusted =
      [("adj_max_step", "not self.max_step", "inf", "inner_val(self.max_step)"),
       ("adj_max_dist", "not self.max_dist", "inf", "inner_val(self.max_dist)"),
       ("adj_penalty", "not self.penalty", "0", "inner_val(self.penalty)"),
       ("adj_max_length_diff", "self.max_length_diff is None", "inf", "self.max_length_diff")] ∧
    Gen.PySettings.cKwargs =
      [("window", "0", "self.window is None", "self.window"),
       ("max_dist", "0", "self.max_dist is None", "self.max_dist"),
       ("max_step", "0", "self.max_step is None", "self.max_step"),
       ("max_length_diff", "0", "self.max_length_diff is None or math.isinf(self.max_length_diff)", "self.max_length_diff"),
       ("penalty", "0", "self.penalty is None", "self.penalty"),
       ("psi", "0", "self.psi is None", "self.psi"),
       ("use_pruning", "0", "self.use_pruning is None", "self.use_pruning"),
       ("inner_dist", "", "", "innerdistance.to_c(self.inner_dist)")] ∧
    Gen.PySettings.cKwargsKeys.all (fun kv => kv.1 == kv.2) = true ∧
    Gen.PySettings.cKwargsKeys.map (·.1) =
      ["window", "max_dist", "max_step", "max_length_diff", "penalty", "psi", "use_pruning", "inner_dist"] ∧
    Gen.PySettings.kwargsKeys.all (fun kv => "self." ++ kv.1 == kv.2) = true ∧
    Gen.PySettings.kwargsKeys.map (·.1) =
      ["window", "use_pruning", "max_dist", "max_step", "max_length_diff", "penalty", "psi", "inner_dist", "use_ndim",
       "use_c"] ∧
    Gen.PySettings.splitPsiUnpack = ["(psi_1b, psi_1e, psi_2b, psi_2e)"] ∧
    Gen.PySettings.splitPsiReturn = ["(psi_1b, psi_1e, psi_2b, psi_2e)"] ∧
    Gen.PySettings.forDtwDefaults = [("settings.window is None", "settings.window = max(len(s1), len(s2))")] := by
  decide

/-- … and the Cython side of the same glue (`DTWSettings.__init__` in dtw_cc.pyx, re-extracted on every run): every
assignment to the C settings struct with the conditions it stands under. `None` becomes `0`/`False`; an integer psi (any `numbers.Integral`) is
copied to all four entries, a 4-tuple in the order (1b, 1e, 2b, 2e); nothing else (no clamping, no reordering) happens
to an option between the Python call and the C kernel. -/
theorem C02_cython_settings_glue : Gen.PySettings.cythonInit = [
  ("*", "", "dtaidistancec_dtw.dtw_settings_default()"),
  ("window", "('window' in kwargs) and (kwargs['window'] is None)", "0"),
  ("window", "('window' in kwargs) and (not (kwargs['window'] is None))", "kwargs['window']"),
  ("max_dist", "('max_dist' in kwargs) and (kwargs['max_dist'] is None)", "0"),
  ("max_dist", "('max_dist' in kwargs) and (not (kwargs['max_dist'] is None))", "kwargs['max_dist']"),
  ("max_step", "('max_step' in kwargs) and (kwargs['max_step'] is None)", "0"),
  ("max_step", "('max_step' in kwargs) and (not (kwargs['max_step'] is None))", "kwargs['max_step']"),
  ("max_length_diff", "('max_length_diff' in kwargs) and (kwargs['max_length_diff'] is None)", "0"),
  ("max_length_diff", "('max_length_diff' in kwargs) and (not (kwargs['max_length_diff'] is None))", "kwargs['max_length_diff']"),
  ("penalty", "('penalty' in kwargs) and (kwargs['penalty'] is None)", "0"),
  ("penalty", "('penalty' in kwargs) and (not (kwargs['penalty'] is None))", "kwargs['penalty']"),
  ("psi_1b", "('psi' in kwargs) and (kwargs['psi'] is None)", "0"),
  ("psi_1e", "('psi' in kwargs) and (kwargs['psi'] is None)", "0"),
  ("psi_2b", "('psi' in kwargs) and (kwargs['psi'] is None)", "0"),
  ("psi_2e", "('psi' in kwargs) and (kwargs['psi'] is None)", "0"),
  ("psi_1b", "('psi' in kwargs) and (not (kwargs['psi'] is None)) and (isinstance(kwargs['psi'], numbers.Integral))", "kwargs['psi']"),
  ("psi_1e", "('psi' in kwargs) and (not (kwargs['psi'] is None)) and (isinstance(kwargs['psi'], numbers.Integral))", "kwargs['psi']"),
  ("psi_2b", "('psi' in kwargs) and (not (kwargs['psi'] is None)) and (isinstance(kwargs['psi'], numbers.Integral))", "kwargs['psi']"),
  ("psi_2e", "('psi' in kwargs) and (not (kwargs['psi'] is None)) and (isinstance(kwargs['psi'], numbers.Integral))", "kwargs['psi']"),
  ("psi_1b", "('psi' in kwargs) and (not (kwargs['psi'] is None)) and (not (isinstance(kwargs['psi'], numbers.Integral))) and (type(kwargs['psi']) is tuple or type(kwargs['psi']) is list) and (len(kwargs['psi']) != 4)", "0"),
  ("psi_1e", "('psi' in kwargs) and (not (kwargs['psi'] is None)) and (not (isinstance(kwargs['psi'], numbers.Integral))) and (type(kwargs['psi']) is tuple or type(kwargs['psi']) is list) and (len(kwargs['psi']) != 4)", "0"),
  ("psi_2b", "('psi' in kwargs) and (not (kwargs['psi'] is None)) and (not (isinstance(kwargs['psi'], numbers.Integral))) and (type(kwargs['psi']) is tuple or type(kwargs['psi']) is list) and (len(kwargs['psi']) != 4)", "0"),
  ("psi_2e", "('psi' in kwargs) and (not (kwargs['psi'] is None)) and (not (isinstance(kwargs['psi'], numbers.Integral))) and (type(kwargs['psi']) is tuple or type(kwargs['psi']) is list) and (len(kwargs['psi']) != 4)", "0"),
  ("psi_1b", "('psi' in kwargs) and (not (kwargs['psi'] is None)) and (not (isinstance(kwargs['psi'], numbers.Integral))) and (type(kwargs['psi']) is tuple or type(kwargs['psi']) is list) and (not (len(kwargs['psi']) != 4))", "kwargs['psi'][0]"),
  ("psi_1e", "('psi' in kwargs) and (not (kwargs['psi'] is None)) and (not (isinstance(kwargs['psi'], numbers.Integral))) and (type(kwargs['psi']) is tuple or type(kwargs['psi']) is list) and (not (len(kwargs['psi']) != 4))", "kwargs['psi'][1]"),
  ("psi_2b", "('psi' in kwargs) and (not (kwargs['psi'] is None)) and (not (isinstance(kwargs['psi'], numbers.Integral))) and (type(kwargs['psi']) is tuple or type(kwargs['psi']) is list) and (not (len(kwargs['psi']) != 4))", "kwargs['psi'][2]"),
  ("psi_2e", "('psi' in kwargs) and (not (kwargs['psi'] is None)) and (not (isinstance(kwargs['psi'], numbers.Integral))) and (type(kwargs['psi']) is tuple or type(kwargs['psi']) is list) and (not (len(kwargs['psi']) != 4))", "kwargs['psi'][3]"),
  ("use_pruning", "('use_pruning' in kwargs) and (kwargs['use_pruning'] is None)", "False"),
  ("use_pruning", "('use_pruning' in kwargs) and (not (kwargs['use_pruning'] is None))", "kwargs['use_pruning']"),
  ("only_ub", "('only_ub' in kwargs) and (kwargs['only_ub'] is None)", "False"),
  ("only_ub", "('only_ub' in kwargs) and (not (kwargs['only_ub'] is None))", "kwargs['only_ub']"),
  ("inner_dist", "('inner_dist' in kwargs) and (kwargs['inner_dist'] == 'squared euclidean' or kwargs['inner_dist'] == 0)", "0"),
  ("inner_dist", "('inner_dist' in kwargs) and (not (kwargs['inner_dist'] == 'squared euclidean' or kwargs['inner_dist'] == 0)) and (kwargs['inner_dist'] == 'euclidean' or kwargs['inner_dist'] == 1)", "1")
] := by decide +kernel

end Dtai
