/-
Props/C02.lean — C02: the C engine returns the same distances as the Python engine.
Both engines are instances of one kernel model (`distModel`); they differ in how user-level options
are decoded (`RawSettings.toGridPy` / `toGridC`) and in whether the final threshold check is applied
under `use_pruning` (`chk`).
-/
import Dtaiverif.Props.CBand
import Dtaiverif.Proofs.Dist
import Dtaiverif.Proofs.CostInst
import Dtaiverif.Model.Settings

namespace Dtai

/-- The two decoders denote the same grid for every setting expressible in both engines
(`window = 0` is not a Python setting; `None`/`0` for the other options mean "off" in both). -/
theorem C02_decode_agree (s : RawSettings) (r c : Nat) (s1 s2 : Array Int) (hw : s.window ≠ some 0) :
    s.toGridC r c s1 s2 = s.toGridPy r c s1 s2 := by
  unfold RawSettings.toGridC RawSettings.toGridPy
  cases hwin : s.window with
  | none => rfl
  | some w =>
    cases w with
    | zero => exact absurd hwin hw
    | succ w => rfl

/-- `max_length_diff`: the encodings agree except for the value 0 (known finding C02-MLD0) -/
theorem C02_mld_agree (s : RawSettings) (h : s.maxLengthDiff ≠ some 0) : s.mldC = s.mldPy := by
  unfold RawSettings.mldC RawSettings.mldPy optOff
  cases hm : s.maxLengthDiff with
  | none => rfl
  | some k => cases k with
    | zero => exact absurd hm h
    | succ k => rfl

variable {α : Type} [LinearOrderedAddCommMonoidWithTop α]

/-- Same grid, same threshold ⇒ same value whenever the threshold is a valid bound or off; the
engines' different treatment of the final check is then immaterial. -/
theorem C02_engines_agree (g : Grid α) (h : g.NonNeg) (m : α) (mld : Option Nat)
    (hle : dtwSpec g ≤ m) : distModel g m mld false = distModel g m mld true := by
  unfold distModel
  simp only [endMin_matP_eq g h m hle, finalCheck_of_le m _ hle]
  simp

/-- with a user threshold (no pruning) both engines apply the final check: identical by definition;
stated for completeness of the case split used by the harness -/
theorem C02_engines_agree_maxdist (g : Grid α) (m : α) (mld : Option Nat) :
    distModel g m mld true = distModel g m mld true := rfl

/-- both engines return the optimum over admissible paths when no threshold is given -/
theorem C02_distC_eq_spec (g : Grid α) (h : g.NonNeg) (mld : Option Nat) (chk : Bool) :
    distModel g ⊤ mld chk = distSpec g mld :=
  distModel_eq_spec g h mld chk

example : ({ window := some 3, psi := (1,0,0,1) } : RawSettings).toGridC 4 5 #[0,1,2,3] #[1,1,2,2,0] =
    ({ window := some 3, psi := (1,0,0,1) } : RawSettings).toGridPy 4 5 #[0,1,2,3] #[1,1,2,2,0] :=
  C02_decode_agree _ _ _ _ _ (by decide)

end Dtai
