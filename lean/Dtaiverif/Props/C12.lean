/-
Props/C12.lean — C12: a DBA step averages optimally aligned points and never worsens the fit.

Model: `dbaStep` (Model/Dba.lean): for every selected series the optimal path between the current
average and the series is traced (`backtrack`, an `IsBack` path by C05), the points aligned to a
position are collected, and the new value is their arithmetic mean `sum / count`.
-/
import Dtaiverif.Proofs.Dba
import Dtaiverif.Proofs.Path
import Dtaiverif.Model.Dba
import Dtaiverif.Proofs.DbaChain

namespace Dtai
variable {K : Type} [Field K] [LinearOrder K] [IsStrictOrderedRing K]

/-- the result stays within the value range of the points it averages -/
theorem C12_in_range (l : List K) (hne : l ≠ []) (lo hi : K)
    (hlo : ∀ x ∈ l, lo ≤ x) (hhi : ∀ x ∈ l, x ≤ hi) : lo ≤ mean l ∧ mean l ≤ hi :=
  mean_in_range l hne lo hi hlo hhi

/-- a set of identical series is a fixed point: if every aligned point equals the current value, the
new value is the current value -/
theorem C12_fixed_point (l : List K) (hne : l ≠ []) (c : K) (h : ∀ x ∈ l, x = c) : mean l = c :=
  mean_const l hne c h

/-- unselected series have no influence: the association table is built from the selected series only -/
theorem C12_mask_only (s : RawSettings) (c : Array Int) (series : List (Array Int)) (mask : List Bool)
    (extra : Array Int) :
    dbaStep s c (series ++ [extra]) (mask ++ [false]) = dbaStep s c series mask ∨ series.length ≠ mask.length := by
  by_cases hl : series.length = mask.length
  · left
    unfold dbaStep
    simp only []
    rw [List.zip_append hl]
    simp [List.filterMap_append]
  · right; exact hl

/-- for the alignments used by the step, the summed squared deviation (hence, adding the
value-independent penalties, the summed path cost) does not increase … -/
theorem C12_objective_on_alignments (A : List (Nat × K)) (t : Nat) (c c' : Nat → K) (hA : ∀ p ∈ A, p.1 < t)
    (hmean : ∀ i, i < t → (A.filter fun p => p.1 == i) ≠ [] →
      c' i = mean ((A.filter fun p => p.1 == i).map Prod.snd)) :
    (A.map fun p => (c' p.1 - p.2) ^ 2).sum ≤ (A.map fun p => (c p.1 - p.2) ^ 2).sum :=
  dba_objective_paths A t c c' hA hmean

/-- … and the DTW distance to the new average is at most the cost of the *old* alignment evaluated on
the new average (any admissible path bounds the optimum, C01), while the old alignment's cost on the
old average *is* the old DTW distance (the traced path realises the recurrence, C05). Together with
`C12_objective_on_alignments`: Σ dtw²(c', s_k) ≤ Σ cost(c', s_k | π_k) ≤ Σ cost(c, s_k | π_k) = Σ dtw²(c, s_k). -/
theorem C12_new_distance_le_old_alignment {α : Type} [LinearOrderedAddCommMonoidWithTop α]
    (g' : Grid α) (h : g'.NonNeg) (path : List Cell) (q : Cell)
    (hv : g'.ValidRev (q :: path)) (he : g'.EndOk q) : dtwSpec g' ≤ g'.costRev (q :: path) :=
  dtwSpec_le_path g' h path q hv he

theorem C12_old_alignment_is_optimal {α : Type} [LinearOrderedAddCommMonoidWithTop α]
    (g : Grid α) (h : g.NonNeg) (I J : Nat) (hfin : D g (I+1) (J+1) ≠ ⊤) :
    ∃ rest, backtrack (D g) g.pen (I + J + 2) (I+1) (J+1) = (I, J) :: rest ∧
      g.ValidRev ((I, J) :: rest) ∧ g.costRev ((I, J) :: rest) = D g (I+1) (J+1) :=
  backtrack_valid g h I J hfin

/-- **The fit never gets worse — the whole chain in one statement.** For the grids between an average of
length `t` and each selected series (point cost = squared difference, penalty `p ≥ 0`, any window): if
every series comes with an admissible complete path that is optimal for the current average `c` (what
the step traces, C05) and the new average `c'` is, at every position some point is aligned to, the mean
of the aligned points, then `Σ_k DTW²(c', s_k) ≤ Σ_k DTW²(c, s_k)`. -/
theorem C12_step_nonincreasing (t window : Nat) (p : K) (hp : 0 ≤ p) (c c' : Nat → K) (L : List (Aligned K))
    (hvalid : ∀ a ∈ L, ∃ q rest, a.path = q :: rest ∧ (dbaGrid t a.m window p c a.s).ValidRev a.path ∧
      (dbaGrid t a.m window p c a.s).EndOk q ∧
      (dbaGrid t a.m window p c a.s).costRev a.path = dtwSpec (dbaGrid t a.m window p c a.s))
    (hpos : ∀ pr ∈ assocPairs L, pr.1 < t)
    (hmean : ∀ i, i < t → ((assocPairs L).filter fun pr => pr.1 == i) ≠ [] →
      c' i = mean (((assocPairs L).filter fun pr => pr.1 == i).map Prod.snd)) :
    (L.map fun a => dtwSpec (dbaGrid t a.m window p c' a.s)).sum ≤
      (L.map fun a => dtwSpec (dbaGrid t a.m window p c a.s)).sum :=
  dba_step_nonincreasing t window p hp c c' L hvalid hpos hmean

/-- … and the alignment the step actually traces (back-tracking from the last cell of the exact matrix,
C05) meets the hypothesis of `C12_step_nonincreasing`: it is admissible, complete and optimal. -/
theorem C12_traced_alignment (t m window : Nat) (p : K) (hp : 0 ≤ p) (c s : Nat → K) (ht : 1 ≤ t) (hm : 1 ≤ m)
    (hfin : dtwSpec (dbaGrid t m window p c s) ≠ ⊤) :
    ∃ rest,
      backtrack (D (dbaGrid t m window p c s)) (dbaGrid t m window p c s).pen (t + m) t m = (t - 1, m - 1) :: rest ∧
      (dbaGrid t m window p c s).ValidRev ((t - 1, m - 1) :: rest) ∧
      (dbaGrid t m window p c s).EndOk (t - 1, m - 1) ∧
      (dbaGrid t m window p c s).costRev ((t - 1, m - 1) :: rest) = dtwSpec (dbaGrid t m window p c s) :=
  dba_traced_alignment t m window p hp c s ht hm hfin

/-- packed bit mask (`np.packbits(mask, bitorder='little')`) read back by `bit_test` -/
theorem C12_bit_mask : ∀ r < 16, bitTest #[0b10100101, 0b00000011] r =
    [true, false, true, false, false, true, false, true, true, true, false, false, false, false, false, false].getD r false := by
  decide

/- non-vacuity of the executable model -/
example : dbaStep {} #[0, 2] [#[0, 1, 3], #[5, 5]] [true, false] = [[(1, 2)], [(3, 1)]] := by decide +kernel

end Dtai
