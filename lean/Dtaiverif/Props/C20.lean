/-
Props/C20.lean — C20 (the part that is decision logic): a series reaches a C kernel with exactly its
numeric content, whatever the memory layout of the NumPy view it came in.

Model: `Model/Views.lean` (views = base/shape/strides over an address space; a kernel reads through a bare
pointer with unit stride, row-major). `Generated/Contiguity.lean` is re-extracted from /repo on every
run: the flag each guard tests and the order of the copy it makes. The theorems say that the guards as
they are in the source (`c_contiguous`, copy in C order) make kernel reads equal to the logical content
for EVERY view (any strides, negative or zero strides, transposed / Fortran order / sliced), and that
the weaker flag `contiguous` would not.

The other clauses of C20 (inputs are not written to, results do not depend on earlier calls, NumPy
absent) are runtime facts; they are decided by the correspondence harness only (see DESIGN.md).
-/
import Mathlib.Tactic
import Dtaiverif.Model.Views
import Dtaiverif.Generated.Contiguity

namespace Dtai
variable {α : Type}

theorem View1.kernel_eq_get (mem : Int → α) (v : View1) (fl : ContigFlag) (h : v.flag fl = true) (i : Nat) (hi : i < v.n) :
    v.kernel mem i = v.get mem i := by
  simp only [View1.flag, Bool.or_eq_true, decide_eq_true_eq] at h
  simp only [View1.kernel, View1.get]
  rcases h with h | h
  · have : i = 0 := by omega
    subst this; simp
  · rw [h]; simp

theorem View2.kernel_eq_get (mem : Int → α) (v : View2) (h : v.cContig = true) (i k : Nat) (hi : i < v.n) (hk : k < v.d) :
    v.kernel mem i k = v.get mem i k := by
  simp only [View2.cContig, Bool.and_eq_true, Bool.or_eq_true, decide_eq_true_eq] at h
  obtain ⟨h1, h0⟩ := h
  simp only [View2.kernel, View2.get]
  congr 1
  have hk' : (k : Int) * v.s1 = k := by
    rcases h1 with h1 | h1
    · have : k = 0 := by omega
      subst this; simp
    · rw [h1]; simp
  have hi' : (i : Int) * v.s0 = i * v.d := by
    rcases h0 with h0 | h0
    · have : i = 0 := by omega
      subst this; simp
    · rw [h0]
  rw [hk', hi']
  push_cast
  ring

/-- the C-order copy holds the logical content and is C-contiguous -/
theorem View2.copyC_spec (mem : Int → α) (v : View2) :
    (v.copyC mem).2.cContig = true ∧ (v.copyC mem).2.n = v.n ∧ (v.copyC mem).2.d = v.d ∧
    ∀ i k, i < v.n → k < v.d → (v.copyC mem).2.kernel (v.copyC mem).1 i k = v.get mem i k := by
  refine ⟨by simp [View2.copyC, View2.cContig], rfl, rfl, ?_⟩
  intro i k _ hk
  simp only [View2.copyC, View2.kernel, zero_add, Int.toNat_natCast]
  have hd : 0 < v.d := by omega
  rw [Nat.mul_comm, Nat.mul_add_div hd, Nat.div_eq_of_lt hk, Nat.add_zero, Nat.mul_add_mod, Nat.mod_eq_of_lt hk]

theorem View1.copyC_spec (mem : Int → α) (v : View1) (fl : ContigFlag) :
    (v.copyC mem).2.flag fl = true ∧ (v.copyC mem).2.n = v.n ∧
    ∀ i, (v.copyC mem).2.kernel (v.copyC mem).1 i = v.get mem i := by
  refine ⟨by simp [View1.copyC, View1.flag], rfl, ?_⟩
  intro i
  simp [View1.copyC, View1.kernel]

/-- **Layout independence, univariate**: with any of the flags as guard, what the kernel reads from the
prepared buffer is the logical content of the view — for every base, length and stride. -/
theorem C20_prepare1 (fl : ContigFlag) (mem : Int → α) (v : View1) (i : Nat) (hi : i < v.n) :
    (v.prepare fl mem).2.kernel (v.prepare fl mem).1 i = v.get mem i := by
  unfold View1.prepare
  split
  · rename_i h; exact View1.kernel_eq_get mem v fl h i hi
  · exact (View1.copyC_spec mem v fl).2.2 i

/-- **Layout independence, multivariate**: with the guard `c_contiguous` the kernel reads the logical
content of every view, whatever its strides (C order, Fortran order, transposed, sliced, reversed). -/
theorem C20_prepare2 (mem : Int → α) (v : View2) (i k : Nat) (hi : i < v.n) (hk : k < v.d) :
    (v.prepare .c mem).2.kernel (v.prepare .c mem).1 i k = v.get mem i k := by
  unfold View2.prepare
  split
  · rename_i h; exact View2.kernel_eq_get mem v h i k hi hk
  · exact (View2.copyC_spec mem v).2.2.2 i k hi hk

/-- **Layout independence for a 3-D collection** (`n` series × `len` points × `d` values handed to the
matrix routines as one block): after the guard, series `i`, point `j`, value `k` is read at offset
`(i*len + j)*d + k`, whatever the strides of the array the caller passed. -/
theorem C20_prepare3 (mem : Int → α) (v : View3) (i j k : Nat) (hi : i < v.n) (hj : j < v.len) (hk : k < v.d) :
    (v.prepare mem).2.kernel (v.prepare mem).1 i j k = v.get mem i j k := by
  unfold View3.prepare
  split
  · rename_i h
    simp only [View3.cContig, Bool.and_eq_true, Bool.or_eq_true, decide_eq_true_eq] at h
    obtain ⟨⟨h2, h1⟩, h0⟩ := h
    simp only [View3.kernel, View3.get]
    congr 1
    have hk' : (k : Int) * v.s2 = k := by
      rcases h2 with h2 | h2
      · have : k = 0 := by omega
        subst this; simp
      · rw [h2]; simp
    have hj' : (j : Int) * v.s1 = j * v.d := by
      rcases h1 with h1 | h1
      · have : j = 0 := by omega
        subst this; simp
      · rw [h1]
    have hi' : (i : Int) * v.s0 = i * (v.len * v.d) := by
      rcases h0 with h0 | h0
      · have : i = 0 := by omega
        subst this; simp
      · rw [h0]
    rw [hk', hj', hi']
    push_cast
    ring
  · simp only [View3.copyC, View3.kernel, zero_add, Int.toNat_natCast]
    have hd : 0 < v.d := by omega
    have hl : 0 < v.len := by omega
    have hld : 0 < v.len * v.d := Nat.mul_pos hl hd
    have hlt : j * v.d + k < v.len * v.d := by
      calc j * v.d + k < j * v.d + v.d := by omega
        _ = (j + 1) * v.d := by ring
        _ ≤ v.len * v.d := Nat.mul_le_mul_right _ (by omega)
    have e : (i * v.len + j) * v.d + k = (v.len * v.d) * i + (j * v.d + k) := by ring
    rw [e, Nat.mul_add_div hld, Nat.div_eq_of_lt hlt, Nat.add_zero, Nat.mul_add_mod, Nat.mod_eq_of_lt hlt]
    have e2 : j * v.d + k = v.d * j + k := by ring
    have e3 : (v.len * v.d * i + (j * v.d + k)) % v.d = k := by
      rw [show v.len * v.d * i + (j * v.d + k) = v.d * (v.len * i + j) + k by ring, Nat.mul_add_mod,
        Nat.mod_eq_of_lt hk]
    rw [e3, e2, Nat.mul_add_div hd, Nat.div_eq_of_lt hk, Nat.add_zero]

/-- … and the weaker guard `contiguous` (C **or** Fortran order) would not do: a 2×2 Fortran-ordered
view of four distinct numbers is passed through unchanged and the kernel reads the transposed content -/
theorem C20_any_flag_insufficient :
    ∃ (mem : Int → Nat) (v : View2) (i k : Nat), i < v.n ∧ k < v.d ∧
      (v.prepare .any mem).2.kernel (v.prepare .any mem).1 i k ≠ v.get mem i k :=
  ⟨fun a => a.toNat, { base := 0, n := 2, d := 2, s0 := 1, s1 := 2 }, 0, 1, by decide, by decide, by decide⟩

/-- **The guards in /repo's source** (re-extracted on every run): every site tests `c_contiguous` and
copies in C order -/
theorem C20_sites_ok : Gen.contigSites.all (fun s => s.2.1 == ContigFlag.c && s.2.2) = true := by decide

theorem C20_sites_nonempty : Gen.contigSites.length = 4 := by decide

end Dtai
