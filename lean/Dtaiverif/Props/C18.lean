/-
Props/C18.lean — C18: the affinity (local-concurrence) matrix follows its recurrence; matches are
contiguous monotone paths through positive cells that never reuse a cell of an earlier match.

Model: `Model/Affinity.lean`. Numbers live in any linearly ordered commutative ring (`Rat` in the
driver, which evaluates the recurrence exactly on the floating-point affinities of the implementation);
the point affinities `exp(-gamma·diff²)` are an arbitrary table. The neighbour-selection rule of the walk
is a parameter: the theorems hold for the Python rule (`choosePy`), the C rule (`chooseC`) and any other.
-/
import Dtaiverif.Proofs.Affinity
import Dtaiverif.Props.PyBand

namespace Dtai
variable {β : Type} [CommRing β] [LinearOrder β] [IsStrictOrderedRing β]

/-- the executable row scan (what the driver runs) computes the recurrence -/
theorem C18_scan (g : AffGrid β) (I : Nat) : affRows g I = (List.range (g.c + 1)).map (affSpec g I) :=
  affRows_eq g I

/-- **Excluded cells** are exactly the cells outside the band and, with `only_triu`, below the diagonal;
of the borders only the origin is a cell. -/
theorem C18_excluded (g : AffGrid β) (I J : Nat) :
    (affSpec g (I+1) (J+1) = none ↔ ¬ (g.jStart I ≤ J ∧ J < g.jEnd I)) ∧
    (g.onlyTriu = true → J < I → affSpec g (I+1) (J+1) = none) ∧
    affSpec g 0 (J+1) = none ∧ affSpec g (I+1) 0 = none ∧ affSpec g 0 0 = some 0 := by
  refine ⟨?_, ?_, by rw [affSpec], by rw [affSpec], by rw [affSpec]⟩
  · rw [affSpec_none_iff]
    simp [AffGrid.inBand]
  · intro ht hlt
    rw [affSpec_none_iff]
    simp only [AffGrid.inBand, AffGrid.jStart, ht, if_true, Bool.and_eq_false_imp, decide_eq_true_eq,
      decide_eq_false_iff_not]
    intro h
    have : I ≤ J := le_trans (le_max_left _ _) h
    omega

/-- **The documented recurrence.** An in-band cell with best penalised predecessor `p` holds
`max(0, S + F·p)` with `(S, F) = (delta, delta_factor)` when the point affinity is below `tau` and
`(affinity, 1)` otherwise; with no predecessor it holds 0; in every case it is `≥ 0`. -/
theorem C18_recurrence (g : AffGrid β) (I J : Nat) (hband : g.inBand I J = true) :
    let prev := omax (affSpec g I J) (omax (osub (affSpec g I (J+1)) g.pen) (osub (affSpec g (I+1) J) g.pen))
    let S := if g.aff I J < g.tau then g.delta else g.aff I J
    let F := if g.aff I J < g.tau then g.deltaFactor else 1
    (∀ p, prev = some p → affSpec g (I+1) (J+1) = some (max 0 (S + F * p))) ∧
    (prev = none → affSpec g (I+1) (J+1) = some 0) ∧
    ∀ v, affSpec g (I+1) (J+1) = some v → 0 ≤ v := by
  intro prev S F
  refine ⟨?_, ?_, fun v hv => affSpec_nonneg g _ _ v hv⟩
  · intro p hp
    rw [affSpec_in, affCell, if_pos hband, affStep]
    have hp' : omax (affSpec g I J) (omax (osub (affSpec g I (J+1)) g.pen) (osub (affSpec g (I+1) J) g.pen)) = some p := hp
    rw [hp']
    simp only [S, F]
    split <;> simp
  · intro hp
    rw [affSpec_in, affCell, if_pos hband, affStep]
    have hp' : omax (affSpec g I J) (omax (osub (affSpec g I (J+1)) g.pen) (osub (affSpec g (I+1) J) g.pen)) = none := hp
    rw [hp']

/-- **A traced match**: started in a positive cell off the borders, the walk returns a chain of
diagonal / up / left steps beginning in that cell, all of whose cells are positive. -/
theorem C18_walk (choose : Option β → Option β → Option β → Nat) (wp : WP β) (r c : Nat) (hr : 1 ≤ r) (hc : 1 ≤ c)
    (hstart : posVal (wp.get r c) = true) :
    (lcRaw choose wp r c).IsChain StepBack ∧ (∀ q ∈ lcRaw choose wp r c, posVal (wp.get q.1 q.2) = true) ∧
      (lcRaw choose wp r c).head? = some (r, c) :=
  lcRaw_spec choose wp r c hr hc hstart

theorem wpPositivize_get00 (wp : WP β) (h : wp.get 0 0 = some 0) : (wpPositivize wp).get 0 0 = some 0 := by
  unfold wpPositivize WP.get at *
  simp only [List.getElem?_map] at *
  cases hrow : wp[0]? with
  | none => rw [hrow] at h; simp at h
  | some row =>
    rw [hrow] at h
    simp only [Option.bind_some, Option.map_some, List.getElem?_map] at h ⊢
    cases hv : row[0]? with
    | none => rw [hv] at h; simp at h
    | some v =>
      rw [hv] at h
      simp only [Option.join_some] at h
      subst h
      simp

/-- state between calls: the matches of the current epoch (since the last reset that really made the
matrix positive again) are pairwise disjoint and all their cells are negative in the working matrix -/
structure EpochInv (wp : WP β) (live : List LCMatchM) : Prop where
  origin : wp.get 0 0 = some 0
  negative : ∀ m ∈ live, ∀ q ∈ m.cells, negVal (wp.get q.1 q.2) = true
  disjoint : live.Pairwise CellsDisjoint

/-- **One call of `kbest_matches(k, minlen, restart)`**, for either reset behaviour and any walk rule:
at most `k` matches; each starts in the cell it is named after, is a contiguous monotone chain of at
least `minlen` cells that are positive in the matrix the call started from; the matches of the call are
pairwise disjoint, disjoint from every earlier match of the same epoch, and the epoch invariant holds
again afterwards. -/
theorem C18_call (choose : Option β → Option β → Option β → Nat) (resetPos : Bool) (k : Option Nat)
    (minlen : Nat) (restart : Bool) (wp : WP β) (live : List LCMatchM) (hinv : EpochInv wp live) :
    let wp0 := if restart && resetPos then wpPositivize wp else wp
    let res := lcCall choose resetPos k minlen restart wp
    let live' := if restart && resetPos then res.1 else live ++ res.1
    (∀ m ∈ res.1, MatchOK wp0 minlen m) ∧ (∀ kk, k = some kk → res.1.length ≤ kk) ∧ EpochInv res.2 live' := by
  intro wp0 res live'
  have h00 : wp0.get 0 0 = some 0 := by
    simp only [wp0]
    split
    · exact wpPositivize_get00 wp hinv.origin
    · exact hinv.origin
  have hgo := lcGo_spec choose k minlen (wp0.foldl (fun n row => n + row.length) 0) wp0
    (wp0.foldl (fun n row => n + row.length) 0 + 1) 0 wp0 [] (Flip.refl wp0) h00 rfl (by simp) List.Pairwise.nil
  have hres : res = lcCall.go choose k minlen (wp0.foldl (fun n row => n + row.length) 0)
      (wp0.foldl (fun n row => n + row.length) 0 + 1) 0 wp0 [] := rfl
  rw [← hres] at hgo
  obtain ⟨g1, g2, g3, g4, g5⟩ := hgo
  refine ⟨fun m hm => (g3 m hm).1, fun kk hk => g5 kk hk (by simp), ?_⟩
  simp only [live']
  by_cases hfresh : (restart && resetPos) = true
  · simp only [hfresh, if_true]
    exact ⟨g2, fun m hm => (g3 m hm).2, g4⟩
  · have hwp0 : wp0 = wp := by simp only [wp0, hfresh]; rfl
    simp only [hfresh]
    refine ⟨g2, ?_, ?_⟩
    · intro m hm q hq
      rcases List.mem_append.mp hm with hm | hm
      · exact g1.negMono q.1 q.2 (by rw [hwp0]; exact hinv.negative m hm q hq)
      · exact (g3 m hm).2 q hq
    · refine List.pairwise_append.mpr ⟨hinv.disjoint, g4, ?_⟩
      intro a ha b hb q hqa hqb
      -- q is negative in wp (earlier match) and positive in wp (new match)
      have h1 := posVal_not_negVal _ ((g3 b hb).1.positive q hqb)
      rw [hwp0, hinv.negative a ha q hqa] at h1
      cases h1

/-- the object-level history: every call updates the matrix and the list of matches of the current epoch -/
def lcHistory (choose : Option β → Option β → Option β → Nat) (resetPos : Bool)
    (calls : List (Option Nat × Nat × Bool)) (st : WP β × List LCMatchM) : WP β × List LCMatchM :=
  calls.foldl (fun st call =>
    let res := lcCall choose resetPos call.1 call.2.1 call.2.2 st.1
    (res.2, if call.2.2 && resetPos then res.1 else st.2 ++ res.1)) st

/-- **All sequences of calls**: after any history of `kbest_matches` calls with any `k`, `minlen`,
`restart` flags, the matches found since the last real reset are pairwise disjoint. With the reset of
the non-compact variant (which never makes the matrix positive again, `resetPos = false`) that covers
all matches ever returned by the object. -/
theorem C18_history (choose : Option β → Option β → Option β → Nat) (resetPos : Bool)
    (calls : List (Option Nat × Nat × Bool)) (wp : WP β) (live : List LCMatchM) (hinv : EpochInv wp live) :
    EpochInv (lcHistory choose resetPos calls (wp, live)).1 (lcHistory choose resetPos calls (wp, live)).2 := by
  induction calls generalizing wp live with
  | nil => exact hinv
  | cons call rest ih =>
    simp only [lcHistory, List.foldl_cons]
    exact ih _ _ (C18_call choose resetPos call.1 call.2.1 call.2.2 wp live hinv).2.2

/-- non-vacuity: a small matrix, the Python walk rule, two calls on one object -/
example :
    let wp : WP Rat := [[some 0, none, none, none], [none, some 1, some 0, some 1], [none, some 0, some 2, some 1],
                        [none, some 1, some 1, some 3]]
    ((lcHistory choosePy false [(some 1, 2, true), (none, 1, false)] (wp, [])).2.map fun m => (m.row, m.col, m.cells.length))
      = [(3, 3, 3), (1, 3, 1), (2, 3, 1), (3, 1, 1), (3, 2, 1)] := by
  decide +kernel

end Dtai
