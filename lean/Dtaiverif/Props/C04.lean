/-
Props/C04.lean — C04: the accumulated-cost matrix is cell-wise optimal and identical across engines.
Python `warping_paths` = `wpsModel` (matrix `matP`); the C engine stores the same cells in the compact
layout `wpsParts`/`locColumns`/`wpsLoc` and expands them with `expandSlice`.
-/
import Dtaiverif.Props.CBand
import Dtaiverif.Proofs.Wps
import Dtaiverif.Proofs.Compact
import Dtaiverif.Proofs.CostInst
import Dtaiverif.Generated.LayoutPlan
import Dtaiverif.Props.PyBand

namespace Dtai
variable {α : Type} [LinearOrderedAddCommMonoidWithTop α]

/-- shape `(len1+1) × (len2+1)` -/
theorem C04_shape (g : Grid α) (h : g.NonNeg) (m : α) :
    (wpsModel g m).mat.length = g.r + 1 ∧
    ∀ I, I ≤ g.r → ((wpsModel g m).mat.getD I []).length = g.c + 1 := by
  have hm : (wpsModel g m).mat = matP g m g.r := by
    unfold wpsModel; simp only [apply_ite WpsOut.mat, ite_self]
  rw [hm]
  exact ⟨matP_length g h m g.r, fun I hI => matP_row_length g h m g.r I hI⟩

/-- without a threshold every cell equals the recurrence `D`, which by C01_cell_lower_bound /
C01_cell_attained is the minimum cost of an admissible partial path ending in that cell -/
theorem C04_cells_exact (g : Grid α) (h : g.NonNeg) (I J : Nat) (hI : I ≤ g.r) (hJ : J ≤ g.c) :
    cellOf (matP g ⊤ g.r) I J = D g I J :=
  (matP_rel g h ⊤ g.r I J hI hJ).eq le_top

/-- with a threshold `m`: a cell is exact whenever its optimum is `≤ m`; otherwise it holds a value
that is at least the optimum, hence above `m` (possibly `⊤`) — exactly the permitted freedom -/
theorem C04_cells (g : Grid α) (h : g.NonNeg) (m : α) (I J : Nat) (hI : I ≤ g.r) (hJ : J ≤ g.c) :
    (D g I J ≤ m → cellOf (matP g m g.r) I J = D g I J) ∧
    (¬ D g I J ≤ m → ¬ cellOf (matP g m g.r) I J ≤ m) := by
  have hrel := matP_rel g h m g.r I J hI hJ
  exact ⟨hrel.eq, fun hn hle => hn (le_trans hrel.le hle)⟩

/-- the optimum of a cell outside the window band (or above `max_step`) is infinite, and so is the
reported cell -/
theorem C04_outside_band (g : Grid α) (h : g.NonNeg) (m : α) (i j : Nat) (hi : i < g.r) (hj : j < g.c)
    (hout : g.ok i j = false) :
    D g (i+1) (j+1) = ⊤ ∧ cellOf (matP g m g.r) (i+1) (j+1) = ⊤ := by
  have hD := D_succ_not_ok g i j hout
  refine ⟨hD, ?_⟩
  have hrel := matP_rel g h m g.r (i+1) (j+1) (by omega) (by omega)
  exact top_le_iff.mp (hD ▸ hrel.le)

/-- the distance returned together with the matrix is the one the distance-only routine returns -/
theorem C04_dist_agrees (g : Grid α) (h : g.NonNeg) (hn : g.NonDegenerate) (m : α)
    (hp1 : g.psi1e ≤ g.r) (hp2 : g.psi2e ≤ g.c) :
    finalCheck m (wpsModel g m).d = distModel g m none true := by
  rw [wpsModel_d g h hn m hp1 hp2]; rfl

/-! ### compact layout of the C engine (all lengths, all windows) -/

/-- every stored cell of compact row `r` lies inside row `r` of a buffer with `width` columns: the
buffer of `dtw_settings_wps_length` doubles is sufficient and rows never overlap -/
theorem C04_compact_in_row (l1 l2 window r : Nat) (h1 : 1 ≤ l1) (h2 : 1 ≤ l2) (hr1 : 1 ≤ r) (hr : r ≤ l1) :
    let p := wpsParts l1 l2 window
    let lc := locColumns p l2 r
    r * p.width ≤ lc.1 ∧ lc.2.1 ≤ min lc.2.2 (l2 + 1) ∧
      lc.1 + (min lc.2.2 (l2 + 1) - lc.2.1) ≤ r * p.width + p.width :=
  locColumns_in_row l1 l2 window r h1 h2 hr1 hr

/-- distinct cells are stored at distinct indices -/
theorem C04_compact_inj (l1 l2 window r c r' c' i : Nat) (h1 : 1 ≤ l1) (h2 : 1 ≤ l2)
    (hr : r ≤ l1) (hr' : r' ≤ l1)
    (h : wpsLoc (wpsParts l1 l2 window) l2 r c = some i)
    (h' : wpsLoc (wpsParts l1 l2 window) l2 r' c' = some i) : r = r' ∧ c = c' :=
  wpsLoc_inj l1 l2 window r c r' c' i h1 h2 hr hr' h h'

/-- the cells stored for row `r` are exactly "left neighbour + band cells" of the Python band -/
theorem C04_compact_eq_band (g : Grid α) (window r : Nat) (h1 : 1 ≤ g.r) (h2 : 1 ≤ g.c)
    (hw : g.window = effWindow g.r g.c window) (hr1 : 1 ≤ r) (hr : r ≤ g.r) :
    (locColumns (wpsParts g.r g.c window) g.c r).2.1 = g.jStart (r - 1) ∧
    min (locColumns (wpsParts g.r g.c window) g.c r).2.2 (g.c + 1) = g.jEnd (r - 1) + 1 :=
  locColumns_eq_band g window r h1 h2 hw hr1 hr

/-- expansion/slicing reads every stored cell from its compact index and reproduces the border zeros;
everything else is infinite -/
theorem C04_expand_cell (p : Parts) (l1 l2 psi1b psi2b : Nat) (wps : Array α) (rb re cb ce dr dc : Nat)
    (hdr : dr < re - rb) (hdc : dc < ce - cb) :
    ((expandSlice p l1 l2 psi1b psi2b wps rb re cb ce).getD dr []).getD dc ⊤ =
      (match wpsLoc p l2 (rb + dr) (cb + dc) with
       | some i => wps.getD i ⊤
       | none => if rb + dr = 0 ∧ cb + dc ≤ psi2b ∧ cb + dc ≤ l2 then 0
                 else if cb + dc = 0 ∧ 1 ≤ rb + dr ∧ rb + dr ≤ psi1b ∧ rb + dr ≤ l1 then 0 else ⊤) := by
  simp [expandSlice, List.getD, List.getElem?_map, List.getElem?_range hdr, List.getElem?_range hdc]
  rfl

/- non-vacuity -/
example : (wpsParts 4 4 2).ri2 = 2 ∧ (wpsParts 4 4 2).ri3 = 3 ∧ (wpsParts 4 4 2).width = 5 := by decide
example : wpsLoc (wpsParts 4 4 2) 4 4 3 = some 22 := by decide

/-! ### the layout functions of the C source are the transcribed ones

`Generated/LayoutPlan.lean` is re-extracted from `dd_dtw.c` on every run (translate/c_layout.py): the statements
of `dtw_wps_parts` (band geometry) and `dtw_wps_loc_columns` (stored column range and offset of every row), in
source order. `wpsParts` and `locColumns` of `Model/Compact.lean` are the closed forms of exactly these statements
(validated against the compiled functions by the correspondence run); any edit of the two C functions changes the
extracted lists and breaks this obligation. -/

def expectedLayoutFns : List Generated.LayoutFn := [
  { name := "dtw_wps_parts", params := "idx_t l1, idx_t l2, DTWSettings * settings",
    stmts := ["parts.window = settings->window",
      "if l1 > l2",
      "parts.ldiff = l1 - l2",
      "parts.ldiffr = parts.ldiff",
      "parts.ldiffc = 0",
      "else",
      "parts.ldiff = l2 - l1",
      "parts.ldiffr = 0",
      "parts.ldiffc = parts.ldiff",
      "if parts.window == 0",
      "parts.window = MAX(l1, l2)",
      "parts.width = l2 + 1",
      "else",
      "parts.window = MIN(parts.window, MAX(l1, l2))",
      "parts.width = MIN(l2 + 1, parts.ldiff + 2*parts.window + 1)",
      "parts.overlap_left_ri = MIN(parts.window + parts.ldiffr, l1 + 1)",
      "parts.overlap_right_ri = 0",
      "if (parts.window + parts.ldiffr) <= l1",
      "parts.overlap_right_ri = MAX(l1 + 1 - parts.window - parts.ldiffr, 0)",
      "parts.length = (l1 + 1) * parts.width",
      "parts.ri1 = MIN(l1, MIN(parts.overlap_left_ri, parts.overlap_right_ri))",
      "parts.ri2 = MIN(l1, parts.overlap_left_ri)",
      "parts.ri3 = MIN(l1, MAX(parts.overlap_left_ri, parts.overlap_right_ri))",
      "return parts"] },
  { name := "dtw_wps_loc_columns", params := "DTWWps* p, idx_t r, idx_t *cb, idx_t *ce, idx_t l1, idx_t l2",
    stmts := ["ri_width = p->width",
      "ri_width = p->width",
      "min_ci = 0",
      "max_ci = p->window + p->ldiffc + 1",
      "for ri=1; ri<p->ri1+1; ri++",
      "if ri == r",
      "*cb = min_ci",
      "*ce = max_ci",
      "return ri_width",
      "max_ci++",
      "ri_width += p->width",
      "min_ci = 0",
      "max_ci = l2 + 1",
      "for ri=p->ri1+1; ri<p->ri2+1; ri++",
      "if ri == r",
      "*cb = min_ci",
      "*ce = max_ci",
      "return ri_width",
      "ri_width += p->width",
      "min_ci = 1",
      "max_ci = 1 + 2 * p->window - 1 + p->ldiff + 1",
      "for ri=p->ri2+1; ri<p->ri3+1; ri++",
      "if ri == r",
      "*cb = min_ci",
      "*ce = max_ci",
      "return ri_width",
      "min_ci++",
      "max_ci++",
      "ri_width += p->width",
      "min_ci = MAX(0, p->ri3 + 1 - p->window - p->ldiffr)",
      "max_ci = l2 + 1",
      "wpsi_start = 2",
      "if p->ri2 == p->ri3",
      "wpsi_start = min_ci + 1",
      "else",
      "min_ci = 1 + p->ri3 - p->ri2",
      "for ri=p->ri3+1; ri<l1+1; ri++",
      "wpsi = wpsi_start - 1",
      "if ri == r",
      "*cb = min_ci",
      "*ce = max_ci",
      "return ri_width + wpsi",
      "wpsi_start++",
      "min_ci++",
      "ri_width += p->width",
      "return 0"] }
]

theorem C04_layout_source : Generated.layoutFns = expectedLayoutFns := by decide

end Dtai
