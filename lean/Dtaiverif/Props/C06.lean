/-
Props/C06.lean — C06: distance matrix = pairwise distances in the documented layout, any block.
`pairs n block` is the specification (row-major order of the selected (row, column) pairs); it is also
literally the loop nest of `distance_matrix_python` / `_distance_matrix_idxs`.
-/
import Dtaiverif.Proofs.Matrix

namespace Dtai

/-- the C double loop enumerates exactly the pairs the Python engine enumerates, in the same order -/
theorem C06_enumerations_agree (n : Nat) (b : Block) (hv : b.Valid n) :
    pairsC n (toCBlock (some b)) = pairs n (some b) :=
  pairsC_eq_some n b hv

theorem C06_enumerations_agree_noblock (n : Nat) : pairsC n (toCBlock none) = pairs n none :=
  pairsC_eq_none n

/-- advertised lengths (`_distance_matrix_length`, `dtw_distances_length`) = number of selected pairs,
for every valid block (triangular or rectangular, including blocks that select no pair) … -/
theorem C06_lengths_agree (n : Nat) (b : Block) (hv : b.Valid n) :
    lengthPy n (some b) = (pairs n (some b)).length ∧
    lengthC n (toCBlock (some b)) = (pairs n (some b)).length :=
  ⟨lengthPy_eq n b hv, lengthC_eq_some n b hv⟩

/-- … and without a block (`n(n-1)/2`, computed without overflow in C) -/
theorem C06_lengths_agree_noblock (n : Nat) :
    lengthPy n none = (pairs n none).length ∧ lengthC n (toCBlock none) = (pairs n none).length :=
  ⟨lengthPy_none n, lengthC_none n⟩

/-- the condensed-index helper addresses the element of the (unordered) pair -/
theorem C06_condensed_index (n a b : Nat) (hab : a < b) (hb : b < n) :
    (pairs n none)[condensedIndex a b n]? = some (a, b) ∧
    (pairs n none)[condensedIndex b a n]? = some (a, b) :=
  condensedIndex_spec n a b hab hb

/-- entry `k` of the compact result is the value computed for the `k`-th selected pair: the serial
loops write slot `k` while visiting the `k`-th pair (slots are assigned consecutively) -/
theorem C06_values (n : Nat) (b : Block) (rows : List Nat) (off : Nat) :
    ((planFrom n b off rows).flatMap (rowWrites n b)).map Prod.fst =
      List.range' off (((planFrom n b off rows).flatMap (rowWrites n b)).length) :=
  (plan_writes n b rows off).2

/- non-vacuity -/
example : (⟨1, 3, 0, 4, true⟩ : Block).Valid 4 := ⟨by decide, by decide, by decide, by decide⟩
example : pairs 4 (some ⟨1, 3, 0, 4, true⟩) = [(1,2), (1,3), (2,3)] := by decide
example : pairs 4 (some ⟨2, 4, 0, 2, true⟩) = [] := by decide   -- a valid block selecting no pair
example : lengthC 4 ⟨2, 4, 0, 2, true⟩ = 0 := by decide

end Dtai
