/-
Proofs/Subseq.lean — C13: with free start (and end) columns the last row of the accumulated-cost matrix
is, at end position `e`, the minimum over all start positions `b ≤ e` of the plain DTW cost between the
query and `series[b..e]`.
-/
import Dtaiverif.Proofs.Dist

namespace Dtai

variable {α : Type} [LinearOrderedAddCommMonoidWithTop α]

/-- the plain (no relaxation) sub-problem "query vs series[b..e]" -/
def subGrid (g : Grid α) (b e : Nat) : Grid α :=
  { r := g.r, c := e + 1 - b, window := g.r + g.c + 1, pen := g.pen, maxStep := g.maxStep,
    psi1b := 0, psi1e := 0, psi2b := 0, psi2e := 0, cost := fun i j => g.cost i (j + b) }

/-- the alignment grid: every pair `(i, j)` with `i < r`, `j < c` is admissible (no window, no max_step) -/
structure Grid.Full (g : Grid α) : Prop where
  ok : ∀ i j, i < g.r → j < g.c → g.ok i j = true

theorem subGrid_ok (g : Grid α) (hf : g.Full) (b e i j : Nat) (he : e < g.c) (hi : i < g.r)
    (hj : j + b ≤ e) : (subGrid g b e).ok i j = true := by
  have hbig := hf.ok i (j + b) hi (by omega)
  unfold Grid.ok at hbig ⊢
  simp only [Bool.and_eq_true, decide_eq_true_eq] at hbig ⊢
  refine ⟨?_, hbig.2⟩
  unfold Grid.inBand Grid.jStart Grid.jEnd subGrid
  simp only [Bool.and_eq_true, decide_eq_true_eq]
  constructor <;> omega

def shiftUp (b : Nat) (p : Cell) : Cell := (p.1, p.2 + b)
def shiftDown (b : Nat) (p : Cell) : Cell := (p.1, p.2 - b)

theorem isStep_shiftUp (b : Nat) (p q : Cell) (h : IsStep p q) : IsStep (shiftUp b p) (shiftUp b q) := by
  unfold IsStep shiftUp at *; simp only at *; omega

theorem isStep_shiftDown (b : Nat) (p q : Cell) (h : IsStep p q) (hp : b ≤ p.2) :
    IsStep (shiftDown b p) (shiftDown b q) := by
  unfold IsStep shiftDown at *; simp only at *; omega

theorem stepPen_shiftUp (g g' : Grid α) (hpen : g'.pen = g.pen) (b : Nat) (p q : Cell) :
    g.stepPen (shiftUp b p) (shiftUp b q) = g'.stepPen p q := by
  unfold Grid.stepPen shiftUp
  simp only [hpen]
  have : ((q.2 + b = p.2 + b + 1) ↔ (q.2 = p.2 + 1)) := by omega
  simp only [this]

/-- rows of an admissible path never exceed the row of its end cell -/
theorem validRev_rows (g : Grid α) : ∀ (path : List Cell) (q : Cell), g.ValidRev (q :: path) →
    ∀ p ∈ q :: path, p.1 ≤ q.1 ∧ p.2 ≤ q.2 := by
  intro path
  induction path with
  | nil => intro q _ p hp; simp at hp; subst hp; exact ⟨le_rfl, le_rfl⟩
  | cons x rest ih =>
    intro q hv p hp
    obtain ⟨hstep, _, hrest⟩ := hv
    rcases List.mem_cons.mp hp with rfl | hm
    · exact ⟨le_rfl, le_rfl⟩
    · have := ih x hrest p hm
      unfold IsStep at hstep
      omega

/-- a path of the sub-problem, shifted by `b` columns, is an admissible path of the alignment grid that
starts in `(0, b)`, with the same cost -/
theorem shiftUp_valid (g : Grid α) (hf : g.Full) (b e : Nat) (he : e < g.c) (hb : b ≤ g.psi2b) :
    ∀ (path : List Cell) (q : Cell), q.1 < g.r → q.2 + b ≤ e →
      (subGrid g b e).ValidRev (q :: path) →
      g.ValidRev ((q :: path).map (shiftUp b)) ∧
      g.costRev ((q :: path).map (shiftUp b)) = (subGrid g b e).costRev (q :: path) := by
  intro path
  induction path with
  | nil =>
    intro q hq1 hq2 hv
    obtain ⟨hs, _⟩ := hv
    have hq0 : q = (0, 0) := by
      rcases hs with ⟨h1, h2⟩ | ⟨h1, h2⟩ <;> (simp only [subGrid] at h1 h2; ext <;> simp <;> omega)
    subst hq0
    refine ⟨⟨Or.inl ⟨rfl, by simpa [shiftUp] using hb⟩, hf.ok 0 (0 + b) (by omega) (by omega)⟩, ?_⟩
    simp [Grid.costRev, shiftUp, subGrid]
  | cons p rest ih =>
    intro q hq1 hq2 hv
    obtain ⟨hstep, _, hrest⟩ := hv
    have hp : p.1 ≤ q.1 ∧ p.2 ≤ q.2 := by unfold IsStep at hstep; omega
    obtain ⟨hv', hc'⟩ := ih p (by omega) (by omega) hrest
    simp only [List.map_cons] at hv' hc' ⊢
    refine ⟨⟨isStep_shiftUp b p q hstep, hf.ok q.1 (q.2 + b) hq1 (by omega), hv'⟩, ?_⟩
    rw [Grid.costRev, Grid.costRev, hc', stepPen_shiftUp g (subGrid g b e) rfl]
    rfl

/-- conversely, an admissible path of the alignment grid whose first cell is `(0, b)` is, shifted back by
`b` columns, an admissible path of the sub-problem with the same cost -/
theorem shiftDown_valid (g : Grid α) (hf : g.Full) (hpsi : g.psi1b = 0) (e : Nat) (he : e < g.c) :
    ∀ (path : List Cell) (q : Cell), q.1 < g.r → q.2 ≤ e → g.ValidRev (q :: path) →
      ∃ b, b ≤ g.psi2b ∧ b ≤ q.2 ∧
        (subGrid g b e).ValidRev ((q :: path).map (shiftDown b)) ∧
        (subGrid g b e).costRev ((q :: path).map (shiftDown b)) = g.costRev (q :: path) ∧
        ∀ p ∈ q :: path, b ≤ p.2 := by
  intro path
  induction path with
  | nil =>
    intro q hq1 hq2 hv
    obtain ⟨hs, _⟩ := hv
    have hq : q.1 = 0 ∧ q.2 ≤ g.psi2b := by
      rcases hs with ⟨h1, h2⟩ | ⟨h1, h2⟩
      · exact ⟨h1, h2⟩
      · exact ⟨by omega, by omega⟩
    refine ⟨q.2, hq.2, le_rfl, ?_, ?_, ?_⟩
    · refine ⟨Or.inl ⟨by simp [shiftDown, hq.1], by simp [shiftDown, subGrid]⟩, ?_⟩
      simp only [List.map_cons, List.map_nil, shiftDown, Nat.sub_self]
      exact subGrid_ok g hf q.2 e q.1 0 he hq1 (by omega)
    · simp [Grid.costRev, shiftDown, subGrid]
    · intro p hp; simp at hp; subst hp; exact le_rfl
  | cons p rest ih =>
    intro q hq1 hq2 hv
    obtain ⟨hstep, _, hrest⟩ := hv
    have hp : p.1 ≤ q.1 ∧ p.2 ≤ q.2 := by unfold IsStep at hstep; omega
    obtain ⟨b, hb1, hb2, hv', hc', hall⟩ := ih p (by omega) (by omega) hrest
    refine ⟨b, hb1, by omega, ?_, ?_, ?_⟩
    · simp only [List.map_cons] at hv' ⊢
      refine ⟨isStep_shiftDown b p q hstep hb2, ?_, hv'⟩
      simp only [shiftDown]
      exact subGrid_ok g hf b e q.1 (q.2 - b) he hq1 (by omega)
    · simp only [List.map_cons] at hc' ⊢
      rw [Grid.costRev, Grid.costRev, hc']
      have hcost : (subGrid g b e).cost (shiftDown b q).1 (shiftDown b q).2 = g.cost q.1 q.2 := by
        simp only [subGrid, shiftDown]
        rw [Nat.sub_add_cancel (by omega)]
      have hpen : (subGrid g b e).stepPen (shiftDown b p) (shiftDown b q) = g.stepPen p q := by
        unfold Grid.stepPen shiftDown subGrid
        simp only
        have : ((q.2 - b = p.2 - b + 1) ↔ (q.2 = p.2 + 1)) := by omega
        simp only [this]
      rw [hcost, hpen]
    · intro x hx
      rcases List.mem_cons.mp hx with rfl | hm
      · omega
      · exact hall x hm

/-- **Matching function.** In the alignment grid (free start column, `psi_2b ≥ e`) the cell in the
last query row at end position `e` holds the minimum, over all start positions `b ≤ e`, of the plain DTW
cost between the query and `series[b..e]`. -/
theorem matching_eq_min_over_starts (g : Grid α) (h : g.NonNeg) (hf : g.Full) (hpsi : g.psi1b = 0)
    (i e : Nat) (hi : i < g.r) (he : e < g.c) (hfree : e ≤ g.psi2b) :
    D g (i+1) (e+1) = minList ((List.range (e+1)).map fun b => D (subGrid g b e) (i+1) (e - b + 1)) := by
  have hsubNN : ∀ b, (subGrid g b e).NonNeg := fun b => ⟨fun i j => h.cost i (j + b), h.pen⟩
  apply le_antisymm
  · -- D g ≤ every sub-problem value
    rcases minList_choice ((List.range (e+1)).map fun b => D (subGrid g b e) (i+1) (e - b + 1)) with ht | hm
    · rw [ht]; exact le_top
    · obtain ⟨b, hb, hval⟩ := List.mem_map.mp hm
      have hbe : b ≤ e := by have := List.mem_range.mp hb; omega
      rw [← hval]
      rcases D_attained (subGrid g b e) (hsubNN b) (i + (e - b)) i (e - b) rfl with ht | ⟨path, hv, hc⟩
      · rw [ht]; exact le_top
      · obtain ⟨hv', hc'⟩ := shiftUp_valid g hf b e he (by omega) path (i, e - b) hi (by simp; omega) hv
        have := D_le_costRev g h (path.map (shiftUp b)) (shiftUp b (i, e - b)) (by simpa using hv')
        simp only [shiftUp, Nat.sub_add_cancel hbe] at this
        rw [← hc, ← hc']
        simpa [shiftUp, Nat.sub_add_cancel hbe] using this
  · -- some sub-problem is at most D g
    rcases D_attained g h (i + e) i e rfl with ht | ⟨path, hv, hc⟩
    · rw [ht]; exact le_top
    · obtain ⟨b, hb1, hb2, hv', hc', _⟩ := shiftDown_valid g hf hpsi e he path (i, e) hi le_rfl hv
      simp only at hb2
      have hle := D_le_costRev (subGrid g b e) (hsubNN b) (path.map (shiftDown b)) (shiftDown b (i, e))
        (by simpa using hv')
      simp only [shiftDown] at hle
      have hmem : D (subGrid g b e) (i+1) (e - b + 1) ∈
          (List.range (e+1)).map fun b => D (subGrid g b e) (i+1) (e - b + 1) :=
        List.mem_map.mpr ⟨b, List.mem_range.mpr (by omega), rfl⟩
      refine le_trans (minList_le_mem _ _ hmem) ?_
      rw [← hc, ← hc']
      simpa [shiftDown] using hle

end Dtai
