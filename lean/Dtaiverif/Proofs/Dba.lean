/-
Proofs/Dba.lean — arithmetic facts behind C12 over an arbitrary linearly ordered field.
-/
import Mathlib.Algebra.Order.Field.Basic
import Mathlib.Tactic.Ring
import Mathlib.Tactic.Linarith
import Mathlib.Tactic.FieldSimp
import Mathlib.Tactic.Positivity

namespace Dtai

variable {K : Type} [Field K] [LinearOrder K] [IsStrictOrderedRing K]

/-- arithmetic mean of a list -/
noncomputable def mean (l : List K) : K := l.sum / l.length

theorem sum_le_of_forall_le (l : List K) (hi : K) (h : ∀ x ∈ l, x ≤ hi) : l.sum ≤ l.length * hi := by
  induction l with
  | nil => simp
  | cons x xs ih =>
    simp only [List.sum_cons, List.length_cons, Nat.cast_add, Nat.cast_one]
    have := ih (fun y hy => h y (List.mem_cons_of_mem _ hy))
    have := h x List.mem_cons_self
    linarith

theorem le_sum_of_forall_ge (l : List K) (lo : K) (h : ∀ x ∈ l, lo ≤ x) : l.length * lo ≤ l.sum := by
  induction l with
  | nil => simp
  | cons x xs ih =>
    simp only [List.sum_cons, List.length_cons, Nat.cast_add, Nat.cast_one]
    have := ih (fun y hy => h y (List.mem_cons_of_mem _ hy))
    have := h x List.mem_cons_self
    linarith

/-- the mean of a non-empty list lies within the range of its elements -/
theorem mean_in_range (l : List K) (hne : l ≠ []) (lo hi : K)
    (hlo : ∀ x ∈ l, lo ≤ x) (hhi : ∀ x ∈ l, x ≤ hi) : lo ≤ mean l ∧ mean l ≤ hi := by
  have hpos : (0 : K) < l.length := by
    have : 0 < l.length := List.length_pos_iff.mpr hne
    exact_mod_cast this
  unfold mean
  constructor
  · rw [le_div_iff₀ hpos]; have := le_sum_of_forall_ge l lo hlo; linarith
  · rw [div_le_iff₀ hpos]; have := sum_le_of_forall_le l hi hhi; linarith

/-- if all values equal `c` the mean is `c` (fixed point of the update) -/
theorem mean_const (l : List K) (hne : l ≠ []) (c : K) (h : ∀ x ∈ l, x = c) : mean l = c := by
  obtain ⟨h1, h2⟩ := mean_in_range l hne c c (fun x hx => (h x hx).ge) (fun x hx => (h x hx).le)
  exact le_antisymm h2 h1

theorem sumsq_expand (l : List K) (x : K) :
    (l.map fun v => (x - v) ^ 2).sum = l.length * x ^ 2 - 2 * x * l.sum + (l.map fun v => v ^ 2).sum := by
  induction l with
  | nil => simp
  | cons v vs ih =>
    simp only [List.map_cons, List.sum_cons, List.length_cons, Nat.cast_add, Nat.cast_one, ih]
    ring

/-- the mean minimises the sum of squared differences — the reason a DBA step cannot worsen the fit
for fixed alignments -/
theorem mean_minimises (l : List K) (hne : l ≠ []) (x : K) :
    (l.map fun v => (mean l - v) ^ 2).sum ≤ (l.map fun v => (x - v) ^ 2).sum := by
  have hpos : (0 : K) < l.length := by
    have : 0 < l.length := List.length_pos_iff.mpr hne
    exact_mod_cast this
  rw [sumsq_expand, sumsq_expand]
  have hS : l.sum = l.length * mean l := by unfold mean; field_simp
  rw [hS]
  have : 0 ≤ (l.length : K) * (x - mean l) ^ 2 := by positivity
  nlinarith [this]

end Dtai

namespace Dtai

variable {K : Type} [Field K] [LinearOrder K] [IsStrictOrderedRing K]

theorem sum_indicator (t k : Nat) (a : K) (hk : k < t) :
    ((List.range t).map fun i => if k = i then a else 0).sum = a := by
  induction t with
  | zero => omega
  | succ t ih =>
    rw [List.range_succ, List.map_append, List.sum_append]
    by_cases h : k = t
    · subst h
      have : ((List.range k).map fun i => if k = i then a else (0:K)).sum = 0 := by
        apply List.sum_eq_zero
        intro x hx
        obtain ⟨i, hi, rfl⟩ := List.mem_map.mp hx
        have := List.mem_range.mp hi
        rw [if_neg (by omega)]
      simp [this]
    · rw [ih (by omega)]; simp [h]

/-- a sum over association pairs `(position, value)` decomposes into the sums over the positions -/
theorem sum_fiberwise (A : List (Nat × K)) (t : Nat) (g : Nat × K → K) (hA : ∀ p ∈ A, p.1 < t) :
    (A.map g).sum = ((List.range t).map fun i => ((A.filter fun p => p.1 == i).map g).sum).sum := by
  induction A with
  | nil => simp
  | cons p ps ih =>
    have hp := hA p List.mem_cons_self
    rw [List.map_cons, List.sum_cons, ih (fun q hq => hA q (List.mem_cons_of_mem _ hq))]
    have : ∀ i, (((p :: ps).filter fun q => q.1 == i).map g).sum =
        (if p.1 = i then g p else 0) + ((ps.filter fun q => q.1 == i).map g).sum := by
      intro i
      by_cases h : p.1 = i
      · simp [List.filter_cons, h]
      · simp [List.filter_cons, h]
    simp only [this]
    rw [List.sum_map_add, sum_indicator t p.1 (g p) hp]

/-- **Objective on fixed alignments.** `A` = all pairs (position of the average, aligned value) over the
selected series and their paths. If the new average takes at every associated position the mean of
the values aligned to it, the total squared deviation does not increase. (Penalties of the paths do
not depend on the average.) -/
theorem dba_objective_paths (A : List (Nat × K)) (t : Nat) (c c' : Nat → K) (hA : ∀ p ∈ A, p.1 < t)
    (hmean : ∀ i, i < t → (A.filter fun p => p.1 == i) ≠ [] →
      c' i = mean ((A.filter fun p => p.1 == i).map Prod.snd)) :
    (A.map fun p => (c' p.1 - p.2) ^ 2).sum ≤ (A.map fun p => (c p.1 - p.2) ^ 2).sum := by
  rw [sum_fiberwise A t _ hA, sum_fiberwise A t _ hA]
  apply List.sum_le_sum
  intro i hi
  have hit := List.mem_range.mp hi
  by_cases hne : (A.filter fun p => p.1 == i) = []
  · simp [hne]
  · have hkey : ∀ (x : Nat → K), ((A.filter fun p => p.1 == i).map fun p => (x p.1 - p.2) ^ 2).sum =
        (((A.filter fun p => p.1 == i).map Prod.snd).map fun v => (x i - v) ^ 2).sum := by
      intro x
      rw [List.map_map]
      congr 1
      apply List.map_congr_left
      intro p hp
      have : p.1 = i := by simpa using (List.mem_filter.mp hp).2
      simp [this]
    rw [hkey c', hkey c, hmean i hit hne]
    exact mean_minimises _ (by simpa using hne) (c i)

end Dtai
