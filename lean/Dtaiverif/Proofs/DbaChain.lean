/-
Proofs/DbaChain.lean — C12, the combined statement: one barycenter step does not increase the sum of
(squared) DTW distances from the average to the selected series.

The cost domain is `WithTop K` for a linearly ordered field `K`; the grid of (average `x`, series `s`) has
point cost `(x i - s j)^2`, a penalty `p ≥ 0` per non-diagonal step, any window, no `max_step`, no psi.
-/
import Mathlib.Algebra.Order.Field.Basic
import Mathlib.Algebra.Order.Monoid.WithTop
import Mathlib.Algebra.Order.BigOperators.Group.List
import Mathlib.Tactic
import Dtaiverif.Proofs.Dist
import Dtaiverif.Proofs.Dba
import Dtaiverif.Proofs.Path

namespace Dtai

variable {K : Type} [Field K] [LinearOrder K] [IsStrictOrderedRing K]

/-- the DTW grid between an average `x` (length `t`) and a series `s` (length `m`) -/
def dbaGrid (t m window : Nat) (p : K) (x s : Nat → K) : Grid (WithTop K) :=
  { r := t, c := m, window := window, pen := (p : WithTop K), maxStep := ⊤,
    psi1b := 0, psi1e := 0, psi2b := 0, psi2e := 0,
    cost := fun i j => (((x i - s j) ^ 2 : K) : WithTop K) }

theorem dbaGrid_nonneg (t m window : Nat) (p : K) (hp : 0 ≤ p) (x s : Nat → K) :
    (dbaGrid t m window p x s).NonNeg :=
  ⟨fun i j => by simp only [dbaGrid]; exact WithTop.coe_nonneg.mpr (sq_nonneg _),
   by simp only [dbaGrid]; exact WithTop.coe_nonneg.mpr hp⟩

theorem dbaGrid_ok (t m window : Nat) (p : K) (x x' s : Nat → K) (i j : Nat) :
    (dbaGrid t m window p x s).ok i j = (dbaGrid t m window p x' s).ok i j := by
  simp [Grid.ok, Grid.inBand, Grid.jStart, Grid.jEnd, dbaGrid]

/-- admissibility of a path does not depend on the values of the average -/
theorem dbaGrid_valid (t m window : Nat) (p : K) (x x' s : Nat → K) :
    ∀ path, (dbaGrid t m window p x s).ValidRev path → (dbaGrid t m window p x' s).ValidRev path := by
  intro path
  induction path with
  | nil => intro h; exact h
  | cons q rest ih =>
    cases rest with
    | nil =>
      intro h
      simp only [Grid.ValidRev] at h ⊢
      exact ⟨h.1, by rw [← dbaGrid_ok t m window p x x' s]; exact h.2⟩
    | cons q' rest' =>
      intro h
      simp only [Grid.ValidRev] at h ⊢
      exact ⟨h.1, by rw [← dbaGrid_ok t m window p x x' s]; exact h.2.1, ih h.2.2⟩

/-- sum of the penalties along a path (independent of the average) -/
def penSum (p : K) : List Cell → K
  | [] => 0
  | [_] => 0
  | q :: q' :: rest => penSum p (q' :: rest) + (if q.1 = q'.1 + 1 ∧ q.2 = q'.2 + 1 then 0 else p)

/-- squared deviations along a path -/
def sqDev (x s : Nat → K) (path : List Cell) : K := (path.map fun q => (x q.1 - s q.2) ^ 2).sum

/-- cost of a path = squared deviations + penalties -/
theorem dbaGrid_costRev (t m window : Nat) (p : K) (x s : Nat → K) :
    ∀ path, (dbaGrid t m window p x s).costRev path = ((sqDev x s path + penSum p path : K) : WithTop K) := by
  intro path
  induction path with
  | nil => simp [Grid.costRev, sqDev, penSum]
  | cons q rest ih =>
    cases rest with
    | nil => simp [Grid.costRev, sqDev, penSum, dbaGrid]
    | cons q' rest' =>
      rw [Grid.costRev, ih]
      have hc : (dbaGrid t m window p x s).cost q.1 q.2 = (((x q.1 - s q.2) ^ 2 : K) : WithTop K) := rfl
      have hpn : (dbaGrid t m window p x s).pen = (p : WithTop K) := rfl
      rw [hc, Grid.stepPen, hpn]
      have hsq : sqDev x s (q :: q' :: rest') = (x q.1 - s q.2) ^ 2 + sqDev x s (q' :: rest') := by
        simp [sqDev]
      rw [hsq]
      split
      · rename_i hdiag
        have : penSum p (q :: q' :: rest') = penSum p (q' :: rest') := by simp [penSum, hdiag]
        rw [this, add_zero, ← WithTop.coe_add]
        congr 1
        ring
      · rename_i hnd
        have : penSum p (q :: q' :: rest') = penSum p (q' :: rest') + p := by simp [penSum, hnd]
        rw [this, ← WithTop.coe_add, ← WithTop.coe_add]
        congr 1
        ring

/-- one selected series together with the alignment used by the step -/
structure Aligned (K : Type) where
  m : Nat
  s : Nat → K
  path : List Cell       -- end cell first

/-- the association pairs (position of the average, aligned value) of all series -/
def assocPairs (L : List (Aligned K)) : List (Nat × K) :=
  L.flatMap fun a => a.path.map fun q => (q.1, a.s q.2)

theorem sum_sqDev_eq (x : Nat → K) (L : List (Aligned K)) :
    (L.map fun a => sqDev x a.s a.path).sum = ((assocPairs L).map fun pr => (x pr.1 - pr.2) ^ 2).sum := by
  induction L with
  | nil => simp [assocPairs]
  | cons a rest ih =>
    simp only [List.map_cons, List.sum_cons, assocPairs, List.flatMap_cons, List.map_append, List.sum_append]
    rw [ih]
    simp [sqDev, assocPairs, List.map_map, Function.comp_def]

theorem sum_costRev (t window : Nat) (p : K) (x : Nat → K) (L : List (Aligned K)) :
    (L.map fun a => (dbaGrid t a.m window p x a.s).costRev a.path).sum =
      (((L.map fun a => sqDev x a.s a.path).sum + (L.map fun a => penSum p a.path).sum : K) : WithTop K) := by
  induction L with
  | nil => simp
  | cons a rest ih =>
    simp only [List.map_cons, List.sum_cons]
    rw [dbaGrid_costRev, ih, ← WithTop.coe_add]
    congr 1
    ring

/-- **One DBA step does not increase the fit.** `c` is the current average (length `t`), every selected
series comes with the alignment the step uses: an admissible complete path that is optimal for `c`
(C05: the traced path realises the recurrence). If the new average `c'` takes, at every position that
some point is aligned to, the mean of the aligned points, then
`Σ_k DTW²(c', s_k) ≤ Σ_k DTW²(c, s_k)` (squared distances = the internal representation; window, penalty
`p ≥ 0` arbitrary). -/
theorem dba_step_nonincreasing (t window : Nat) (p : K) (hp : 0 ≤ p) (c c' : Nat → K) (L : List (Aligned K))
    (hvalid : ∀ a ∈ L, ∃ q rest, a.path = q :: rest ∧ (dbaGrid t a.m window p c a.s).ValidRev a.path ∧
      (dbaGrid t a.m window p c a.s).EndOk q ∧
      (dbaGrid t a.m window p c a.s).costRev a.path = dtwSpec (dbaGrid t a.m window p c a.s))
    (hpos : ∀ pr ∈ assocPairs L, pr.1 < t)
    (hmean : ∀ i, i < t → ((assocPairs L).filter fun pr => pr.1 == i) ≠ [] →
      c' i = mean (((assocPairs L).filter fun pr => pr.1 == i).map Prod.snd)) :
    (L.map fun a => dtwSpec (dbaGrid t a.m window p c' a.s)).sum ≤
      (L.map fun a => dtwSpec (dbaGrid t a.m window p c a.s)).sum := by
  -- Σ dtw(c') ≤ Σ cost(c' | π) = ↑(Σ sqDev c' + pen) ≤ ↑(Σ sqDev c + pen) = Σ cost(c | π) = Σ dtw(c)
  have h1 : (L.map fun a => dtwSpec (dbaGrid t a.m window p c' a.s)).sum ≤
      (L.map fun a => (dbaGrid t a.m window p c' a.s).costRev a.path).sum := by
    apply List.sum_le_sum
    intro a ha
    obtain ⟨q, rest, hpath, hv, he, _⟩ := hvalid a ha
    have hv' := dbaGrid_valid t a.m window p c c' a.s a.path hv
    rw [hpath] at hv' ⊢
    exact dtwSpec_le_path _ (dbaGrid_nonneg t a.m window p hp c' a.s) rest q hv' he
  have h3 : (L.map fun a => (dbaGrid t a.m window p c a.s).costRev a.path).sum =
      (L.map fun a => dtwSpec (dbaGrid t a.m window p c a.s)).sum := by
    congr 1
    apply List.map_congr_left
    intro a ha
    obtain ⟨_, _, _, _, _, hopt⟩ := hvalid a ha
    exact hopt
  have h2 : (L.map fun a => sqDev c' a.s a.path).sum ≤ (L.map fun a => sqDev c a.s a.path).sum := by
    rw [sum_sqDev_eq, sum_sqDev_eq]
    exact dba_objective_paths (assocPairs L) t c c' hpos hmean
  calc (L.map fun a => dtwSpec (dbaGrid t a.m window p c' a.s)).sum
      ≤ (L.map fun a => (dbaGrid t a.m window p c' a.s).costRev a.path).sum := h1
    _ = (((L.map fun a => sqDev c' a.s a.path).sum + (L.map fun a => penSum p a.path).sum : K) : WithTop K) :=
        sum_costRev t window p c' L
    _ ≤ (((L.map fun a => sqDev c a.s a.path).sum + (L.map fun a => penSum p a.path).sum : K) : WithTop K) := by
        exact_mod_cast add_le_add h2 le_rfl
    _ = (L.map fun a => (dbaGrid t a.m window p c a.s).costRev a.path).sum := (sum_costRev t window p c L).symm
    _ = (L.map fun a => dtwSpec (dbaGrid t a.m window p c a.s)).sum := h3

/-- without psi-relaxation the distance is the value of the last cell -/
theorem dtwSpec_nopsi {α : Type} [LinearOrderedAddCommMonoidWithTop α] (g : Grid α) (h1 : g.psi1e = 0) (h2 : g.psi2e = 0) :
    dtwSpec g = D g g.r g.c := by
  rw [dtwSpec_eq]
  simp [endCells, h1, h2, minList]

/-- **The alignment the step traces is admissible and optimal** (C05 applied to the DBA grid): for a
non-empty average and series with a finite distance, the path traced back from the last cell satisfies
the hypothesis `hvalid` of `dba_step_nonincreasing`. -/
theorem dba_traced_alignment (t m window : Nat) (p : K) (hp : 0 ≤ p) (c s : Nat → K) (ht : 1 ≤ t) (hm : 1 ≤ m)
    (hfin : dtwSpec (dbaGrid t m window p c s) ≠ ⊤) :
    ∃ rest,
      backtrack (D (dbaGrid t m window p c s)) (dbaGrid t m window p c s).pen (t + m) t m = (t - 1, m - 1) :: rest ∧
      (dbaGrid t m window p c s).ValidRev ((t - 1, m - 1) :: rest) ∧
      (dbaGrid t m window p c s).EndOk (t - 1, m - 1) ∧
      (dbaGrid t m window p c s).costRev ((t - 1, m - 1) :: rest) = dtwSpec (dbaGrid t m window p c s) := by
  have hn := dbaGrid_nonneg t m window p hp c s
  have hspec : dtwSpec (dbaGrid t m window p c s) = D (dbaGrid t m window p c s) t m :=
    dtwSpec_nopsi (dbaGrid t m window p c s) rfl rfl
  obtain ⟨t', rfl⟩ : ∃ t', t = t' + 1 := ⟨t - 1, by omega⟩
  obtain ⟨m', rfl⟩ : ∃ m', m = m' + 1 := ⟨m - 1, by omega⟩
  rw [hspec] at hfin
  obtain ⟨rest, hbt, hv, hc⟩ := backtrack_valid (dbaGrid (t' + 1) (m' + 1) window p c s) hn t' m' hfin
  refine ⟨rest, ?_, by simpa using hv, ?_, by rw [hspec]; simpa using hc⟩
  · have : t' + 1 + (m' + 1) = t' + m' + 2 := by omega
    rw [this]; simpa using hbt
  · simp [Grid.EndOk, dbaGrid]

end Dtai
