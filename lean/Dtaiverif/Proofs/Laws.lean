/-
Proofs/Laws.lean — C10: monotonicity, symmetry and identity laws of the DTW recurrence.
-/
import Dtaiverif.Proofs.Bounds

namespace Dtai

variable {α : Type} [LinearOrderedAddCommMonoidWithTop α]

/-! ### one monotonicity lemma for window, psi, max_step and penalty -/

/-- `g'` is at least as permissive as `g`: same sizes and point costs, every admissible pair of `g` is
admissible in `g'`, borders of `g'` are below those of `g`, penalty not larger -/
structure Relaxes (g' g : Grid α) : Prop where
  r : g'.r = g.r
  c : g'.c = g.c
  cost : ∀ i j, g'.cost i j = g.cost i j
  ok : ∀ i j, g.ok i j = true → g'.ok i j = true
  b0 : ∀ J, g'.border0 J ≤ g.border0 J
  bc : ∀ I, g'.borderCol I ≤ g.borderCol I
  pen : g'.pen ≤ g.pen

theorem D_mono (g' g : Grid α) (h : Relaxes g' g) : ∀ I J, D g' I J ≤ D g I J := by
  intro I
  induction I with
  | zero => intro J; rw [D.eq_1, D.eq_1]; exact h.b0 J
  | succ I ihI =>
    intro J
    induction J with
    | zero => rw [D.eq_2, D.eq_2]; exact h.bc _
    | succ J ihJ =>
      rw [D.eq_3, D.eq_3]
      unfold Grid.cellVal
      by_cases hok : g.ok I J = true
      · rw [if_pos hok, if_pos (h.ok I J hok)]
        unfold Grid.step
        rw [h.cost]
        exact add_le_add le_rfl (min_le_min (ihI J)
          (min_le_min (add_le_add (ihI (J+1)) h.pen) (add_le_add ihJ h.pen)))
      · rw [if_neg hok]; exact le_top

theorem endCells_subset (g' g : Grid α) (hr : g'.r = g.r) (hc : g'.c = g.c)
    (h1 : g.psi1e ≤ g'.psi1e) (h2 : g.psi2e ≤ g'.psi2e) : ∀ p ∈ endCells g, p ∈ endCells g' := by
  intro p hp
  simp only [endCells, List.mem_append, List.mem_map, List.mem_range, hr, hc] at hp ⊢
  rcases hp with ⟨k, hk, rfl⟩ | ⟨k, hk, rfl⟩
  · left; exact ⟨k, by omega, rfl⟩
  · right; exact ⟨k, by omega, rfl⟩

/-- a more permissive setting never has a larger distance -/
theorem dtwSpec_mono (g' g : Grid α) (h : Relaxes g' g)
    (h1 : g.psi1e ≤ g'.psi1e) (h2 : g.psi2e ≤ g'.psi2e) : dtwSpec g' ≤ dtwSpec g := by
  rw [dtwSpec_eq, dtwSpec_eq]
  rcases minList_choice ((endCells g).map fun p => D g p.1 p.2) with ht | hm
  · rw [ht]; exact le_top
  · obtain ⟨p, hp, hval⟩ := List.mem_map.mp hm
    rw [← hval]
    exact le_trans (minList_le_mem _ _ (List.mem_map.mpr ⟨p, endCells_subset g' g h.r h.c h1 h2 p hp, rfl⟩))
      (D_mono g' g h p.1 p.2)

/-! ### non-negativity -/

theorem dtwSpec_nonneg (g : Grid α) (h : g.NonNeg) : 0 ≤ dtwSpec g := by
  rw [dtwSpec_eq]
  rcases minList_choice ((endCells g).map fun p => D g p.1 p.2) with ht | hm
  · rw [ht]; exact le_top
  · obtain ⟨p, _, hval⟩ := List.mem_map.mp hm
    rw [← hval]; exact D_nonneg g h _ _

/-! ### symmetry -/

/-- swap the two series together with their psi entries -/
def Grid.transpose (g : Grid α) : Grid α :=
  { r := g.c, c := g.r, window := g.window, pen := g.pen, maxStep := g.maxStep,
    psi1b := g.psi2b, psi1e := g.psi2e, psi2b := g.psi1b, psi2e := g.psi1e,
    cost := fun i j => g.cost j i }

theorem ok_transpose (g : Grid α) (i j : Nat) (hi : i < g.r) (hj : j < g.c) :
    g.transpose.ok j i = g.ok i j := by
  have hband : g.transpose.inBand j i = g.inBand i j := by
    rw [Bool.eq_iff_iff]
    unfold Grid.inBand Grid.jStart Grid.jEnd Grid.transpose
    simp only [Bool.and_eq_true, decide_eq_true_eq]
    constructor <;> (intro h; constructor <;> omega)
  unfold Grid.ok
  rw [hband]
  rfl

theorem D_transpose (g : Grid α) : ∀ I J, I ≤ g.r → J ≤ g.c → D g.transpose J I = D g I J := by
  intro I
  induction I with
  | zero =>
    intro J _ _
    cases J with
    | zero => rw [D.eq_1, D.eq_1]; simp [Grid.border0, Grid.transpose]
    | succ J => rw [D.eq_2, D.eq_1]; rfl
  | succ I ihI =>
    intro J
    induction J with
    | zero => intro _ _; rw [D.eq_1, D.eq_2]; rfl
    | succ J ihJ =>
      intro hI hJ
      rw [D.eq_3, D.eq_3]
      unfold Grid.cellVal
      rw [ok_transpose g I J (by omega) (by omega)]
      split
      · unfold Grid.step
        rw [ihI J (by omega) (by omega), ihI (J+1) (by omega) hJ, ihJ hI (by omega)]
        simp only [Grid.transpose]
        congr 1
        rw [min_comm (D g I (J+1) + g.pen)]
      · rfl

theorem dtwSpec_transpose (g : Grid α) : dtwSpec g.transpose = dtwSpec g := by
  rw [dtwSpec_eq, dtwSpec_eq]
  have hA : minList ((endCells g.transpose).map fun p => D g.transpose p.1 p.2) =
      minList (((List.range (g.psi1e + 1)).map fun k => D g (g.r - k) g.c) ++
               ((List.range (g.psi2e + 1)).map fun k => D g g.r (g.c - k))) := by
    congr 1
    simp only [endCells, Grid.transpose, List.map_append, List.map_map, Function.comp_def]
    congr 1
    · apply List.map_congr_left; intro k _
      exact D_transpose g (g.r - k) g.c (by omega) le_rfl
    · apply List.map_congr_left; intro k _
      exact D_transpose g g.r (g.c - k) le_rfl (by omega)
  have hB : minList ((endCells g).map fun p => D g p.1 p.2) =
      minList (((List.range (g.psi2e + 1)).map fun k => D g g.r (g.c - k)) ++
               ((List.range (g.psi1e + 1)).map fun k => D g (g.r - k) g.c)) := by
    congr 1
    simp only [endCells, List.map_append, List.map_map, Function.comp_def]
  rw [hA, hB]
  have happ : ∀ (l1 l2 : List α), minList (l1 ++ l2) = min (minList l1) (minList l2) := by
    intro l1 l2
    apply le_antisymm
    · apply le_min
      · rcases minList_choice l1 with h | h
        · rw [h]; exact le_top
        · exact minList_le_mem _ _ (List.mem_append_left _ h)
      · rcases minList_choice l2 with h | h
        · rw [h]; exact le_top
        · exact minList_le_mem _ _ (List.mem_append_right _ h)
    · rcases minList_choice (l1 ++ l2) with h | h
      · rw [h]; exact le_top
      · rcases List.mem_append.mp h with h' | h'
        · exact le_trans (min_le_left _ _) (minList_le_mem _ _ h')
        · exact le_trans (min_le_right _ _) (minList_le_mem _ _ h')
  rw [happ, happ, min_comm]

end Dtai
