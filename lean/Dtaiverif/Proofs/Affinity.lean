/-
Proofs/Affinity.lean — the affinity matrix: the executable row scan computes the recurrence; excluded
cells, non-negativity; the walk of `best_path` and the match search keep matches disjoint.
-/
import Mathlib.Algebra.Order.Ring.Defs
import Mathlib.Order.MinMax
import Mathlib.Tactic
import Dtaiverif.Model.Affinity

namespace Dtai

/-! ### the scan computes the recurrence (no assumption on the cell type) -/

theorem affRowFrom_eq {γ : Type} (f : Nat → Option γ → Option γ → Option γ → Option γ) (a b : Nat → Option γ)
    (hb : ∀ j, b (j+1) = f j (a j) (a (j+1)) (b j)) :
    ∀ n j, affRowFrom f j (b j) ((List.range' j (n+1)).map a) = (List.range' (j+1) n).map b := by
  intro n
  induction n with
  | zero => intro j; simp [affRowFrom]
  | succ n ih =>
    intro j
    have h1 : (List.range' j (n+1+1)).map a = a j :: a (j+1) :: (List.range' (j+2) n).map a := by
      simp [List.range'_succ]
    have h2 : a (j+1) :: (List.range' (j+2) n).map a = (List.range' (j+1) (n+1)).map a := by
      simp [List.range'_succ]
    rw [h1, affRowFrom, h2]
    rw [← hb j, ih (j+1)]
    simp [List.range'_succ]

variable {β : Type} [CommRing β] [LinearOrder β] [IsStrictOrderedRing β]

theorem affRows_eq (g : AffGrid β) : ∀ I, affRows g I = (List.range (g.c+1)).map (affSpec g I) := by
  intro I
  induction I with
  | zero =>
    simp only [affRows, affRow0]
    apply List.map_congr_left
    intro J _
    cases J <;> simp [affSpec]
  | succ I ih =>
    rw [affRows, ih]
    have h := affRowFrom_eq (affCell g I) (affSpec g I) (affSpec g (I+1)) (by intro j; rw [affSpec]) g.c 0
    have h0 : affSpec g (I+1) 0 = none := by rw [affSpec]
    rw [h0] at h
    rw [List.range_eq_range', h]
    simp [List.range'_succ, h0]

theorem affSpec_in (g : AffGrid β) (I J : Nat) :
    affSpec g (I+1) (J+1) = affCell g I J (affSpec g I J) (affSpec g I (J+1)) (affSpec g (I+1) J) := by
  rw [affSpec]

/-- excluded cells: exactly the cells outside the band (and below the diagonal with `only_triu`) -/
theorem affSpec_none_iff (g : AffGrid β) (I J : Nat) : affSpec g (I+1) (J+1) = none ↔ g.inBand I J = false := by
  rw [affSpec_in, affCell]
  by_cases h : g.inBand I J = true <;> simp [h]

theorem affStep_nonneg (g : AffGrid β) (i j : Nat) (d u l : Option β) : 0 ≤ affStep g i j d u l := by
  unfold affStep
  simp only []
  split
  · exact le_rfl
  · split <;> exact le_max_left _ _

theorem affSpec_nonneg (g : AffGrid β) : ∀ I J v, affSpec g I J = some v → 0 ≤ v := by
  intro I J v h
  match I, J with
  | 0, 0 => rw [affSpec] at h; cases h; exact le_rfl
  | 0, _+1 => rw [affSpec] at h; cases h
  | _+1, 0 => rw [affSpec] at h; cases h
  | I+1, J+1 =>
    rw [affSpec_in, affCell] at h
    split at h
    · cases h; exact affStep_nonneg _ _ _ _ _ _
    · cases h

end Dtai

namespace Dtai

variable {β : Type} [CommRing β] [LinearOrder β] [IsStrictOrderedRing β]

/-! ### the walk of `best_path` -/

/-- backward step of the walk: to the diagonal, upper or left neighbour -/
def StepBack (a b : Nat × Nat) : Prop :=
  1 ≤ a.1 ∧ 1 ≤ a.2 ∧ (b = (a.1 - 1, a.2 - 1) ∨ b = (a.1 - 1, a.2) ∨ b = (a.1, a.2 - 1))

theorem lcTrace_spec (choose : Option β → Option β → Option β → Nat) (wp : WP β) :
    ∀ fuel i j, (lcTrace choose wp fuel i j).head? = some (i, j) ∧
      (lcTrace choose wp fuel i j).IsChain StepBack ∧
      ∀ q ∈ (lcTrace choose wp fuel i j).tail, posVal (wp.get q.1 q.2) = true := by
  intro fuel
  induction fuel with
  | zero => intro i j; simp [lcTrace]
  | succ fuel ih =>
    intro i j
    unfold lcTrace
    by_cases hb : i = 0 ∨ j = 0
    · simp [hb]
    · simp only [hb, if_false]
      have hi : 1 ≤ i := by omega
      have hj : 1 ≤ j := by omega
      -- the three possible moves share the same argument
      have key : ∀ (i' j' : Nat), ((i', j') = (i - 1, j - 1) ∨ (i', j') = (i - 1, j) ∨ (i', j') = (i, j - 1)) →
          posVal (wp.get i' j') = true →
          (((i, j) :: lcTrace choose wp fuel i' j').head? = some (i, j) ∧
            ((i, j) :: lcTrace choose wp fuel i' j').IsChain StepBack ∧
            ∀ q ∈ ((i, j) :: lcTrace choose wp fuel i' j').tail, posVal (wp.get q.1 q.2) = true) := by
        intro i' j' hmove hpos
        obtain ⟨h1, h2, h3⟩ := ih i' j'
        refine ⟨rfl, ?_, ?_⟩
        · cases hl : lcTrace choose wp fuel i' j' with
          | nil => simp
          | cons q rest =>
            rw [hl] at h1 h2
            simp only [List.head?_cons, Option.some.injEq] at h1
            subst h1
            exact List.IsChain.cons_cons ⟨hi, hj, hmove⟩ h2
        · intro q hq
          simp only [List.tail_cons] at hq
          cases hl : lcTrace choose wp fuel i' j' with
          | nil => rw [hl] at hq; cases hq
          | cons q0 rest =>
            rw [hl] at hq h1 h3
            simp only [List.head?_cons, Option.some.injEq] at h1
            rcases List.mem_cons.mp hq with rfl | hq'
            · rw [h1]; exact hpos
            · exact h3 q hq'
      split
      · split
        · rename_i hp; exact key _ _ (Or.inl rfl) hp
        · simp
      · split
        · rename_i hp; exact key _ _ (Or.inr (Or.inl rfl)) hp
        · simp
      · split
        · rename_i hp; exact key _ _ (Or.inr (Or.inr rfl)) hp
        · simp

end Dtai
