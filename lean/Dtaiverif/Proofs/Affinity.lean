/-
Proofs/Affinity.lean — the affinity matrix: the executable row scan computes the recurrence; excluded
cells, non-negativity; the walk of `best_path` and the match search keep matches disjoint.
-/
import Mathlib.Algebra.Order.Ring.Defs
import Mathlib.Order.MinMax
import Mathlib.Tactic
import Dtaiverif.Model.Affinity

namespace Dtai

/-! ### the scan computes the recurrence (no assumption on the cell type) -/

theorem affRowFrom_eq {γ : Type} (f : Nat → Option γ → Option γ → Option γ → Option γ) (a b : Nat → Option γ)
    (hb : ∀ j, b (j+1) = f j (a j) (a (j+1)) (b j)) :
    ∀ n j, affRowFrom f j (b j) ((List.range' j (n+1)).map a) = (List.range' (j+1) n).map b := by
  intro n
  induction n with
  | zero => intro j; simp [affRowFrom]
  | succ n ih =>
    intro j
    have h1 : (List.range' j (n+1+1)).map a = a j :: a (j+1) :: (List.range' (j+2) n).map a := by
      simp [List.range'_succ]
    have h2 : a (j+1) :: (List.range' (j+2) n).map a = (List.range' (j+1) (n+1)).map a := by
      simp [List.range'_succ]
    rw [h1, affRowFrom, h2]
    rw [← hb j, ih (j+1)]
    simp [List.range'_succ]

variable {β : Type} [CommRing β] [LinearOrder β] [IsStrictOrderedRing β]

theorem affRows_eq (g : AffGrid β) : ∀ I, affRows g I = (List.range (g.c+1)).map (affSpec g I) := by
  intro I
  induction I with
  | zero =>
    simp only [affRows, affRow0]
    apply List.map_congr_left
    intro J _
    cases J <;> simp [affSpec]
  | succ I ih =>
    rw [affRows, ih]
    have h := affRowFrom_eq (affCell g I) (affSpec g I) (affSpec g (I+1)) (by intro j; rw [affSpec]) g.c 0
    have h0 : affSpec g (I+1) 0 = none := by rw [affSpec]
    rw [h0] at h
    rw [List.range_eq_range', h]
    simp [List.range'_succ, h0]

theorem affSpec_in (g : AffGrid β) (I J : Nat) :
    affSpec g (I+1) (J+1) = affCell g I J (affSpec g I J) (affSpec g I (J+1)) (affSpec g (I+1) J) := by
  rw [affSpec]

/-- excluded cells: exactly the cells outside the band (and below the diagonal with `only_triu`) -/
theorem affSpec_none_iff (g : AffGrid β) (I J : Nat) : affSpec g (I+1) (J+1) = none ↔ g.inBand I J = false := by
  rw [affSpec_in, affCell]
  by_cases h : g.inBand I J = true <;> simp [h]

theorem affStep_nonneg (g : AffGrid β) (i j : Nat) (d u l : Option β) : 0 ≤ affStep g i j d u l := by
  unfold affStep
  simp only []
  split
  · exact le_rfl
  · split <;> exact le_max_left _ _

theorem affSpec_nonneg (g : AffGrid β) : ∀ I J v, affSpec g I J = some v → 0 ≤ v := by
  intro I J v h
  match I, J with
  | 0, 0 => rw [affSpec] at h; cases h; exact le_rfl
  | 0, _+1 => rw [affSpec] at h; cases h
  | _+1, 0 => rw [affSpec] at h; cases h
  | I+1, J+1 =>
    rw [affSpec_in, affCell] at h
    split at h
    · cases h; exact affStep_nonneg _ _ _ _ _ _
    · cases h

end Dtai

namespace Dtai

variable {β : Type} [CommRing β] [LinearOrder β] [IsStrictOrderedRing β]

/-! ### the walk of `best_path` -/

/-- backward step of the walk: to the diagonal, upper or left neighbour -/
def StepBack (a b : Nat × Nat) : Prop :=
  1 ≤ a.1 ∧ 1 ≤ a.2 ∧ (b = (a.1 - 1, a.2 - 1) ∨ b = (a.1 - 1, a.2) ∨ b = (a.1, a.2 - 1))

theorem lcTrace_spec (choose : Option β → Option β → Option β → Nat) (wp : WP β) :
    ∀ fuel i j, (lcTrace choose wp fuel i j).head? = some (i, j) ∧
      (lcTrace choose wp fuel i j).IsChain StepBack ∧
      ∀ q ∈ (lcTrace choose wp fuel i j).tail, posVal (wp.get q.1 q.2) = true := by
  intro fuel
  induction fuel with
  | zero => intro i j; simp [lcTrace]
  | succ fuel ih =>
    intro i j
    unfold lcTrace
    by_cases hb : i = 0 ∨ j = 0
    · simp [hb]
    · simp only [hb, if_false]
      have hi : 1 ≤ i := by omega
      have hj : 1 ≤ j := by omega
      -- the three possible moves share the same argument
      have key : ∀ (i' j' : Nat), ((i', j') = (i - 1, j - 1) ∨ (i', j') = (i - 1, j) ∨ (i', j') = (i, j - 1)) →
          posVal (wp.get i' j') = true →
          (((i, j) :: lcTrace choose wp fuel i' j').head? = some (i, j) ∧
            ((i, j) :: lcTrace choose wp fuel i' j').IsChain StepBack ∧
            ∀ q ∈ ((i, j) :: lcTrace choose wp fuel i' j').tail, posVal (wp.get q.1 q.2) = true) := by
        intro i' j' hmove hpos
        obtain ⟨h1, h2, h3⟩ := ih i' j'
        refine ⟨rfl, ?_, ?_⟩
        · cases hl : lcTrace choose wp fuel i' j' with
          | nil => simp
          | cons q rest =>
            rw [hl] at h1 h2
            simp only [List.head?_cons, Option.some.injEq] at h1
            subst h1
            exact List.IsChain.cons_cons ⟨hi, hj, hmove⟩ h2
        · intro q hq
          simp only [List.tail_cons] at hq
          cases hl : lcTrace choose wp fuel i' j' with
          | nil => rw [hl] at hq; cases hq
          | cons q0 rest =>
            rw [hl] at hq h1 h3
            simp only [List.head?_cons, Option.some.injEq] at h1
            rcases List.mem_cons.mp hq with rfl | hq'
            · rw [h1]; exact hpos
            · exact h3 q hq'
      split
      · split
        · rename_i hp; exact key _ _ (Or.inl rfl) hp
        · simp
      · split
        · rename_i hp; exact key _ _ (Or.inr (Or.inl rfl)) hp
        · simp
      · split
        · rename_i hp; exact key _ _ (Or.inr (Or.inr rfl)) hp
        · simp

end Dtai

namespace Dtai

variable {β : Type} [CommRing β] [LinearOrder β] [IsStrictOrderedRing β]

/-! ### the match search -/

def negVal (v : Option β) : Bool :=
  match v with
  | some x => decide (x < 0)
  | none => false

theorem posVal_not_negVal (v : Option β) (h : posVal v = true) : negVal v = false := by
  cases v with
  | none => rfl
  | some x =>
    simp only [posVal, decide_eq_true_eq] at h
    simp only [negVal, decide_eq_false_iff_not, not_lt]
    exact le_of_lt h

theorem negVal_neg_of_posVal (v : Option β) (h : posVal v = true) : negVal (v.map (- ·)) = true := by
  cases v with
  | none => simp [posVal] at h
  | some x =>
    simp only [posVal, decide_eq_true_eq] at h
    simp only [Option.map_some, negVal, decide_eq_true_eq]
    exact neg_neg_of_pos h

theorem wpNegate_get (wp : WP β) (cells : List (Nat × Nat)) (i j : Nat) :
    (wpNegate wp cells).get i j = if (i, j) ∈ cells then (wp.get i j).map (- ·) else wp.get i j := by
  unfold wpNegate WP.get
  simp only [List.getElem?_mapIdx]
  cases hrow : wp[i]? with
  | none => simp
  | some row =>
    simp only [Option.map_some, Option.bind_some, List.getElem?_mapIdx]
    cases hv : row[j]? with
    | none => simp
    | some v => split <;> simp

/-- negative cells stay negative -/
def NegMono (wp wp' : WP β) : Prop := ∀ i j, negVal (wp.get i j) = true → negVal (wp'.get i j) = true

theorem wpNegate_spec (wp : WP β) (cells : List (Nat × Nat))
    (hpos : ∀ q ∈ cells, posVal (wp.get q.1 q.2) = true) (h00 : wp.get 0 0 = some 0) :
    NegMono wp (wpNegate wp cells) ∧ (∀ q ∈ cells, negVal ((wpNegate wp cells).get q.1 q.2) = true) ∧
      (wpNegate wp cells).get 0 0 = some 0 := by
  refine ⟨?_, ?_, ?_⟩
  · intro i j hneg
    rw [wpNegate_get]
    split
    · rename_i hmem
      have := posVal_not_negVal _ (hpos (i, j) hmem)
      rw [hneg] at this; cases this
    · exact hneg
  · intro q hq
    rw [wpNegate_get]
    simp only [hq, if_true]
    exact negVal_neg_of_posVal _ (hpos q hq)
  · rw [wpNegate_get]
    split
    · rw [h00]; simp
    · exact h00

theorem ogt_trans (a b c : Option β) (h1 : ogt a b = true) (h2 : ogt b c = true) : ogt a c = true := by
  cases a <;> cases b <;> cases c <;> simp_all [ogt]
  exact lt_trans h2 h1

/-- the start cell chosen by the search is the origin or strictly above the origin's value -/
theorem wpArgmax_spec (wp : WP β) :
    wpArgmax wp = (0, 0) ∨ ogt (wp.get (wpArgmax wp).1 (wpArgmax wp).2) (wp.get 0 0) = true := by
  unfold wpArgmax
  simp only []
  generalize (List.range wp.length).flatMap (fun i => (List.range ((wp[i]?.getD []).length)).map fun j => (i, j)) = cells
  suffices h : ∀ (best : Nat × Nat), (best = (0, 0) ∨ ogt (wp.get best.1 best.2) (wp.get 0 0) = true) →
      (let r := cells.foldl (fun best p => if ogt (wp.get p.1 p.2) (wp.get best.1 best.2) then p else best) best
       r = (0, 0) ∨ ogt (wp.get r.1 r.2) (wp.get 0 0) = true) from h (0, 0) (Or.inl rfl)
  induction cells with
  | nil => intro best h; simpa using h
  | cons p ps ih =>
    intro best h
    simp only [List.foldl_cons]
    apply ih
    split
    · rename_i hgt
      right
      rcases h with rfl | h
      · exact hgt
      · exact ogt_trans _ _ _ hgt h
    · exact h

theorem posVal_of_ogt_zero (v : Option β) (h : ogt v (some 0) = true) : posVal v = true := by
  cases v with
  | none => simp [ogt] at h
  | some x => simpa [ogt, posVal] using h

theorem lcRaw_spec (choose : Option β → Option β → Option β → Nat) (wp : WP β) (r c : Nat)
    (hr : 1 ≤ r) (hc : 1 ≤ c) (hstart : posVal (wp.get r c) = true) :
    (lcRaw choose wp r c).IsChain StepBack ∧ (∀ q ∈ lcRaw choose wp r c, posVal (wp.get q.1 q.2) = true) ∧
      (lcRaw choose wp r c).head? = some (r, c) := by
  obtain ⟨h1, h2, h3⟩ := lcTrace_spec choose wp (r + c) r c
  have hall : ∀ q ∈ lcTrace choose wp (r + c) r c, posVal (wp.get q.1 q.2) = true := by
    intro q hq
    cases hl : lcTrace choose wp (r + c) r c with
    | nil => rw [hl] at hq; cases hq
    | cons q0 rest =>
      rw [hl] at hq h1 h3
      simp only [List.head?_cons, Option.some.injEq] at h1
      rcases List.mem_cons.mp hq with rfl | hq'
      · rw [h1]; exact hstart
      · exact h3 q hq'
  unfold lcRaw
  simp only []
  split
  · rename_i i j hlast
    split
    · rename_i hborder
      refine ⟨h2.prefix (List.dropLast_prefix _), fun q hq => hall q (List.dropLast_subset _ hq), ?_⟩
      cases hl : lcTrace choose wp (r + c) r c with
      | nil => rw [hl] at h1; cases h1
      | cons q0 rest =>
        rw [hl] at h1 hlast
        simp only [List.head?_cons, Option.some.injEq] at h1
        cases rest with
        | nil =>
          -- the only cell is the start cell, which is not on a border
          simp only [List.getLast?_singleton, Option.some.injEq] at hlast
          rw [h1] at hlast
          cases hlast
          omega
        | cons q1 rest' => simp [h1]
    · exact ⟨h2, hall, h1⟩
  · exact ⟨h2, hall, h1⟩

/-- how the working matrix evolves: a cell keeps its value, or a positive cell has become negative -/
def Flip (wp wp' : WP β) : Prop :=
  ∀ i j, wp'.get i j = wp.get i j ∨ (posVal (wp.get i j) = true ∧ negVal (wp'.get i j) = true)

theorem Flip.refl (wp : WP β) : Flip wp wp := fun _ _ => Or.inl rfl

theorem Flip.trans {a b c : WP β} (h1 : Flip a b) (h2 : Flip b c) : Flip a c := by
  intro i j
  rcases h2 i j with h | ⟨hp, hn⟩
  · rcases h1 i j with h' | ⟨hp', hn'⟩
    · left; rw [h, h']
    · right; exact ⟨hp', by rw [h]; exact hn'⟩
  · rcases h1 i j with h' | ⟨_, hn'⟩
    · right; exact ⟨by rw [← h']; exact hp, hn⟩
    · have := posVal_not_negVal _ hp
      rw [hn'] at this; cases this

theorem Flip.negMono {a b : WP β} (h : Flip a b) : NegMono a b := by
  intro i j hneg
  rcases h i j with h' | ⟨hp, _⟩
  · rw [h']; exact hneg
  · have := posVal_not_negVal _ hp
    rw [hneg] at this; cases this

theorem Flip.pos_of_pos {a b : WP β} (h : Flip a b) (i j : Nat) (hp : posVal (b.get i j) = true) :
    posVal (a.get i j) = true := by
  rcases h i j with h' | ⟨_, hn⟩
  · rw [← h']; exact hp
  · have := posVal_not_negVal _ hp
    rw [hn] at this; cases this

theorem wpNegate_flip (wp : WP β) (cells : List (Nat × Nat))
    (hpos : ∀ q ∈ cells, posVal (wp.get q.1 q.2) = true) : Flip wp (wpNegate wp cells) := by
  intro i j
  rw [wpNegate_get]
  split
  · rename_i hmem
    right
    exact ⟨hpos (i, j) hmem, negVal_neg_of_posVal _ (hpos (i, j) hmem)⟩
  · left; rfl

/-- one search step (`lcNext`): the matrix only flips positive cells; a returned match starts in the
cell it is named after, is a chain of backward steps, runs through cells that are positive in the matrix
the step started from (hence were never used before) and that are negative afterwards, and is at
least `minlen` long -/
theorem lcNext_spec (choose : Option β → Option β → Option β → Nat) (minlen : Nat) :
    ∀ (fuel : Nat) (wp : WP β), wp.get 0 0 = some 0 →
      Flip wp (lcNext choose minlen fuel wp).2 ∧ (lcNext choose minlen fuel wp).2.get 0 0 = some 0 ∧
      ∀ m, (lcNext choose minlen fuel wp).1 = some m →
        m.cells.head? = some (m.row, m.col) ∧ m.cells.IsChain StepBack ∧ minlen ≤ m.cells.length ∧
        ∀ q ∈ m.cells, posVal (wp.get q.1 q.2) = true ∧
          negVal ((lcNext choose minlen fuel wp).2.get q.1 q.2) = true := by
  intro fuel
  induction fuel with
  | zero => intro wp h00; simp [lcNext, Flip.refl, h00]
  | succ fuel ih =>
    intro wp h00
    unfold lcNext
    simp only []
    by_cases hb : (wpArgmax wp).1 = 0 ∨ (wpArgmax wp).2 = 0
    · simp [hb, Flip.refl, h00]
    · simp only [hb, if_false]
      have hstart : posVal (wp.get (wpArgmax wp).1 (wpArgmax wp).2) = true := by
        rcases wpArgmax_spec wp with h | h
        · rw [h] at hb; simp at hb
        · rw [h00] at h; exact posVal_of_ogt_zero _ h
      obtain ⟨hchain, hpos, hhead⟩ := lcRaw_spec choose wp _ _ (by omega) (by omega) hstart
      obtain ⟨hmono, hneg, h00'⟩ := wpNegate_spec wp _ hpos h00
      have hflip := wpNegate_flip wp _ hpos
      split
      · -- too short: skipped, the cells stay negated
        obtain ⟨f2, z2, m2⟩ := ih (wpNegate wp (lcRaw choose wp (wpArgmax wp).1 (wpArgmax wp).2)) h00'
        refine ⟨hflip.trans f2, z2, ?_⟩
        intro m hm
        obtain ⟨a1, a2, a3, a4⟩ := m2 m hm
        refine ⟨a1, a2, a3, ?_⟩
        intro q hq
        exact ⟨hflip.pos_of_pos q.1 q.2 (a4 q hq).1, (a4 q hq).2⟩
      · rename_i hlen
        refine ⟨hflip, h00', ?_⟩
        intro m hm
        simp only [Option.some.injEq] at hm
        subst hm
        exact ⟨hhead, hchain, by simpa using hlen, fun q hq => ⟨hpos q hq, hneg q hq⟩⟩

end Dtai

namespace Dtai

variable {β : Type} [CommRing β] [LinearOrder β] [IsStrictOrderedRing β]

/-- what the property says about one match, relative to the matrix `wp0` the search (epoch) started from -/
structure MatchOK (wp0 : WP β) (minlen : Nat) (m : LCMatchM) : Prop where
  start : m.cells.head? = some (m.row, m.col)
  chain : m.cells.IsChain StepBack
  len : minlen ≤ m.cells.length
  positive : ∀ q ∈ m.cells, posVal (wp0.get q.1 q.2) = true

def CellsDisjoint (a b : LCMatchM) : Prop := ∀ q, q ∈ a.cells → q ∉ b.cells

theorem lcGo_spec (choose : Option β → Option β → Option β → Nat) (k : Option Nat) (minlen ncells : Nat)
    (wp0 : WP β) :
    ∀ (fuel ki : Nat) (wp : WP β) (acc : List LCMatchM),
      Flip wp0 wp → wp.get 0 0 = some 0 → ki = acc.length →
      (∀ m ∈ acc, MatchOK wp0 minlen m ∧ ∀ q ∈ m.cells, negVal (wp.get q.1 q.2) = true) →
      acc.Pairwise CellsDisjoint →
      let res := lcCall.go choose k minlen ncells fuel ki wp acc
      Flip wp0 res.2 ∧ res.2.get 0 0 = some 0 ∧
      (∀ m ∈ res.1, MatchOK wp0 minlen m ∧ ∀ q ∈ m.cells, negVal (res.2.get q.1 q.2) = true) ∧
      res.1.Pairwise CellsDisjoint ∧
      (∀ kk, k = some kk → acc.length ≤ kk → res.1.length ≤ kk) := by
  intro fuel
  induction fuel with
  | zero =>
    intro ki wp acc hf h00 _ hacc hpw
    simp only [lcCall.go]
    refine ⟨hf, h00, by simpa using hacc, ?_, by intro kk _ h; simpa using h⟩
    rw [List.pairwise_reverse]
    exact hpw.imp (fun {a b} h q hq hq' => h q hq' hq)
  | succ fuel ih =>
    intro ki wp acc hf h00 hki hacc hpw
    simp only [lcCall.go]
    have hdone : Flip wp0 (acc.reverse, wp).2 ∧ (acc.reverse, wp).2.get 0 0 = some 0 ∧
        (∀ m ∈ (acc.reverse, wp).1, MatchOK wp0 minlen m ∧ ∀ q ∈ m.cells, negVal ((acc.reverse, wp).2.get q.1 q.2) = true) ∧
        (acc.reverse, wp).1.Pairwise CellsDisjoint ∧
        (∀ kk, k = some kk → acc.length ≤ kk → (acc.reverse, wp).1.length ≤ kk) := by
      refine ⟨hf, h00, by simpa using hacc, ?_, by intro kk _ h; simpa using h⟩
      rw [List.pairwise_reverse]
      exact hpw.imp (fun {a b} h q hq hq' => h q hq' hq)
    by_cases hstop : kDone k ki = true
    · rw [if_pos hstop]; exact hdone
    · rw [if_neg hstop]
      have hnotdone := hstop
      obtain ⟨nf, n00, nm⟩ := lcNext_spec choose minlen (ncells + 1) wp h00
      cases hres : lcNext choose minlen (ncells + 1) wp with
      | mk r wp' =>
        rw [hres] at nf n00 nm
        simp only [] at nf n00 nm
        cases r with
        | none =>
          simp only []
          refine ⟨hf.trans nf, n00, ?_, ?_, by intro kk _ h; simpa using h⟩
          · intro m hm
            have hm' : m ∈ acc := by simpa using hm
            exact ⟨(hacc m hm').1, fun q hq => nf.negMono q.1 q.2 ((hacc m hm').2 q hq)⟩
          · rw [List.pairwise_reverse]
            exact hpw.imp (fun {a b} h q hq hq' => h q hq' hq)
        | some m =>
          simp only []
          obtain ⟨a1, a2, a3, a4⟩ := nm m rfl
          have hmok : MatchOK wp0 minlen m :=
            ⟨a1, a2, a3, fun q hq => hf.pos_of_pos q.1 q.2 (a4 q hq).1⟩
          have := ih (ki + 1) wp' (m :: acc) (hf.trans nf) n00 (by simp [hki]) ?_ ?_
          · obtain ⟨r1, r2, r3, r4, r5⟩ := this
            refine ⟨r1, r2, r3, r4, ?_⟩
            intro kk hk hle
            -- the loop guard failed, so fewer than kk matches had been produced
            have hlt : acc.length < kk := by
              rw [hk] at hnotdone
              simp only [kDone, decide_eq_true_eq] at hnotdone
              omega
            exact r5 kk hk (by simpa using hlt)
          · intro m' hm'
            rcases List.mem_cons.mp hm' with rfl | hm''
            · exact ⟨hmok, fun q hq => (a4 q hq).2⟩
            · exact ⟨(hacc m' hm'').1, fun q hq => nf.negMono q.1 q.2 ((hacc m' hm'').2 q hq)⟩
          · refine List.pairwise_cons.mpr ⟨?_, hpw⟩
            intro m' hm' q hq hq'
            -- q is positive in wp (cell of the new match) and negative in wp (cell of an earlier match)
            have h1 := posVal_not_negVal _ (a4 q hq).1
            rw [(hacc m' hm').2 q hq'] at h1
            cases h1

end Dtai
