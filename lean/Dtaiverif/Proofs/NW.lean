/-
Proofs/NW.lean — Needleman–Wunsch: the recurrence value is optimal over all alignments, the executable
score matrix computes it, and the traceback (any preference order) builds an alignment that realises it.
-/
import Mathlib.Algebra.Order.Monoid.Defs
import Mathlib.Order.MinMax
import Mathlib.Tactic
import Dtaiverif.Model.NW

namespace Dtai

variable {σ α : Type} [AddCommMonoid α] [LinearOrder α] [IsOrderedAddMonoid α]

theorem nwSpec_nil_left (sub : σ → σ → α) (gap : α) (zs : List σ) :
    nwSpec sub gap [] zs = borderVal gap zs.length := by
  rw [nwSpec]

theorem nwSpec_nil_right (sub : σ → σ → α) (gap : α) (xs : List σ) :
    nwSpec sub gap xs [] = borderVal gap xs.length := by
  cases xs with
  | nil => rw [nwSpec]
  | cons x xs => rw [nwSpec]; rfl

theorem nwSpec_cons (sub : σ → σ → α) (gap : α) (x : σ) (xs : List σ) (z : σ) (zs : List σ) :
    nwSpec sub gap (x :: xs) (z :: zs) =
      min (min (gap + nwSpec sub gap (x :: xs) zs) (gap + nwSpec sub gap xs (z :: zs)))
        (sub x z + nwSpec sub gap xs zs) := by
  rw [nwSpec]

/-- **Optimality (lower bound)**: no alignment of the two sequences scores below the recurrence value -/
theorem nwSpec_le_score (sub : σ → σ → α) (gap : α) (cols : List (Col σ)) :
    nwSpec sub gap (colsFst cols) (colsSnd cols) ≤ colsScore sub gap cols := by
  induction cols with
  | nil => simp [colsFst, colsSnd, colsScore, nwSpec_nil_left, borderVal]
  | cons col rest ih =>
    cases col with
    | both x y =>
      simp only [colsFst, colsSnd, colsScore]
      rw [nwSpec_cons]
      exact le_trans (min_le_right _ _) (add_le_add le_rfl ih)
    | gap2 x =>
      simp only [colsFst, colsSnd, colsScore]
      cases hS : colsSnd rest with
      | nil =>
        rw [nwSpec_nil_right]
        rw [hS, nwSpec_nil_right] at ih
        simp only [List.length_cons, borderVal]
        exact add_le_add le_rfl ih
      | cons z zs =>
        rw [nwSpec_cons]
        rw [hS] at ih
        exact le_trans (le_trans (min_le_left _ _) (min_le_right _ _)) (add_le_add le_rfl ih)
    | gap1 y =>
      simp only [colsFst, colsSnd, colsScore]
      cases hF : colsFst rest with
      | nil =>
        rw [nwSpec_nil_left]
        rw [hF, nwSpec_nil_left] at ih
        simp only [List.length_cons, borderVal]
        exact add_le_add le_rfl ih
      | cons x xs =>
        rw [nwSpec_cons]
        rw [hF] at ih
        exact le_trans (le_trans (min_le_left _ _) (min_le_left _ _)) (add_le_add le_rfl ih)

/-! ### the executable matrix -/

theorem nwRowAux_get (sub : σ → σ → α) (gap : α) (x : σ) (xs : List σ) :
    ∀ (ys zs : List σ) (prev : List α) (leftv : α),
      leftv = nwSpec sub gap (x :: xs) zs →
      (∀ t, t ≤ ys.length → prev[t]? = some (nwSpec sub gap xs ((ys.take t).reverse ++ zs))) →
      ∀ m, m < ys.length →
        (nwRowAux sub gap x ys prev leftv)[m]? = some (nwSpec sub gap (x :: xs) ((ys.take (m + 1)).reverse ++ zs)) := by
  intro ys
  induction ys with
  | nil => intro zs prev leftv _ _ m hm; simp at hm
  | cons y ys ih =>
    intro zs prev leftv hleft hprev m hm
    have h0 := hprev 0 (by simp)
    have h1 := hprev 1 (by simp)
    simp only [List.take_zero, List.reverse_nil, List.nil_append] at h0
    simp only [List.take_succ_cons, List.take_zero, List.reverse_cons, List.reverse_nil, List.nil_append,
      List.singleton_append] at h1
    match prev, h0, h1 with
    | pd :: pu :: prest, h0, h1 =>
      simp only [List.getElem?_cons_zero, Option.some.injEq] at h0
      simp only [List.getElem?_cons_succ, List.getElem?_cons_zero, Option.some.injEq] at h1
      have hv : min (min (gap + leftv) (gap + pu)) (sub x y + pd) = nwSpec sub gap (x :: xs) (y :: zs) := by
        rw [nwSpec_cons, hleft, h0, h1]
      simp only [nwRowAux]
      cases m with
      | zero =>
        simp only [List.getElem?_cons_zero, List.take_succ_cons, List.take_zero, List.reverse_cons, List.reverse_nil,
          List.nil_append, List.singleton_append, zero_add]
        rw [hv]
      | succ m =>
        simp only [List.getElem?_cons_succ]
        have := ih (y :: zs) (pu :: prest) _ hv ?_ m (by simpa using hm)
        · rw [this]
          simp [List.take_succ_cons, List.reverse_cons, List.append_assoc]
        · intro t ht
          have := hprev (t + 1) (by simpa using ht)
          simp only [List.getElem?_cons_succ] at this
          rw [this]
          simp [List.take_succ_cons, List.reverse_cons, List.append_assoc]

theorem borderVal_range_get (gap : α) (n j : Nat) (hj : j ≤ n) :
    ((List.range (n + 1)).map (borderVal gap))[j]? = some (borderVal gap j) := by
  simp [List.getElem?_map, List.getElem?_range (by omega : j < n + 1)]

/-- every cell of the executable matrix is the recurrence value of the two prefixes -/
theorem nwRowOf_get (sub : σ → σ → α) (gap : α) (s2 : List σ) :
    ∀ (xs : List σ) (j : Nat), j ≤ s2.length →
      (nwRowOf sub gap s2 xs)[j]? = some (nwSpec sub gap xs (s2.take j).reverse) := by
  intro xs
  induction xs with
  | nil =>
    intro j hj
    simp only [nwRowOf]
    rw [borderVal_range_get gap s2.length j hj, nwSpec_nil_left]
    simp [Nat.min_eq_left hj]
  | cons x xs ih =>
    intro j hj
    simp only [nwRowOf]
    cases j with
    | zero => simp [nwSpec_nil_right]
    | succ m =>
      simp only [List.getElem?_cons_succ]
      have := nwRowAux_get sub gap x xs s2 [] (nwRowOf sub gap s2 xs) (borderVal gap (xs.length + 1))
        (by rw [nwSpec_nil_right]; rfl)
        (by intro t ht; simpa using ih t ht) m (by omega)
      simpa using this

theorem nwMatrix_get (sub : σ → σ → α) (gap : α) (s1 s2 : List σ) (i j : Nat) (hi : i ≤ s1.length)
    (hj : j ≤ s2.length) :
    ((nwMatrix sub gap s1 s2)[i]?.bind fun row => row[j]?) =
      some (nwSpec sub gap (s1.take i).reverse (s2.take j).reverse) := by
  simp only [nwMatrix, List.getElem?_map, List.getElem?_range (by omega : i < s1.length + 1), Option.map_some,
    Option.bind_some]
  exact nwRowOf_get sub gap s2 _ j hj

/-! ### traceback -/

theorem min3_cases (a b c : α) : min (min a b) c = a ∨ min (min a b) c = b ∨ min (min a b) c = c := by
  rcases min_choice (min a b) c with h | h
  · rcases min_choice a b with h' | h'
    · left; rw [h, h']
    · right; left; rw [h, h']
  · right; right; exact h

variable [DecidableEq α]

/-- **Traceback**: when the matrix handed to `best_alignment` holds the recurrence values and the
preference order lists all three directions, the walk never fails and the alignment it builds consists
of the two sequences (gaps removed) and scores exactly the value of the start cell. -/
theorem nwTraceback_spec (sub : σ → σ → α) (gap : α) (val : Nat → Nat → α) (order : List Dir)
    (hord : ∀ d : Dir, d ∈ order) :
    ∀ (xs zs : List σ),
      (∀ xs' zs', xs' <:+ xs → zs' <:+ zs → val xs'.length zs'.length = nwSpec sub gap xs' zs') →
      ∃ cols, nwTraceback sub gap val order xs zs = some cols ∧ colsFst cols = xs ∧ colsSnd cols = zs ∧
        colsScore sub gap cols = nwSpec sub gap xs zs := by
  intro xs zs
  generalize hn : xs.length + zs.length = n
  induction n using Nat.strong_induction_on generalizing xs zs with
  | _ n ih =>
    intro hval
    match xs, zs with
    | [], [] =>
      exact ⟨[], by rw [nwTraceback], rfl, rfl, by simp [colsScore, nwSpec_nil_left, borderVal]⟩
    | x :: xs, [] =>
      obtain ⟨cols, h1, h2, h3, h4⟩ := ih (xs.length + 0) (by simp at hn; omega) xs [] rfl
        (fun xs' zs' hx hz => hval xs' zs' (hx.trans (List.suffix_cons x xs)) hz)
      refine ⟨Col.gap2 x :: cols, by rw [nwTraceback, h1]; rfl, by simp [colsFst, h2], by simp [colsSnd, h3], ?_⟩
      simp only [colsScore, h4, nwSpec_nil_right, List.length_cons, borderVal]
    | [], z :: zs =>
      obtain ⟨cols, h1, h2, h3, h4⟩ := ih (0 + zs.length) (by simp at hn; omega) [] zs (by simp)
        (fun xs' zs' hx hz => hval xs' zs' hx (hz.trans (List.suffix_cons z zs)))
      refine ⟨Col.gap1 z :: cols, by rw [nwTraceback, h1]; rfl, by simp [colsFst, h2], by simp [colsSnd, h3], ?_⟩
      simp only [colsScore, h4, nwSpec_nil_left, List.length_cons, borderVal]
    | x :: xs, z :: zs =>
      have hv := hval (x :: xs) (z :: zs) List.suffix_rfl List.suffix_rfl
      have hl := hval (x :: xs) zs List.suffix_rfl (List.suffix_cons z zs)
      have hu := hval xs (z :: zs) (List.suffix_cons x xs) List.suffix_rfl
      have hd := hval xs zs (List.suffix_cons x xs) (List.suffix_cons z zs)
      simp only [List.length_cons] at hv hl hu hd
      rw [nwTraceback]
      simp only [Nat.add_sub_cancel, hv, hl, hu, hd]
      -- some direction is flagged
      set flag : Dir → Bool := fun d =>
        match d with
        | .left => nwSpec sub gap (x :: xs) (z :: zs) == gap + nwSpec sub gap (x :: xs) zs
        | .up => nwSpec sub gap (x :: xs) (z :: zs) == gap + nwSpec sub gap xs (z :: zs)
        | .diag => nwSpec sub gap (x :: xs) (z :: zs) == sub x z + nwSpec sub gap xs zs with hflag
      have hex : ∃ d, d ∈ order ∧ flag d = true := by
        rcases min3_cases (gap + nwSpec sub gap (x :: xs) zs) (gap + nwSpec sub gap xs (z :: zs))
          (sub x z + nwSpec sub gap xs zs) with h | h | h
        · exact ⟨.left, hord _, by simp [hflag, nwSpec_cons, h]⟩
        · exact ⟨.up, hord _, by simp [hflag, nwSpec_cons, h]⟩
        · exact ⟨.diag, hord _, by simp [hflag, nwSpec_cons, h]⟩
      cases hfind : order.find? flag with
      | none =>
        obtain ⟨d, hd1, hd2⟩ := hex
        exact absurd hd2 (by simpa using (List.find?_eq_none.mp hfind) d hd1)
      | some d =>
        have hfd : flag d = true := List.find?_some hfind
        cases d with
        | diag =>
          obtain ⟨cols, h1, h2, h3, h4⟩ := ih (xs.length + zs.length) (by simp at hn; omega) xs zs rfl
            (fun xs' zs' hx hz => hval xs' zs' (hx.trans (List.suffix_cons x xs)) (hz.trans (List.suffix_cons z zs)))
          refine ⟨Col.both x z :: cols, by simp [h1], by simp [colsFst, h2], by simp [colsSnd, h3], ?_⟩
          simp only [hflag, beq_iff_eq] at hfd
          simp only [colsScore, h4, hfd]
        | up =>
          obtain ⟨cols, h1, h2, h3, h4⟩ := ih (xs.length + (z :: zs).length) (by simp at hn ⊢; omega) xs (z :: zs) rfl
            (fun xs' zs' hx hz => hval xs' zs' (hx.trans (List.suffix_cons x xs)) hz)
          refine ⟨Col.gap2 x :: cols, by simp [h1], by simp [colsFst, h2], by simp [colsSnd, h3], ?_⟩
          simp only [hflag, beq_iff_eq] at hfd
          simp only [colsScore, h4, hfd]
        | left =>
          obtain ⟨cols, h1, h2, h3, h4⟩ := ih ((x :: xs).length + zs.length) (by simp at hn ⊢; omega) (x :: xs) zs rfl
            (fun xs' zs' hx hz => hval xs' zs' hx (hz.trans (List.suffix_cons z zs)))
          refine ⟨Col.gap1 z :: cols, by simp [h1], by simp [colsFst, h2], by simp [colsSnd, h3], ?_⟩
          simp only [hflag, beq_iff_eq] at hfd
          simp only [colsScore, h4, hfd]

end Dtai
