/-
Proofs/Prune.lean — soundness of the early-abandoning bookkeeping (`sc`, `ec`, `smaller_found`,
`ec_next`, `break`) of `dtw.distance` / `dtw.warping_paths` / the C kernels.

Main result `matP_rel`: every cell of the pruned matrix over-estimates the recurrence `D` and is
*equal* to it whenever `D ≤ m` (the threshold).  Consequences: `distModel_eq_of_le`,
`distModel_top_of_gt`, and (with `m = ⊤`) `distModel_eq_spec`.
-/
import Dtaiverif.Proofs.GridDP

namespace Dtai

variable {α : Type} [LinearOrderedAddCommMonoidWithTop α]

/-- a value that can never be (part of) a result `≤ m` -/
def Dead (m x : α) : Prop := x ≤ m → x = ⊤

/-- `p` over-estimates `d` and is exact when `d ≤ m` -/
structure Rel (m d p : α) : Prop where
  le : d ≤ p
  eq : d ≤ m → p = d

theorem Rel.refl (m d : α) : Rel m d d := ⟨le_rfl, fun _ => rfl⟩

theorem Rel.top_of_dead {m d : α} (h : Dead m d) : Rel m d ⊤ := ⟨le_top, fun hd => (h hd).symm⟩

theorem dead_top (m : α) : Dead m (⊤ : α) := fun _ => rfl

theorem dead_of_rel_not_le {m d p : α} (h : Rel m d p) (hp : ¬ p ≤ m) : Dead m d :=
  fun hd => absurd (h.eq hd ▸ hd) hp

/-! ### the recurrence step preserves `Dead` and `Rel` -/

theorem le_add_self_of_nonneg {a b : α} (ha : 0 ≤ a) : b ≤ a + b := by
  calc b = 0 + b := (zero_add b).symm
    _ ≤ a + b := add_le_add ha le_rfl

theorem le_self_add_of_nonneg {a b : α} (ha : 0 ≤ a) : b ≤ b + a := by
  rw [add_comm]; exact le_add_self_of_nonneg ha

theorem step_dead (g : Grid α) (h : g.NonNeg) (m : α) (i j : Nat) {a b c : α}
    (ha : Dead m a) (hb : Dead m b) (hc : Dead m c) : Dead m (g.step i j a b c) := by
  intro hle
  unfold Grid.step at hle ⊢
  have hmin : min a (min (b + g.pen) (c + g.pen)) ≤ m :=
    le_trans (le_add_self_of_nonneg (h.cost i j)) hle
  have : min a (min (b + g.pen) (c + g.pen)) = ⊤ := by
    rcases min_choice a (min (b + g.pen) (c + g.pen)) with h1 | h1
    · rw [h1] at hmin ⊢; exact ha hmin
    · rw [h1] at hmin ⊢
      rcases min_choice (b + g.pen) (c + g.pen) with h2 | h2
      · rw [h2] at hmin ⊢
        have : b = ⊤ := hb (le_trans (le_self_add_of_nonneg h.pen) hmin)
        rw [this, top_add]
      · rw [h2] at hmin ⊢
        have : c = ⊤ := hc (le_trans (le_self_add_of_nonneg h.pen) hmin)
        rw [this, top_add]
  rw [this, add_top]

theorem cellVal_dead (g : Grid α) (h : g.NonNeg) (m : α) (i j : Nat) {a b c : α}
    (ha : Dead m a) (hb : Dead m b) (hc : Dead m c) : Dead m (g.cellVal i j a b c) := by
  unfold Grid.cellVal
  split
  · exact step_dead g h m i j ha hb hc
  · exact dead_top m

theorem step_rel (g : Grid α) (h : g.NonNeg) (m : α) (i j : Nat) {a b c pa pb pc : α}
    (ha : Rel m a pa) (hb : Rel m b pb) (hc : Rel m c pc) :
    Rel m (g.step i j a b c) (g.step i j pa pb pc) := by
  have hmono : min a (min (b + g.pen) (c + g.pen)) ≤ min pa (min (pb + g.pen) (pc + g.pen)) :=
    min_le_min ha.le (min_le_min (add_le_add hb.le le_rfl) (add_le_add hc.le le_rfl))
  refine ⟨?_, ?_⟩
  · unfold Grid.step; exact add_le_add le_rfl hmono
  · intro hle
    unfold Grid.step at hle ⊢
    have hmin : min a (min (b + g.pen) (c + g.pen)) ≤ m :=
      le_trans (le_add_self_of_nonneg (h.cost i j)) hle
    congr 1
    apply le_antisymm _ hmono
    rcases min_choice a (min (b + g.pen) (c + g.pen)) with h1 | h1
    · rw [h1] at hmin ⊢
      rw [← ha.eq hmin]; exact min_le_left _ _
    · rw [h1] at hmin ⊢
      rcases min_choice (b + g.pen) (c + g.pen) with h2 | h2
      · rw [h2] at hmin ⊢
        have : pb = b := hb.eq (le_trans (le_self_add_of_nonneg h.pen) hmin)
        rw [← this]; exact le_trans (min_le_right _ _) (min_le_left _ _)
      · rw [h2] at hmin ⊢
        have : pc = c := hc.eq (le_trans (le_self_add_of_nonneg h.pen) hmin)
        rw [← this]; exact le_trans (min_le_right _ _) (min_le_right _ _)

/-! ### generic scan lemma -/

theorem scanSt_spec {σ : Type} (f : Nat → σ → α → α → α × σ) (pprev : Nat → α)
    (Inv : Nat → σ → Prop) (Good : Nat → α → Prop) (N : Nat)
    (hstep : ∀ j st, j < N → Inv j st →
      Good j (f j st (pprev j) (pprev (j+1))).1 ∧ Inv (j+1) (f j st (pprev j) (pprev (j+1))).2) :
    ∀ n j st, j + n = N → Inv j st →
      (scanSt f j st ((List.range' j (n+1)).map pprev)).1.length = n ∧
      (∀ k, k < n → Good (j+k) (getT (scanSt f j st ((List.range' j (n+1)).map pprev)).1 k)) ∧
      Inv N (scanSt f j st ((List.range' j (n+1)).map pprev)).2 := by
  intro n
  induction n with
  | zero =>
    intro j st hj hinv
    simp [scanSt]
    rw [← hj]; exact hinv
  | succ n ih =>
    intro j st hj hinv
    have h1 : (List.range' j (n+1+1)).map pprev =
        pprev j :: pprev (j+1) :: (List.range' (j+2) n).map pprev := by
      simp [List.range'_succ]
    have h2 : pprev (j+1) :: (List.range' (j+2) n).map pprev = (List.range' (j+1) (n+1)).map pprev := by
      simp [List.range'_succ]
    rw [h1, scanSt, h2]
    obtain ⟨hg, hi⟩ := hstep j st (by omega) hinv
    obtain ⟨hl, hgood, hfin⟩ := ih (j+1) (f j st (pprev j) (pprev (j+1))).2 (by omega) hi
    refine ⟨by simp [hl], ?_, hfin⟩
    intro k hk
    cases k with
    | zero => simpa [getT] using hg
    | succ k =>
      have := hgood k (by omega)
      simp only [getT, List.getD_cons_succ] at this ⊢
      rw [show j + (k + 1) = j + 1 + k by omega]
      exact this

/-! ### row invariants -/

/-- columns `< sc` are dead in row `i` and all later rows -/
structure SInv (g : Grid α) (m : α) (i sc : Nat) : Prop where
  psi : 0 < sc → g.psi1b < i
  dead : ∀ i', i ≤ i' → ∀ j, j < sc → Dead m (D g (i'+1) (j+1))

/-- matrix columns `> ec` of matrix row `I` are dead -/
def EInv (g : Grid α) (m : α) (I ec : Nat) : Prop := ∀ J, ec < J → Dead m (D g I J)

/-- a computed row is related to matrix row `I` of the recurrence -/
structure RowRel (g : Grid α) (m : α) (I : Nat) (row : List α) : Prop where
  len : row.length = g.c + 1
  rel : ∀ J, J ≤ g.c → Rel m (D g I J) (getT row J)

theorem D_out_of_band (g : Grid α) (I J : Nat) (h : g.inBand I J = false) : D g (I+1) (J+1) = ⊤ := by
  apply D_succ_not_ok
  simp [Grid.ok, h]

theorem inBand_false_of_ge (g : Grid α) (i j : Nat) (h : g.c ≤ j) : g.inBand i j = false := by
  unfold Grid.inBand Grid.jEnd
  simp only [Bool.and_eq_false_imp, decide_eq_true_eq, decide_eq_false_iff_not]
  intro _; omega

/-- dead cells propagate downwards (no live border cell can re-enter) -/
theorem dead_down (g : Grid α) (h : g.NonNeg) (m : α) (i s : Nat) (hpsi : g.psi1b ≤ i)
    (hrow : ∀ J, 1 ≤ J → J ≤ s → Dead m (D g (i+1) J)) :
    ∀ n J, 1 ≤ J → J ≤ s → Dead m (D g (i+1+n) J) := by
  intro n
  induction n with
  | zero => exact hrow
  | succ n ih =>
    intro J
    induction J with
    | zero => intro h1; omega
    | succ J ihJ =>
      intro _ hJs
      have e : i + 1 + (n+1) = (i + 1 + n) + 1 := by omega
      rw [e, D.eq_3]
      apply cellVal_dead g h
      · cases J with
        | zero =>
          have e2 : i + 1 + n = (i + n) + 1 := by omega
          rw [e2, D.eq_2]; unfold Grid.borderCol
          rw [if_neg (by omega)]; exact dead_top m
        | succ J => exact ih (J+1) (by omega) (by omega)
      · exact ih (J+1) (by omega) hJs
      · cases J with
        | zero =>
          rw [D.eq_2]; unfold Grid.borderCol
          rw [if_neg (by omega)]; exact dead_top m
        | succ J =>
          have := ihJ (by omega) (by omega)
          rw [e] at this; exact this

/-- dead cells propagate to the right when the row above is dead from there on -/
theorem dead_right (g : Grid α) (h : g.NonNeg) (m : α) (i ec j : Nat) (hec : ec ≤ j)
    (hE : EInv g m i ec) (hcell : Dead m (D g (i+1) (j+1))) :
    ∀ n, Dead m (D g (i+1) (j+1+n)) := by
  intro n
  induction n with
  | zero => exact hcell
  | succ n ih =>
    have e : j + 1 + (n+1) = (j + 1 + n) + 1 := by omega
    rw [e, D.eq_3]
    exact cellVal_dead g h m _ _ (hE _ (by omega)) (hE _ (by omega)) ih

/-! ### the inner loop -/

/-- invariant of the inner loop of row `i` before processing series column `j` -/
structure JInv (g : Grid α) (m : α) (i j : Nat) (st : JSt α) : Prop where
  left : Rel m (D g (i+1) j) st.left
  broke : st.broke = true → ∀ J, j ≤ J → Dead m (D g (i+1) J)
  notFound : st.found = false → ∀ J, 1 ≤ J → J ≤ j → Dead m (D g (i+1) J)
  sc : ∀ J, 1 ≤ J → J ≤ st.sc → Dead m (D g (i+1) J)
  scPsi : 0 < st.sc → g.psi1b ≤ i
  ecNext : st.found = true → ∀ J, st.ecNext < J → J ≤ j → Dead m (D g (i+1) J)

theorem pcell_step (g : Grid α) (h : g.NonNeg) (m : α) (i sc0 ec0 : Nat) (prev : List α)
    (hS : SInv g m i sc0) (hE : EInv g m i ec0) (hprev : RowRel g m i prev)
    (j : Nat) (st : JSt α) (hj : j < g.c) (hinv : JInv g m i j st) :
    Rel m (D g (i+1) (j+1))
      (pcell g m i (max (g.jStart i) sc0) ec0 j st (getT prev j) (getT prev (j+1))).1 ∧
    JInv g m i (j+1) (pcell g m i (max (g.jStart i) sc0) ec0 j st (getT prev j) (getT prev (j+1))).2 := by
  -- a skipped cell whose true value is dead
  have skip : Dead m (D g (i+1) (j+1)) →
      Rel m (D g (i+1) (j+1)) (⊤ : α) ∧ JInv g m i (j+1) { st with left := (⊤ : α) } := by
    intro hd
    refine ⟨Rel.top_of_dead hd, ⟨Rel.top_of_dead hd, ?_, ?_, hinv.sc, hinv.scPsi, ?_⟩⟩
    · intro hb J hJ; exact hinv.broke hb J (by omega)
    · intro hf J h1 hJ
      rcases Nat.lt_or_ge J (j+1) with hlt | hge
      · exact hinv.notFound hf J h1 (by omega)
      · have : J = j+1 := by omega
        subst this; exact hd
    · intro hf J h1 hJ
      rcases Nat.lt_or_ge J (j+1) with hlt | hge
      · exact hinv.ecNext hf J h1 (by omega)
      · have : J = j+1 := by omega
        subst this; exact hd
  unfold pcell
  split
  · -- outside the loop range or after break
    rename_i hc
    apply skip
    rcases hc with hc | hc | hc
    · rcases lt_max_iff.mp hc with h1 | h1
      · rw [D_out_of_band g i j (by simp [Grid.inBand]; intro h2; omega)]; exact dead_top m
      · exact hS.dead i le_rfl j h1
    · rw [D_out_of_band g i j (by simp [Grid.inBand]; intro _; omega)]; exact dead_top m
    · exact hinv.broke hc (j+1) (by omega)
  · rename_i hc
    have hc' : ¬ (j < max (g.jStart i) sc0) ∧ ¬ (g.jEnd i ≤ j) ∧ ¬ (st.broke = true) := by
      refine ⟨fun h1 => hc (Or.inl h1), fun h1 => hc (Or.inr (Or.inl h1)), fun h1 => hc (Or.inr (Or.inr h1))⟩
    obtain ⟨hjs, hje, hnb⟩ := hc'
    split
    · -- max_step: `continue`
      rename_i hms
      apply skip
      rw [D_succ_not_ok g i j (by simp [Grid.ok, hms])]; exact dead_top m
    · rename_i hms
      have hms' : g.cost i j ≤ g.maxStep := not_not.mp hms
      have hband : g.inBand i j = true := by
        simp only [Grid.inBand, Bool.and_eq_true, decide_eq_true_eq]
        constructor
        · have := le_max_left (g.jStart i) sc0; omega
        · omega
      have hok : g.ok i j = true := by simp [Grid.ok, hband, hms']
      have hD : D g (i+1) (j+1) = g.step i j (D g i j) (D g i (j+1)) (D g (i+1) j) := by
        rw [D]; simp [Grid.cellVal, hok]
      have hrel : Rel m (D g (i+1) (j+1)) (g.step i j (getT prev j) (getT prev (j+1)) st.left) := by
        rw [hD]
        exact step_rel g h m i j (hprev.rel j (by omega)) (hprev.rel (j+1) (by omega)) hinv.left
      dsimp only
      split
      · -- value below the threshold
        refine ⟨hrel, ⟨hrel, ?_, ?_, hinv.sc, hinv.scPsi, ?_⟩⟩
        · intro hb; exact absurd hb hnb
        · intro hf; simp at hf
        · intro _ J h1 hJ; simp only at h1; omega
      · -- value above the threshold
        rename_i hv
        have hdead : Dead m (D g (i+1) (j+1)) := dead_of_rel_not_le hrel hv
        refine ⟨hrel, ⟨hrel, ?_, ?_, ?_, ?_, ?_⟩⟩
        · intro hb J hJ
          simp only [decide_eq_true_eq] at hb
          obtain ⟨n, rfl⟩ : ∃ n, J = j + 1 + n := ⟨J - (j+1), by omega⟩
          exact dead_right g h m i ec0 j hb hE hdead n
        · intro hf J h1 hJ
          simp only at hf
          rcases Nat.lt_or_ge J (j+1) with hlt | hge
          · exact hinv.notFound hf J h1 (by omega)
          · have : J = j+1 := by omega
            subst this; exact hdead
        · intro J h1 hJ
          simp only at hJ
          split at hJ
          · exact hinv.sc J h1 hJ
          · rename_i hcond
            have hf : st.found = false := by
              cases hst : st.found with
              | false => rfl
              | true => exact absurd (Or.inl hst) hcond
            rcases Nat.lt_or_ge J (j+1) with hlt | hge
            · exact hinv.notFound hf J h1 (by omega)
            · have : J = j+1 := by omega
              subst this; exact hdead
        · intro hpos
          simp only at hpos
          split at hpos
          · exact hinv.scPsi hpos
          · rename_i hcond
            have : ¬ i < g.psi1b := fun hh => hcond (Or.inr hh)
            omega
        · intro hf J h1 hJ
          simp only at hf h1
          rcases Nat.lt_or_ge J (j+1) with hlt | hge
          · exact hinv.ecNext hf J h1 (by omega)
          · have : J = j+1 := by omega
            subst this; exact hdead

/-! ### one row -/

theorem map_getT_range (row : List α) (n : Nat) (hl : row.length = n + 1) :
    row = (List.range' 0 (n+1)).map (getT row) := by
  apply List.ext_getElem
  · simp [hl]
  · intro k h1 h2
    simp [getT, List.getD, List.getElem?_eq_getElem h1]

theorem prow_spec (g : Grid α) (h : g.NonNeg) (m : α) (i sc ec : Nat) (prev : List α)
    (hS : SInv g m i sc) (hE : EInv g m i ec) (hprev : RowRel g m i prev) :
    RowRel g m (i+1) (prow g m i sc ec prev).1 ∧
    SInv g m (i+1) (prow g m i sc ec prev).2.1 ∧
    EInv g m (i+1) (prow g m i sc ec prev).2.2 := by
  have hprev' : prev = (List.range' 0 (g.c+1)).map (getT prev) := map_getT_range prev g.c hprev.len
  obtain ⟨st0, hst0⟩ : ∃ st0 : JSt α, st0 =
      { sc := sc, found := false, ecNext := i, broke := false, left := g.borderCol (i+1) } := ⟨_, rfl⟩
  have hinv0 : JInv g m i 0 st0 := by
    subst hst0
    refine ⟨?_, ?_, ?_, ?_, ?_, ?_⟩
    · show Rel m (D g (i+1) 0) (g.borderCol (i+1)); rw [D.eq_2]; exact Rel.refl _ _
    · intro hb; simp at hb
    · intro _ J h1 hJ; omega
    · intro J h1 hJ
      obtain ⟨J', rfl⟩ : ∃ J', J = J' + 1 := ⟨J - 1, by omega⟩
      exact hS.dead i le_rfl J' (by simp only at hJ; omega)
    · intro hpos; have := hS.psi hpos; omega
    · intro hf; simp at hf
  have hscan := scanSt_spec (pcell g m i (max (g.jStart i) sc) ec) (getT prev)
    (JInv g m i) (fun j v => Rel m (D g (i+1) (j+1)) v) g.c
    (fun j st hj hinv => pcell_step g h m i sc ec prev hS hE hprev j st hj hinv)
    g.c 0 st0 (by omega) hinv0
  rw [← hprev'] at hscan
  obtain ⟨hlen, hgood, hfin⟩ := hscan
  simp only [prow, ← hst0]
  refine ⟨⟨by simp [hlen], ?_⟩, ⟨?_, ?_⟩, ?_⟩
  · intro J hJ
    cases J with
    | zero => simp only [getT, List.getD_cons_zero]; rw [D.eq_2]; exact Rel.refl _ _
    | succ J =>
      have := hgood J (by omega)
      simp only [getT, List.getD_cons_succ] at this ⊢
      rw [Nat.zero_add] at this
      exact this
  · intro hpos; have := hfin.scPsi hpos; omega
  · intro i' hi' j hj
    obtain ⟨n, rfl⟩ : ∃ n, i' = i + 1 + n := ⟨i' - (i+1), by omega⟩
    have hpsi : g.psi1b ≤ i := hfin.scPsi (by omega)
    have := dead_down g h m i _ hpsi (fun J h1 hJ => hfin.sc J h1 hJ) (n+1) (j+1) (by omega) (by omega)
    rw [show i + 1 + n + 1 = i + 1 + (n+1) by omega]
    exact this
  · intro J hJ
    rcases Nat.lt_or_ge g.c J with hgt | hle
    · obtain ⟨J', rfl⟩ : ∃ J', J = J' + 1 := ⟨J - 1, by omega⟩
      rw [D_out_of_band g i J' (inBand_false_of_ge g i J' (by omega))]; exact dead_top m
    · cases hf : (scanSt (pcell g m i (max (g.jStart i) sc) ec) 0 st0 prev).2.found with
      | true => exact hfin.ecNext hf J hJ hle
      | false => exact hfin.notFound hf J (by omega) hle

/-! ### the whole matrix -/

theorem row0_rel (g : Grid α) (m : α) : RowRel g m 0 (row0 g) := by
  refine ⟨by simp [row0], ?_⟩
  intro J hJ
  have : getT (row0 g) J = D g 0 J := by
    simp [getT, row0, List.getD, List.getElem?_map, List.getElem?_range (by omega : J < g.c + 1), D]
  rw [this]; exact Rel.refl _ _

theorem matPAux_spec (g : Grid α) (h : g.NonNeg) (m : α) : ∀ n,
    (matPAux g m n).1.length = n + 1 ∧
    (∀ I, I ≤ n → RowRel g m I ((matPAux g m n).1.getD I [])) ∧
    SInv g m n (matPAux g m n).2.1 ∧ EInv g m n (matPAux g m n).2.2 := by
  intro n
  induction n with
  | zero =>
    refine ⟨by simp [matPAux], ?_, ⟨by simp [matPAux], by simp [matPAux]⟩, ?_⟩
    · intro I hI
      have : I = 0 := by omega
      subst this
      simpa [matPAux] using row0_rel g m
    · intro J hJ
      simp only [matPAux] at hJ
      rw [D]; unfold Grid.border0
      rw [if_neg (by omega)]; exact dead_top m
  | succ n ih =>
    obtain ⟨hlen, hrows, hS, hE⟩ := ih
    have hlast : (matPAux g m n).1.getLastD [] = (matPAux g m n).1.getD n [] := by
      rw [List.getLastD_eq_getLast?, List.getLast?_eq_getElem?]
      simp [hlen, List.getD]
    have hp := prow_spec g h m n _ _ _ hS hE (hlast ▸ hrows n le_rfl)
    rw [matPAux]
    refine ⟨by simp [hlen], ?_, hp.2.1, hp.2.2⟩
    intro I hI
    rcases Nat.lt_or_ge I (n+1) with hlt | hge
    · have := hrows I (by omega)
      simpa [List.getD, List.getElem?_append_left (by omega : I < (matPAux g m n).1.length)] using this
    · have : I = n + 1 := by omega
      subst this
      have hidx : ((matPAux g m n).1 ++ [(prow g m n (matPAux g m n).2.1 (matPAux g m n).2.2
          ((matPAux g m n).1.getLastD [])).1]).getD (n+1) [] =
          (prow g m n (matPAux g m n).2.1 (matPAux g m n).2.2 ((matPAux g m n).1.getLastD [])).1 := by
        simp [List.getD, List.getElem?_append_right (by omega : (matPAux g m n).1.length ≤ n+1), hlen]
      rw [hidx]; exact hp.1

/-- **Soundness of early abandoning.** Every cell of the pruned matrix over-estimates the true
recurrence value and equals it whenever that value is `≤ m`. -/
theorem matP_rel (g : Grid α) (h : g.NonNeg) (m : α) (n I J : Nat) (hI : I ≤ n) (hJ : J ≤ g.c) :
    Rel m (D g I J) (cellOf (matP g m n) I J) := by
  have := (matPAux_spec g h m n).2.1 I hI
  exact this.rel J hJ

end Dtai
