/-
Proofs/SubseqSearch.lean — C14: the bounded scan with lower-bound skips and thresholded distance calls
keeps exactly the k smallest qualifying distances.
-/
import Dtaiverif.Proofs.GridDP
import Dtaiverif.Model.SubseqSearch

namespace Dtai

variable {α : Type} [LinearOrderedAddCommMonoidWithTop α]

/-- candidate `(idx, dist, lb)` qualifies for the answer: finite and within the user bound -/
def Qual (M : α) (c : Nat × α × α) : Prop := c.2.1 ≤ M ∧ c.2.1 ≠ ⊤

theorem insertSorted_mem (x : α × Nat) (l : List (α × Nat)) (y : α × Nat) :
    y ∈ insertSorted x l ↔ y = x ∨ y ∈ l := by
  induction l with
  | nil => simp [insertSorted]
  | cons z zs ih =>
    unfold insertSorted
    split
    · simp
    · simp only [List.mem_cons, ih]; tauto

theorem insertSorted_length (x : α × Nat) (l : List (α × Nat)) : (insertSorted x l).length = l.length + 1 := by
  induction l with
  | nil => simp [insertSorted]
  | cons z zs ih => unfold insertSorted; split <;> simp [ih]

theorem insertSorted_sorted (x : α × Nat) (l : List (α × Nat))
    (h : l.Pairwise fun a b => a.1 ≤ b.1) : (insertSorted x l).Pairwise fun a b => a.1 ≤ b.1 := by
  induction l with
  | nil => simp [insertSorted]
  | cons z zs ih =>
    unfold insertSorted
    obtain ⟨hz, hzs⟩ := List.pairwise_cons.mp h
    split
    · rename_i hle
      refine List.pairwise_cons.mpr ⟨?_, h⟩
      intro a ha
      rcases List.mem_cons.mp ha with rfl | ha'
      · exact hle
      · exact le_trans hle (hz a ha')
    · rename_i hnle
      refine List.pairwise_cons.mpr ⟨?_, ih hzs⟩
      intro a ha
      rcases (insertSorted_mem x zs a).mp ha with rfl | ha'
      · exact le_of_not_ge hnle
      · exact hz a ha'

/-- in a sorted list every element of `take k` is below every dropped element -/
theorem take_le_drop (l : List (α × Nat)) (h : l.Pairwise fun a b => a.1 ≤ b.1) (k : Nat) :
    ∀ a ∈ l.take k, ∀ b ∈ l.drop k, a.1 ≤ b.1 := by
  intro a ha b hb
  have := List.pairwise_append.mp ((List.take_append_drop k l).symm ▸ h)
  exact this.2.2 a ha b hb

structure KInv (k : Nat) (M : α) (done : List (Nat × α × α)) (st : KState α) : Prop where
  sorted : st.best.Pairwise fun a b => a.1 ≤ b.1
  genuine : ∀ x ∈ st.best, ∃ c ∈ done, c.1 = x.2 ∧ c.2.1 = x.1 ∧ Qual M c
  len : st.best.length ≤ k
  excluded : ∀ c ∈ done, Qual M c → (c.2.1, c.1) ∉ st.best →
      st.best.length = k ∧ ∀ x ∈ st.best, x.1 ≤ c.2.1
  boundM : st.bound ≤ M
  notFull : st.best.length < k → st.bound = M
  full : st.best.length = k → (∀ x ∈ st.best, x.1 ≤ st.bound) ∧ ∃ x ∈ st.best, x.1 = st.bound

theorem knnStep_inv (k : Nat) (hk : 1 ≤ k) (useLb : Bool) (M : α) (done : List (Nat × α × α)) (st : KState α)
    (c : Nat × α × α) (hlb : c.2.2 ≤ c.2.1) (hinv : KInv k M done st) :
    KInv k M (done ++ [c]) (knnStep k useLb st c) := by
  -- a candidate that is not inserted because it exceeds the running bound
  have reject : ¬ (c.2.1 ≤ st.bound) ∨ c.2.1 = ⊤ → KInv k M (done ++ [c]) st := by
    intro hrej
    refine ⟨hinv.sorted, ?_, hinv.len, ?_, hinv.boundM, hinv.notFull, hinv.full⟩
    · intro x hx
      obtain ⟨c', hc', h⟩ := hinv.genuine x hx
      exact ⟨c', List.mem_append_left _ hc', h⟩
    · intro c' hc' hq hnot
      rcases List.mem_append.mp hc' with hd | hd
      · exact hinv.excluded c' hd hq hnot
      · simp only [List.mem_singleton] at hd
        subst hd
        rcases hrej with hgt | htop
        · -- qualifying but above the bound: the store is full and everything in it is smaller
          have hfull : st.best.length = k := by
            by_contra hne
            have hlt : st.best.length < k := lt_of_le_of_ne hinv.len hne
            rw [hinv.notFull hlt] at hgt
            exact hgt hq.1
          refine ⟨hfull, ?_⟩
          intro x hx
          exact le_trans ((hinv.full hfull).1 x hx) (le_of_lt (lt_of_not_ge hgt))
        · exact absurd htop hq.2
  unfold knnStep
  simp only []
  split
  · -- skipped by the lower bound: lb > bound, hence dist > bound
    rename_i hskip
    apply reject
    left
    intro hle
    exact hskip.2 (le_trans hlb hle)
  · split
    swap
    · rename_i hno
      apply reject
      by_cases h1 : c.2.1 ≤ st.bound
      · right; by_contra h2; exact hno ⟨h1, h2⟩
      · left; exact h1
    · -- inserted
      rename_i hins
      obtain ⟨hle, hfin⟩ := hins
      have hqual : Qual M c := ⟨le_trans hle hinv.boundM, hfin⟩
      set ins := insertSorted (c.2.1, c.1) st.best with hins_def
      have hsorted : ins.Pairwise fun a b => a.1 ≤ b.1 := insertSorted_sorted _ _ hinv.sorted
      have hlen : ins.length = st.best.length + 1 := insertSorted_length _ _
      have hmem : ∀ y, y ∈ ins ↔ y = (c.2.1, c.1) ∨ y ∈ st.best := insertSorted_mem _ _
      have htake_sorted : (ins.take k).Pairwise fun a b => a.1 ≤ b.1 :=
        List.Pairwise.sublist (List.take_sublist k ins) hsorted
      have htake_len : (ins.take k).length = min k (st.best.length + 1) := by simp [hlen]
      -- every element of the new store is ≤ the old bound
      have hall_le : ∀ x ∈ ins, x.1 ≤ st.bound ∨ st.best.length < k := by
        intro x hx
        rcases (hmem x).mp hx with rfl | hx'
        · left; exact hle
        · by_cases hf : st.best.length = k
          · left; exact (hinv.full hf).1 x hx'
          · right; exact lt_of_le_of_ne hinv.len hf
      refine ⟨htake_sorted, ?_, by rw [htake_len]; exact Nat.min_le_left _ _, ?_, ?_, ?_, ?_⟩
      · -- genuine
        intro x hx
        rcases (hmem x).mp (List.mem_of_mem_take hx) with rfl | hx'
        · exact ⟨c, List.mem_append_right _ (List.mem_singleton.mpr rfl), rfl, rfl, hqual⟩
        · obtain ⟨c', hc', h⟩ := hinv.genuine x hx'
          exact ⟨c', List.mem_append_left _ hc', h⟩
      · -- excluded candidates
        intro c' hc' hq hnot
        -- c' is not in `take k ins`; either it was dropped (then it is in `drop k ins`) or never inserted
        by_cases hin : (c'.2.1, c'.1) ∈ ins
        · -- dropped by `take k`
          have hdrop : (c'.2.1, c'.1) ∈ ins.drop k := by
            have := (List.take_append_drop k ins) ▸ hin
            rcases List.mem_append.mp this with h1 | h2
            · exact absurd h1 hnot
            · exact h2
          have hklt : k < ins.length := by
            by_contra hge
            rw [List.drop_eq_nil_of_le (by omega)] at hdrop
            simp at hdrop
          refine ⟨by rw [htake_len]; omega, ?_⟩
          intro x hx
          exact take_le_drop ins hsorted k x hx _ hdrop
        · -- never in the store: excluded before (it is an old candidate different from c)
          have hnotold : (c'.2.1, c'.1) ∉ st.best := fun h => hin ((hmem _).mpr (Or.inr h))
          have hne : (c'.2.1, c'.1) ≠ (c.2.1, c.1) := fun h => hin ((hmem _).mpr (Or.inl h))
          rcases List.mem_append.mp hc' with hd | hd
          · obtain ⟨hfull, hall⟩ := hinv.excluded c' hd hq hnotold
            refine ⟨by rw [htake_len]; omega, ?_⟩
            intro x hx
            rcases (hmem x).mp (List.mem_of_mem_take hx) with rfl | hx'
            · -- the new element is ≤ bound = max of the old store ≤ c'
              obtain ⟨hb, y, hy, hyb⟩ := hinv.full hfull
              exact le_trans hle (hyb ▸ hall y hy)
            · exact hall x hx'
          · simp only [List.mem_singleton] at hd
            subst hd
            exact absurd rfl hne
      · -- bound ≤ M
        split
        · exact le_trans (min_le_left _ _) hinv.boundM
        · exact hinv.boundM
      · -- not full ⇒ bound unchanged = M
        intro hlt
        rw [htake_len] at hlt
        have hlt' : st.best.length < k := by omega
        rw [if_neg (by rw [htake_len]; omega)]
        exact hinv.notFull hlt'
      · -- full ⇒ bound is the maximum of the store
        intro hfull
        rw [if_pos hfull]
        have hne : ins.take k ≠ [] := by
          intro h0; rw [h0] at hfull; simp at hfull; omega
        have hlast_mem : (ins.take k).getLastD (c.2.1, c.1) ∈ ins.take k := by
          rw [List.getLastD_eq_getLast?, List.getLast?_eq_getLast hne]
          exact List.getLast_mem hne
        -- the last element is the maximum
        have hmax : ∀ x ∈ ins.take k, x.1 ≤ ((ins.take k).getLastD (c.2.1, c.1)).1 := by
          intro x hx
          rw [List.getLastD_eq_getLast?, List.getLast?_eq_getLast hne]
          simp only [Option.getD_some]
          have hsplit := List.dropLast_concat_getLast hne
          rw [← hsplit] at hx htake_sorted
          rcases List.mem_append.mp hx with h1 | h2
          · exact (List.pairwise_append.mp htake_sorted).2.2 x h1 _ (List.mem_singleton.mpr rfl)
          · simp only [List.mem_singleton] at h2; rw [h2]
        -- and it is ≤ the old bound
        have hlast_le : ((ins.take k).getLastD (c.2.1, c.1)).1 ≤ st.bound := by
          rcases hall_le _ (List.mem_of_mem_take hlast_mem) with h1 | h2
          · exact h1
          · -- store was not full: old bound = M and every store element is ≤ M
            rw [hinv.notFull h2]
            rcases (hmem _).mp (List.mem_of_mem_take hlast_mem) with h3 | h3
            · rw [h3]; exact hqual.1
            · obtain ⟨c', _, _, hd, hq'⟩ := hinv.genuine _ h3
              rw [← hd]; exact hq'.1
        rw [min_eq_right hlast_le]
        exact ⟨hmax, _, hlast_mem, rfl⟩

theorem knnScan_inv (k : Nat) (hk : 1 ≤ k) (useLb : Bool) (M : α) :
    ∀ (cands done : List (Nat × α × α)) (st : KState α), (∀ c ∈ cands, c.2.2 ≤ c.2.1) → KInv k M done st →
      KInv k M (done ++ cands) (cands.foldl (knnStep k useLb) st) := by
  intro cands
  induction cands with
  | nil => intro done st _ h; simpa using h
  | cons c cs ih =>
    intro done st hlb hinv
    have := ih (done ++ [c]) (knnStep k useLb st c) (fun c' hc' => hlb c' (List.mem_cons_of_mem _ hc'))
      (knnStep_inv k hk useLb M done st c (hlb c List.mem_cons_self) hinv)
    simpa [List.append_assoc] using this

end Dtai
