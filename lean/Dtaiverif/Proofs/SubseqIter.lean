/-
Proofs/SubseqIter.lean — invariants of the k-best iterator (C13), by induction over reachable states.
-/
import Mathlib.Order.Basic
import Mathlib.Tactic.Common
import Dtaiverif.Model.SubseqIter

namespace Dtai

variable {α : Type} [Preorder α]

theorem mbOf_le (overlap b e : Nat) : mbOf overlap b e ≤ e ∨ e < b := by
  unfold mbOf; split <;> omega

theorem mbOf_le_end (overlap b e : Nat) (hbe : b ≤ e) : mbOf overlap b e ≤ e := by
  unfold mbOf; split <;> omega

theorem mbOf_zero (b e : Nat) (hbe : b ≤ e) : mbOf 0 b e = if e ≤ b then e else b + 1 := by
  unfold mbOf; split <;> simp

/-- two segments share at least two samples -/
def SharesTwo (m1 m2 : Match α) : Prop :=
  ∃ j, m1.b ≤ j ∧ j + 1 ≤ m1.e ∧ m2.b ≤ j ∧ j + 1 ≤ m2.e

structure IterInv (n overlap minlen : Nat) (maxlen : Option Nat) (st : IterState α) : Prop where
  /-- the range of every accepted match is blocked -/
  blocked : ∀ m ∈ st.yielded, ∀ j, mbOf overlap m.b m.e ≤ j → j ≤ m.e → st.slots j = Slot.blocked
  /-- segments are well formed and respect the length limits -/
  wf : ∀ m ∈ st.yielded, m.b ≤ m.e ∧ m.e < n ∧ minlen ≤ m.e - m.b + 1 ∧
        ∀ ml, maxlen = some ml → m.e - m.b + 1 ≤ ml
  /-- every remaining value is at least every yielded value -/
  lower : ∀ m ∈ st.yielded, ∀ j w, j < n → st.slots j = Slot.val w → m.v ≤ w
  /-- matches are yielded in non-decreasing value order (list is most recent first) -/
  sorted : st.yielded.Pairwise fun later earlier => earlier.v ≤ later.v
  /-- end points are pairwise distinct -/
  distinct : st.yielded.Pairwise fun m1 m2 => m1.e ≠ m2.e
  /-- without overlap two matches share at most a single (boundary) sample -/
  disjoint : overlap = 0 → st.yielded.Pairwise fun m1 m2 => ¬ SharesTwo m1 m2

theorem reach_inv (n overlap minlen : Nat) (maxlen : Option Nat) (startOf : Nat → Nat) (init : Nat → Slot α)
    (st : IterState α) (h : Reach n overlap minlen maxlen startOf init st) :
    IterInv n overlap minlen maxlen st := by
  induction h with
  | init =>
    exact ⟨by simp, by simp, by simp, List.Pairwise.nil, List.Pairwise.nil, fun _ => List.Pairwise.nil⟩
  | reject st e v _ hval ih =>
    refine ⟨?_, ih.wf, ?_, ih.sorted, ih.distinct, ih.disjoint⟩
    · intro m hm j h1 h2
      have hb := ih.blocked m hm j h1 h2
      simp only [IterState.reject]
      by_cases hje : j = e
      · subst hje; rw [hb] at hval; cases hval
      · simp [hje, hb]
    · intro m hm j w hj hw
      simp only [IterState.reject] at hw
      by_cases hje : j = e
      · simp [hje] at hw
      · simp only [hje, if_false] at hw
        exact ih.lower m hm j w hj hw
  | accept st e v _ hen hval hmin hse hminl hmaxl hfree ih =>
    have hmb := mbOf_le_end overlap (startOf e) e hse
    refine ⟨?_, ?_, ?_, ?_, ?_, ?_⟩
    · -- blocked ranges
      intro m hm j h1 h2
      simp only [IterState.accept]
      by_cases hin : mbOf overlap (startOf e) e ≤ j ∧ j ≤ e
      · simp [hin]
      · simp only [hin, if_false]
        rcases List.mem_cons.mp hm with rfl | hm'
        · exact absurd ⟨h1, h2⟩ hin
        · exact ih.blocked m hm' j h1 h2
    · intro m hm
      rcases List.mem_cons.mp hm with rfl | hm'
      · exact ⟨hse, hen, hminl, hmaxl⟩
      · exact ih.wf m hm'
    · -- remaining values are ≥ all yielded values
      intro m hm j w hj hw
      simp only [IterState.accept] at hw
      by_cases hin : mbOf overlap (startOf e) e ≤ j ∧ j ≤ e
      · simp [hin] at hw
      · simp only [hin, if_false] at hw
        rcases List.mem_cons.mp hm with rfl | hm'
        · exact hmin j w hj hw
        · exact ih.lower m hm' j w hj hw
    · -- sorted: the new value is ≥ all earlier ones
      refine List.Pairwise.cons ?_ ih.sorted
      intro m hm
      exact ih.lower m hm e v hen hval
    · -- distinct ends: an earlier end point is blocked, the new one holds a value
      refine List.Pairwise.cons ?_ ih.distinct
      intro m hm heq
      have hw := ih.wf m hm
      have hb := ih.blocked m hm m.e (mbOf_le_end overlap m.b m.e hw.1) (Nat.le_refl _)
      simp only at heq
      rw [← heq, hval] at hb
      cases hb
    · intro h0
      refine List.Pairwise.cons ?_ (ih.disjoint h0)
      intro m hm hshare
      obtain ⟨j, a1, a2, a3, a4⟩ := hshare
      simp only at a1 a2
      have hw := ih.wf m hm
      subst h0
      -- sample j+1 lies in the blocked range of the earlier match and in the range checked for the new one
      have hbm : st.slots (j+1) = Slot.blocked := by
        apply ih.blocked m hm (j+1)
        · rw [mbOf_zero m.b m.e hw.1]; split <;> omega
        · omega
      have hfr : st.slots (j+1) ≠ Slot.blocked := by
        apply hfree (j+1)
        · rw [mbOf_zero (startOf e) e hse]; split <;> omega
        · omega
      exact hfr hbm

end Dtai
