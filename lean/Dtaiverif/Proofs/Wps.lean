/-
Proofs/Wps.lean — facts about `warping_paths`: shape of the matrix and agreement of the returned
distance with the distance-only routine.
-/
import Dtaiverif.Proofs.Dist

namespace Dtai

variable {α : Type} [LinearOrderedAddCommMonoidWithTop α]

theorem foldl_min_eq (l : List α) (a : α) : l.foldl min a = min a (l.foldl min ⊤) := by
  induction l generalizing a with
  | nil => simp
  | cons x xs ih =>
    simp only [List.foldl_cons]
    rw [ih (min a x), ih (min ⊤ x)]
    simp [min_assoc]

theorem minList_cons (x : α) (xs : List α) : minList (x :: xs) = min x (minList xs) := by
  unfold minList
  simp only [List.foldl_cons]
  rw [foldl_min_eq]
  simp

theorem minList_nil : minList ([] : List α) = ⊤ := rfl

theorem minList_append (l1 l2 : List α) : minList (l1 ++ l2) = min (minList l1) (minList l2) := by
  induction l1 with
  | nil => simp [minList_nil]
  | cons x xs ih => rw [List.cons_append, minList_cons, minList_cons, ih, min_assoc]

theorem argminFirst_snd (l : List α) : (argminFirst l).2 = minList l := by
  induction l with
  | nil => rfl
  | cons x xs ih =>
    rw [argminFirst, minList_cons, ← ih]
    by_cases hx : xs.isEmpty = true
    · simp only [hx, if_true]
      have : xs = [] := List.isEmpty_iff.mp hx
      subst this
      simp [argminFirst]
    · simp only [hx]
      by_cases hle : x ≤ (argminFirst xs).2
      · simp [hle]
      · simp [hle, min_eq_right (le_of_not_ge hle)]

/-! ### shape -/

theorem matP_length (g : Grid α) (h : g.NonNeg) (m : α) (n : Nat) : (matP g m n).length = n + 1 :=
  (matPAux_spec g h m n).1

theorem matP_row_length (g : Grid α) (h : g.NonNeg) (m : α) (n I : Nat) (hI : I ≤ n) :
    ((matP g m n).getD I []).length = g.c + 1 :=
  ((matPAux_spec g h m n).2.1 I hI).len

end Dtai

namespace Dtai

variable {α : Type} [LinearOrderedAddCommMonoidWithTop α]

theorem minList_range_succ_top (f : Nat → α) (n : Nat) (hf : f n = ⊤) :
    minList ((List.range (n+1)).map f) = minList ((List.range n).map f) := by
  rw [List.range_succ, List.map_append, minList_append]
  simp [minList_cons, minList_nil, hf]

theorem minList_le_head_range (f : Nat → α) (n : Nat) (hn : 1 ≤ n) :
    minList ((List.range n).map f) ≤ f 0 :=
  minList_le_mem _ _ (List.mem_map.mpr ⟨0, List.mem_range.mpr (by omega), rfl⟩)

theorem if_lt_eq_min (a b : α) : (if a ≤ b ∧ ¬ b ≤ a then a else b) = min a b := by
  by_cases h : a ≤ b
  · by_cases h2 : b ≤ a
    · have : a = b := le_antisymm h h2
      simp [this]
    · simp [h, h2, min_eq_left h]
  · simp [h, min_eq_right (le_of_not_ge h)]

/-- The distance returned by `warping_paths` (before the final threshold check) is the value the
distance-only routine derives from the same matrix. -/
theorem wpsModel_d (g : Grid α) (h : g.NonNeg) (hn : g.NonDegenerate) (m : α)
    (hp1 : g.psi1e ≤ g.r) (hp2 : g.psi2e ≤ g.c) :
    (wpsModel g m).d = endMin g (matP g m g.r) := by
  have hr := hn.rpos
  have hc := hn.cpos
  -- the two candidate lists of `endMin`
  have hsplit : endMin g (matP g m g.r) =
      min (minList ((List.range (g.psi2e + 1)).map fun k => cellOf (matP g m g.r) g.r (g.c - k)))
          (minList ((List.range (g.psi1e + 1)).map fun k => cellOf (matP g m g.r) (g.r - k) g.c)) := by
    rw [endMin, endCells, List.map_append, minList_append]
    simp [List.map_map, Function.comp_def]
  -- the slices used by warping_paths
  have hA : minList ((List.range (g.psi2e + 1)).map fun k => cellOf (matP g m g.r) g.r (g.c - k)) =
      minList ((List.range (min g.c (g.psi2e + 1))).map fun k => cellOf (matP g m g.r) g.r (g.c - k)) := by
    rcases Nat.lt_or_ge g.psi2e g.c with hlt | hge
    · rw [Nat.min_eq_right (by omega)]
    · have he : g.psi2e = g.c := by omega
      rw [he, Nat.min_eq_left (by omega)]
      apply minList_range_succ_top
      have hrel := matP_rel g h m g.r g.r 0 le_rfl (by omega)
      have hD : D g g.r 0 = ⊤ := by
        obtain ⟨r', hr'⟩ : ∃ r', g.r = r' + 1 := ⟨g.r - 1, by omega⟩
        rw [hr', D.eq_2]; unfold Grid.borderCol
        rw [if_neg]; rfl
        intro hh; exact hn.b ⟨by omega, by omega⟩
      rw [Nat.sub_self]
      exact top_le_iff.mp (hD ▸ hrel.le)
  have hB : minList ((List.range (g.psi1e + 1)).map fun k => cellOf (matP g m g.r) (g.r - k) g.c) =
      minList ((List.range (min g.r (g.psi1e + 1))).map fun k => cellOf (matP g m g.r) (g.r - k) g.c) := by
    rcases Nat.lt_or_ge g.psi1e g.r with hlt | hge
    · rw [Nat.min_eq_right (by omega)]
    · have he : g.psi1e = g.r := by omega
      rw [he, Nat.min_eq_left (by omega)]
      apply minList_range_succ_top
      have hrel := matP_rel g h m g.r 0 g.c (by omega) le_rfl
      have hD : D g 0 g.c = ⊤ := by
        rw [D.eq_1]; unfold Grid.border0
        rw [if_neg]; rfl
        intro hh; exact hn.a ⟨by omega, by omega⟩
      rw [Nat.sub_self]
      exact top_le_iff.mp (hD ▸ hrel.le)
  rw [hsplit, hA, hB]
  unfold wpsModel
  simp only []
  split
  · rename_i h0
    obtain ⟨h1, h2⟩ := h0
    simp [h1, h2, Nat.min_eq_right hr, Nat.min_eq_right hc, minList_cons, minList_nil]
  · rename_i h0
    simp only [apply_ite WpsOut.d]
    rw [if_lt_eq_min]
    by_cases h1 : g.psi1e = 0 <;> by_cases h2 : g.psi2e = 0
    · exact absurd ⟨h1, h2⟩ h0
    · simp only [h1, h2, ne_eq, not_true_eq_false, not_false_eq_true, if_true, if_false, argminFirst_snd]
      have : minList ((List.range (min g.r (0 + 1))).map fun k => cellOf (matP g m g.r) (g.r - k) g.c)
          = cellOf (matP g m g.r) g.r g.c := by
        rw [Nat.min_eq_right (by omega)]; simp [minList_cons, minList_nil]
      rw [this, top_eq, min_eq_right le_top]
      exact (min_eq_left (by
        have := minList_le_head_range (fun k => cellOf (matP g m g.r) g.r (g.c - k))
          (min g.c (g.psi2e + 1)) (by omega)
        simpa using this)).symm
    · simp only [h1, h2, ne_eq, not_true_eq_false, not_false_eq_true, if_true, if_false, argminFirst_snd]
      have : minList ((List.range (min g.c (0 + 1))).map fun k => cellOf (matP g m g.r) g.r (g.c - k))
          = cellOf (matP g m g.r) g.r g.c := by
        rw [Nat.min_eq_right (by omega)]; simp [minList_cons, minList_nil]
      rw [this, top_eq, min_eq_left le_top]
      exact (min_eq_right (by
        have := minList_le_head_range (fun k => cellOf (matP g m g.r) (g.r - k) g.c)
          (min g.r (g.psi1e + 1)) (by omega)
        simpa using this)).symm
    · simp only [h1, h2, ne_eq, not_false_eq_true, if_true, argminFirst_snd]
      exact min_comm _ _

end Dtai
