/-
Proofs/CostInst.lean — the executable cost domain of the driver (`Cost` = ℕ ∪ {∞}) is a
`LinearOrderedAddCommMonoidWithTop` *with the very operations the driver runs*, so every generic
theorem applies verbatim to what the driver computes.
-/
import Mathlib.Algebra.Order.AddGroupWithTop
import Dtaiverif.Model.Basic

namespace Dtai.Cost

theorem add_def (a b : Cost) : a + b = Cost.add a b := rfl
theorem le_def (a b : Cost) : (a ≤ b) = Cost.le a b := rfl

instance : LinearOrderedAddCommMonoidWithTop Cost where
  add := Cost.add
  zero := .fin 0
  top := .inf
  le := Cost.le
  lt := fun a b => a ≤ b ∧ ¬ b ≤ a
  min := fun a b => if a ≤ b then a else b
  max := fun a b => if a ≤ b then b else a
  toDecidableLE := Cost.decLe
  toDecidableEq := inferInstance
  nsmul := nsmulRec
  add_assoc := by intro a b c; cases a <;> cases b <;> cases c <;> simp [add_def, Cost.add, Nat.add_assoc]
  zero_add := by intro a; cases a <;> simp [add_def, Cost.add] <;> rfl
  add_zero := by intro a; cases a <;> simp [add_def, Cost.add] <;> rfl
  add_comm := by intro a b; cases a <;> cases b <;> simp [add_def, Cost.add, Nat.add_comm]
  le_refl := by intro a; cases a <;> simp [le_def, Cost.le]
  le_trans := by
    intro a b c; cases a <;> cases b <;> cases c <;> simp [le_def, Cost.le]; exact Nat.le_trans
  le_antisymm := by
    intro a b; cases a <;> cases b <;> simp [le_def, Cost.le]; exact Nat.le_antisymm
  le_total := by intro a b; cases a <;> cases b <;> simp [le_def, Cost.le]; exact Nat.le_total _ _
  lt_iff_le_not_ge := by intro a b; rfl
  min_def := by intro a b; rfl
  max_def := by intro a b; rfl
  compare_eq_compareOfLessAndEq := by intro a b; rfl
  add_le_add_left := by
    intro a b hab c
    cases a <;> cases b <;> cases c <;> simp_all [le_def, add_def, Cost.le, Cost.add]
  le_top := by intro a; cases a <;> simp [le_def, Cost.le] <;> trivial
  top_add' := by intro a; cases a <;> rfl
  isAddLeftRegular_of_ne_top := by
    intro a ha b c hbc
    cases a with
    | inf => exact absurd rfl ha
    | fin n =>
      cases b <;> cases c <;> simp_all [add_def, Cost.add]

end Dtai.Cost
