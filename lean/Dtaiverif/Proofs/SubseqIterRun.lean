/-
Proofs/SubseqIterRun.lean — the executable k-best iterator `kbestRun` (what the driver runs and what is
compared with `SubsequenceAlignment.kbest_matches`) only performs `Reach` steps: every invariant proved
for reachable iterator states holds for what the driver computes.
-/
import Dtaiverif.Proofs.SubseqIter
import Dtaiverif.Proofs.CostInst

namespace Dtai

/-- the working copy as a function (slots beyond the end never hold a value) -/
def absSlots (slots : List (Slot Cost)) : Nat → Slot Cost := fun j => slots.getD j Slot.rejected

/-- what the scan must return -/
def FMSpec (full : List (Slot Cost)) (r : Option (Nat × Cost)) : Prop :=
  match r with
  | none => ∀ (j : Nat) (w : Cost), full[j]? ≠ some (Slot.val w)
  | some (e, v) => e < full.length ∧ full[e]? = some (Slot.val v) ∧
      ∀ (j : Nat) (w : Cost), full[j]? = some (Slot.val w) → v ≤ w

/-- invariant of the scan after the first `i` positions -/
def FMInv (full : List (Slot Cost)) (i : Nat) (best : Option (Nat × Cost)) : Prop :=
  match best with
  | none => ∀ (j : Nat) (w : Cost), j < i → full[j]? ≠ some (Slot.val w)
  | some (bi, bv) => bi < i ∧ full[bi]? = some (Slot.val bv) ∧
      ∀ (j : Nat) (w : Cost), j < i → full[j]? = some (Slot.val w) → bv ≤ w

theorem FMInv_skip (full : List (Slot Cost)) (i : Nat) (best : Option (Nat × Cost)) (x : Slot Cost)
    (hxi : full[i]? = some x) (hx : ∀ w, x ≠ Slot.val w) (h : FMInv full i best) : FMInv full (i + 1) best := by
  cases best with
  | none =>
    intro j w hj hw
    by_cases hji : j < i
    · exact h j w hji hw
    · have : j = i := by omega
      subst this; rw [hxi] at hw; cases hw; exact hx w rfl
  | some p =>
    obtain ⟨bi, bv⟩ := p
    obtain ⟨h1, h2, h3⟩ := h
    refine ⟨by omega, h2, ?_⟩
    intro j w hj hw
    by_cases hji : j < i
    · exact h3 j w hji hw
    · have : j = i := by omega
      subst this; rw [hxi] at hw; cases hw; exact absurd rfl (hx w)

theorem firstMin_go_spec (full : List (Slot Cost)) :
    ∀ (l : List (Slot Cost)) (i : Nat) (best : Option (Nat × Cost)), full.drop i = l →
      FMInv full i best → FMSpec full (firstMin.go l i best) := by
  intro l
  induction l with
  | nil =>
    intro i best hdrop hinv
    have hi : full.length ≤ i := by
      by_contra h
      have : (full.drop i).length = full.length - i := List.length_drop
      rw [hdrop] at this; simp at this; omega
    simp only [firstMin.go]
    cases best with
    | none =>
      intro j w hj
      by_cases hji : j < i
      · exact hinv j w hji hj
      · rw [List.getElem?_eq_none (by omega)] at hj; cases hj
    | some p =>
      obtain ⟨bi, bv⟩ := p
      obtain ⟨h1, h2, h3⟩ := hinv
      refine ⟨?_, h2, ?_⟩
      · by_contra hge
        rw [List.getElem?_eq_none (by omega)] at h2; cases h2
      · intro j w hj
        by_cases hji : j < i
        · exact h3 j w hji hj
        · rw [List.getElem?_eq_none (by omega)] at hj; cases hj
  | cons x rest ih =>
    intro i best hdrop hinv
    have hxi : full[i]? = some x := by
      have := congrArg (fun l => l[0]?) hdrop
      simpa using this
    have hrest : full.drop (i + 1) = rest := by
      have := congrArg List.tail hdrop
      simpa [List.tail_drop] using this
    cases x with
    | val v =>
      cases best with
      | none =>
        simp only [firstMin.go]
        apply ih (i + 1) (some (i, v)) hrest
        refine ⟨by omega, hxi, ?_⟩
        intro j w hj hw
        by_cases hji : j < i
        · exact absurd hw (hinv j w hji)
        · have : j = i := by omega
          subst this; rw [hxi] at hw; cases hw; exact le_rfl
      | some p =>
        obtain ⟨bi, bv⟩ := p
        obtain ⟨h1, h2, h3⟩ := hinv
        simp only [firstMin.go]
        by_cases hle : bv ≤ v
        · rw [if_pos hle]
          apply ih (i + 1) (some (bi, bv)) hrest
          refine ⟨by omega, h2, ?_⟩
          intro j w hj hw
          by_cases hji : j < i
          · exact h3 j w hji hw
          · have : j = i := by omega
            subst this; rw [hxi] at hw; cases hw; exact hle
        · rw [if_neg hle]
          have hlt : v ≤ bv := le_of_lt (lt_of_not_ge hle)
          apply ih (i + 1) (some (i, v)) hrest
          refine ⟨by omega, hxi, ?_⟩
          intro j w hj hw
          by_cases hji : j < i
          · exact le_trans hlt (h3 j w hji hw)
          · have : j = i := by omega
            subst this; rw [hxi] at hw; cases hw; exact le_rfl
    | rejected =>
      simp only [firstMin.go]
      exact ih (i + 1) best hrest (FMInv_skip full i best _ hxi (by intro w h; cases h) hinv)
    | blocked =>
      simp only [firstMin.go]
      exact ih (i + 1) best hrest (FMInv_skip full i best _ hxi (by intro w h; cases h) hinv)

/-- `firstMin` returns the first position holding a minimal value (the `argmin` of the Python code) -/
theorem firstMin_spec (slots : List (Slot Cost)) (e : Nat) (v : Cost) (h : firstMin slots = some (e, v)) :
    e < slots.length ∧ absSlots slots e = Slot.val v ∧
      ∀ j w, j < slots.length → absSlots slots j = Slot.val w → v ≤ w := by
  have := firstMin_go_spec slots slots 0 none (by simp) (by intro j w hj; omega)
  unfold firstMin at h
  rw [h] at this
  obtain ⟨h1, h2, h3⟩ := this
  refine ⟨h1, by simp [absSlots, List.getD, h2], ?_⟩
  intro j w hj hw
  apply h3 j w
  simp only [absSlots, List.getD] at hw
  rw [List.getElem?_eq_getElem hj] at hw ⊢
  simpa using hw

theorem absSlots_set (slots : List (Slot Cost)) (e : Nat) (x : Slot Cost) (he : e < slots.length) :
    absSlots (slots.set e x) = fun j => if j = e then x else absSlots slots j := by
  funext j
  simp only [absSlots, List.getD, List.getElem?_set]
  by_cases hje : e = j
  · subst hje; simp [he]
  · simp [hje, Ne.symm hje]

theorem blockSlots_spec (slots : List (Slot Cost)) (overlap b e : Nat) (he : e < slots.length) :
    absSlots (blockSlots slots overlap b e) =
      (fun j => if mbOf overlap b e ≤ j ∧ j ≤ e then Slot.blocked else absSlots slots j) ∧
    (blockSlots slots overlap b e).length = slots.length := by
  unfold blockSlots blockRange
  generalize mbOf overlap b e = mb
  suffices h : ∀ (k : Nat), k ≤ e + 1 - mb →
      absSlots (((List.range k).map (· + mb)).foldl (fun s j => s.set j Slot.blocked) slots) =
        (fun j => if mb ≤ j ∧ j < mb + k then Slot.blocked else absSlots slots j) ∧
      (((List.range k).map (· + mb)).foldl (fun s j => s.set j Slot.blocked) slots).length = slots.length by
    obtain ⟨h1, h2⟩ := h (e + 1 - mb) le_rfl
    refine ⟨?_, h2⟩
    rw [h1]
    funext j
    by_cases hmb : mb ≤ e
    · have : mb + (e + 1 - mb) = e + 1 := by omega
      simp only [this, Nat.lt_succ_iff]
    · have h1 : ¬ (mb ≤ j ∧ j ≤ e) := by omega
      have h2 : ¬ (mb ≤ j ∧ j < mb + (e + 1 - mb)) := by omega
      simp [h1, h2]
  intro k
  induction k with
  | zero => intro _; exact ⟨by funext j; simp, by simp⟩
  | succ k ih =>
    intro hk
    obtain ⟨ih1, ih2⟩ := ih (by omega)
    rw [List.range_succ, List.map_append, List.foldl_append]
    simp only [List.map_cons, List.map_nil, List.foldl_cons, List.foldl_nil]
    refine ⟨?_, by simp [ih2]⟩
    rw [absSlots_set _ _ _ (by rw [ih2]; omega), ih1]
    funext j
    by_cases hj : j = k + mb
    · subst hj; simp; omega
    · simp only [hj, if_false]
      have : (mb ≤ j ∧ j < mb + k) ↔ (mb ≤ j ∧ j < mb + (k + 1)) := by omega
      simp only [this]

theorem candRejected_false (slots : List (Slot Cost)) (overlap : Nat) (minlen maxlen : Option Nat) (b e : Nat)
    (h : candRejected slots overlap minlen maxlen b e = false) :
    minlen.getD 0 ≤ e - b + 1 ∧ (∀ ml, maxlen = some ml → e - b + 1 ≤ ml) ∧
    ∀ j, mbOf overlap b e ≤ j → j ≤ e → absSlots slots j ≠ Slot.blocked := by
  unfold candRejected at h
  simp only [Bool.or_eq_false_iff] at h
  obtain ⟨⟨h1, h2⟩, h3⟩ := h
  refine ⟨?_, ?_, ?_⟩
  · cases minlen with
    | none => simp
    | some m =>
      simp only [decide_eq_false_iff_not, not_lt] at h1
      simpa using h1
  · intro ml hml
    subst hml
    simp only [decide_eq_false_iff_not, not_lt] at h2
    exact h2
  · intro j hj1 hj2 hb
    have hmem : j ∈ blockRange overlap b e := by
      simp only [blockRange, List.mem_map, List.mem_range]
      exact ⟨j - mbOf overlap b e, by omega, by omega⟩
    have := List.any_eq_false.mp h3 j hmem
    simp only [absSlots] at hb
    rw [hb] at this
    exact this rfl

/-- **Link**: started from a reachable state, the executable iterator produces its matches through
`Reach` steps — there is a reachable final state whose yielded segments are exactly (in order) the
segments already yielded followed by the output of `kbestRun`. -/
theorem kbestRun_reach (starts : List Nat) (lq overlap : Nat) (minlen maxlen k : Option Nat)
    (init : Nat → Slot Cost) (n : Nat) (hstarts : ∀ e, starts.getD e 0 ≤ e) :
    ∀ (fuel : Nat) (slots : List (Slot Cost)) (ki : Nat) (st : IterState Cost),
      Reach n overlap (minlen.getD 0) maxlen (fun e => starts.getD e 0) init st →
      slots.length = n → st.slots = absSlots slots →
      ∃ st', Reach n overlap (minlen.getD 0) maxlen (fun e => starts.getD e 0) init st' ∧
        (st'.yielded.map fun m => (m.b, m.e)) =
          (kbestRun starts lq overlap minlen maxlen k fuel slots ki).reverse ++ (st.yielded.map fun m => (m.b, m.e)) := by
  intro fuel
  induction fuel with
  | zero => intro slots ki st hr _ _; exact ⟨st, hr, by simp [kbestRun]⟩
  | succ fuel ih =>
    intro slots ki st hr hlen habs
    unfold kbestRun
    by_cases hk : kReached k ki = true
    · rw [if_pos hk]; exact ⟨st, hr, by simp⟩
    · rw [if_neg hk]
      cases hfm : firstMin slots with
      | none => exact ⟨st, hr, by simp⟩
      | some p =>
        obtain ⟨e, v⟩ := p
        obtain ⟨he, hval, hmin⟩ := firstMin_spec slots e v hfm
        simp only []
        by_cases hrej : candRejected slots overlap minlen maxlen (starts.getD e 0) e = true
        · rw [if_pos hrej]
          have hr' := Reach.reject st e v hr (by rw [habs]; exact hval)
          exact ih (slots.set e Slot.rejected) ki (st.reject e) hr' (by simp [hlen])
            (by simp only [IterState.reject, habs]; exact (absSlots_set slots e Slot.rejected he).symm)
        · rw [if_neg hrej]
          have hrej' : candRejected slots overlap minlen maxlen (starts.getD e 0) e = false := by
            cases h : candRejected slots overlap minlen maxlen (starts.getD e 0) e <;> simp_all
          obtain ⟨c1, c2, c3⟩ := candRejected_false slots overlap minlen maxlen _ e hrej'
          obtain ⟨b1, b2⟩ := blockSlots_spec slots overlap (starts.getD e 0) e he
          have hr' := Reach.accept st e v hr (by omega) (by rw [habs]; exact hval)
            (by intro j w hj hw; rw [habs] at hw; exact hmin j w (by omega) hw) (hstarts e) c1 c2
            (by intro j h1 h2; rw [habs]; exact c3 j h1 h2)
          obtain ⟨st', hr'', heq⟩ := ih (blockSlots slots overlap (starts.getD e 0) e) (ki + 1) _ hr'
            (by rw [b2]; exact hlen)
            (by simp only [IterState.accept, habs]; exact b1.symm)
          refine ⟨st', hr'', ?_⟩
          rw [heq]
          simp [IterState.accept]

/-- an extra stopping rule only shortens the iteration: whatever the rule, the matches are a prefix of the
matches of the unlimited iterator with the same overlap and length limits -/
theorem kbestRunStop_prefix (stop : List (Nat × Cost) → Nat → Cost → Bool) (starts : List Nat) (lq overlap : Nat)
    (minlen maxlen k : Option Nat) (fuel : Nat) :
    ∀ (slots : List (Slot Cost)) (ki : Nat) (hist : List (Nat × Cost)),
      kbestRunStop stop starts lq overlap minlen maxlen k fuel slots ki hist <+:
        kbestRun starts lq overlap minlen maxlen k fuel slots ki := by
  induction fuel with
  | zero => intro slots ki hist; simp [kbestRunStop, kbestRun]
  | succ fuel ih =>
    intro slots ki hist
    unfold kbestRunStop kbestRun
    by_cases hk : kReached k ki = true
    · simp [hk]
    · simp only [hk, Bool.false_eq_true, if_false]
      cases hfm : firstMin slots with
      | none => simp
      | some ev =>
        obtain ⟨e, v⟩ := ev
        simp only
        by_cases hs : stop hist ki v = true
        · simp [hs]
        · simp only [hs, Bool.false_eq_true, if_false]
          by_cases hc : candRejected slots overlap minlen maxlen (starts.getD e 0) e = true
          · simp only [hc, if_true]; exact ih _ _ _
          · simp only [hc, Bool.false_eq_true, if_false]
            exact List.prefix_cons_inj _ |>.mpr (ih _ _ _)

/-- a rule that never fires gives the unlimited iterator -/
theorem kbestRunStop_never (starts : List Nat) (lq overlap : Nat) (minlen maxlen k : Option Nat) (fuel : Nat) :
    ∀ (slots : List (Slot Cost)) (ki : Nat) (hist : List (Nat × Cost)),
      kbestRunStop (fun _ _ _ => false) starts lq overlap minlen maxlen k fuel slots ki hist =
        kbestRun starts lq overlap minlen maxlen k fuel slots ki := by
  induction fuel with
  | zero => intro slots ki hist; simp [kbestRunStop, kbestRun]
  | succ fuel ih =>
    intro slots ki hist
    unfold kbestRunStop kbestRun
    by_cases hk : kReached k ki = true
    · simp [hk]
    · simp only [hk, Bool.false_eq_true, if_false]
      cases hfm : firstMin slots with
      | none => simp
      | some ev =>
        obtain ⟨e, v⟩ := ev
        simp only [Bool.false_eq_true, if_false]
        by_cases hc : candRejected slots overlap minlen maxlen (starts.getD e 0) e = true
        · simp only [hc, if_true]; exact ih _ _ _
        · simp only [hc, Bool.false_eq_true, if_false]; rw [ih]

end Dtai
