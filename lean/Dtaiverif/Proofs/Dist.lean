/-
Proofs/Dist.lean — from cell-level facts to the value `dtw.distance` returns:
  * `matU_cell`             : the executable unpruned matrix is the recurrence `D`
  * `dtwSpec_le_path`, `dtwSpec_attained` : `dtwSpec` is the optimum over admissible complete paths
  * `distModel_eq_of_le`, `distModel_top_of_gt`, `distModel_eq_spec`
-/
import Dtaiverif.Proofs.Prune

namespace Dtai

variable {α : Type} [LinearOrderedAddCommMonoidWithTop α]

/-! ### `minList` -/

theorem foldl_min_le_init (l : List α) (a : α) : l.foldl min a ≤ a := by
  induction l generalizing a with
  | nil => simp
  | cons x xs ih => exact le_trans (ih (min a x)) (min_le_left _ _)

theorem foldl_min_le_mem (l : List α) (a x : α) (hx : x ∈ l) : l.foldl min a ≤ x := by
  induction l generalizing a with
  | nil => simp at hx
  | cons y ys ih =>
    rcases List.mem_cons.mp hx with rfl | h
    · exact le_trans (foldl_min_le_init ys (min a x)) (min_le_right _ _)
    · exact ih (min a y) h

theorem foldl_min_choice (l : List α) (a : α) : l.foldl min a = a ∨ l.foldl min a ∈ l := by
  induction l generalizing a with
  | nil => simp
  | cons y ys ih =>
    rcases ih (min a y) with h | h
    · rcases min_choice a y with h2 | h2
      · left; show List.foldl min (min a y) ys = a; rw [h, h2]
      · right; show List.foldl min (min a y) ys ∈ y :: ys; rw [h, h2]; exact List.mem_cons_self
    · right; exact List.mem_cons_of_mem _ h

theorem minList_le_mem (l : List α) (x : α) (hx : x ∈ l) : minList l ≤ x :=
  foldl_min_le_mem l ⊤ x hx

theorem minList_choice (l : List α) : minList l = ⊤ ∨ minList l ∈ l :=
  foldl_min_choice l ⊤

theorem minList_mono {ι : Type} (l : List ι) (f f' : ι → α) (h : ∀ x ∈ l, f x ≤ f' x) :
    minList (l.map f) ≤ minList (l.map f') := by
  rcases minList_choice (l.map f') with h1 | h1
  · rw [h1]; exact le_top
  · obtain ⟨x, hx, hfx⟩ := List.mem_map.mp h1
    rw [← hfx]
    exact le_trans (minList_le_mem _ _ (List.mem_map.mpr ⟨x, hx, rfl⟩)) (h x hx)

/-! ### the executable unpruned matrix -/

theorem rowsUpTo_eq (g : Grid α) : ∀ n, rowsUpTo g n = ((List.range (n+1)).map (rowsU g)).reverse := by
  intro n
  induction n with
  | zero => simp [rowsUpTo, rowsU]
  | succ n ih =>
    rw [rowsUpTo, ih]
    have : (List.range (n+1)).map (rowsU g) = (List.range n).map (rowsU g) ++ [rowsU g n] := by
      rw [List.range_succ, List.map_append]; rfl
    rw [this, List.reverse_append]
    simp only [List.reverse_cons, List.reverse_nil, List.nil_append, List.singleton_append]
    rw [List.range_succ (n := n+1), List.map_append, List.reverse_append, List.range_succ, List.map_append,
      List.reverse_append]
    simp [rowsU]

theorem matU_eq (g : Grid α) (n : Nat) : matU g n = (List.range (n+1)).map (rowsU g) := by
  rw [matU, rowsUpTo_eq, List.reverse_reverse]

theorem matU_cell (g : Grid α) (n I J : Nat) (hI : I ≤ n) (hJ : J ≤ g.c) :
    cellOf (matU g n) I J = D g I J := by
  rw [cellOf, matU_eq]
  have : ((List.range (n+1)).map (rowsU g)).getD I [] = rowsU g I := by
    simp [List.getD, List.getElem?_map, List.getElem?_range (by omega : I < n + 1)]
  rw [this, rowsU_get g I J hJ]

/-! ### end cells -/

theorem endCells_bound (g : Grid α) (p : Nat × Nat) (hp : p ∈ endCells g) : p.1 ≤ g.r ∧ p.2 ≤ g.c := by
  simp only [endCells, List.mem_append, List.mem_map, List.mem_range] at hp
  rcases hp with ⟨k, _, rfl⟩ | ⟨k, _, rfl⟩ <;> simp

theorem dtwSpec_eq (g : Grid α) : dtwSpec g = minList ((endCells g).map fun p => D g p.1 p.2) := by
  rw [dtwSpec, endMin]
  congr 1
  apply List.map_congr_left
  intro p hp
  obtain ⟨h1, h2⟩ := endCells_bound g p hp
  exact matU_cell g g.r p.1 p.2 h1 h2

/-- an admissible *complete* path costs at least `dtwSpec` -/
theorem dtwSpec_le_path (g : Grid α) (h : g.NonNeg) (path : List Cell) (q : Cell)
    (hv : g.ValidRev (q :: path)) (he : g.EndOk q) : dtwSpec g ≤ g.costRev (q :: path) := by
  rw [dtwSpec_eq]
  refine le_trans (minList_le_mem _ (D g (q.1+1) (q.2+1)) ?_) (D_le_costRev g h path q hv)
  apply List.mem_map.mpr
  refine ⟨(q.1+1, q.2+1), ?_, rfl⟩
  simp only [endCells, List.mem_append, List.mem_map, List.mem_range]
  rcases he with ⟨h1, h2, h3⟩ | ⟨h1, h2, h3⟩
  · left; exact ⟨g.c - (q.2+1), by omega, by ext <;> simp <;> omega⟩
  · right; exact ⟨g.r - (q.1+1), by omega, by ext <;> simp <;> omega⟩

/-- non-degenerate psi: no empty alignment is possible -/
structure Grid.NonDegenerate (g : Grid α) : Prop where
  rpos : 1 ≤ g.r
  cpos : 1 ≤ g.c
  a : ¬ (g.r ≤ g.psi1e ∧ g.c ≤ g.psi2b)
  b : ¬ (g.c ≤ g.psi2e ∧ g.r ≤ g.psi1b)

/-- `dtwSpec` is `⊤` or the cost of an admissible complete path -/
theorem dtwSpec_attained (g : Grid α) (h : g.NonNeg) (hn : g.NonDegenerate) :
    dtwSpec g = ⊤ ∨ ∃ (q : Cell) (path : List Cell), g.ValidRev (q :: path) ∧ g.EndOk q ∧
      g.costRev (q :: path) = dtwSpec g := by
  rw [dtwSpec_eq]
  rcases minList_choice ((endCells g).map fun p => D g p.1 p.2) with h1 | h1
  · left; exact h1
  · obtain ⟨p, hp, hval⟩ := List.mem_map.mp h1
    rw [← hval]
    obtain ⟨I, J⟩ := p
    simp only [endCells, List.mem_append, List.mem_map, List.mem_range, Prod.mk.injEq] at hp
    -- border end cells are ⊤ under non-degeneracy
    cases I with
    | zero =>
      left
      rcases hp with ⟨k, hk, hr, hc⟩ | ⟨k, hk, hr, hc⟩
      · have := hn.rpos; omega
      · have hno : ¬ J ≤ g.psi2b := fun hJ => hn.a ⟨by omega, by omega⟩
        simp [D, Grid.border0, hno]
    | succ I =>
      cases J with
      | zero =>
        left
        rcases hp with ⟨k, hk, hr, hc⟩ | ⟨k, hk, hr, hc⟩
        · have hno : ¬ I + 1 ≤ g.psi1b := fun hI => hn.b ⟨by omega, by omega⟩
          simp [D, Grid.borderCol, hno]
        · have := hn.cpos; omega
      | succ J =>
        rcases D_attained g h (I+J) I J rfl with ht | ⟨path, hv, hc⟩
        · left; exact ht
        · right
          refine ⟨(I,J), path, hv, ?_, hc⟩
          rcases hp with ⟨k, hk, hr, hcc⟩ | ⟨k, hk, hr, hcc⟩
          · left; simp only; omega
          · right; simp only; omega

/-! ### the value returned by the kernel with early abandoning -/

theorem endMin_matP_ge (g : Grid α) (h : g.NonNeg) (m : α) : dtwSpec g ≤ endMin g (matP g m g.r) := by
  rw [dtwSpec_eq, endMin]
  apply minList_mono
  intro p hp
  obtain ⟨h1, h2⟩ := endCells_bound g p hp
  exact (matP_rel g h m g.r p.1 p.2 h1 h2).le

theorem endMin_matP_eq (g : Grid α) (h : g.NonNeg) (m : α) (hle : dtwSpec g ≤ m) :
    endMin g (matP g m g.r) = dtwSpec g := by
  apply le_antisymm _ (endMin_matP_ge g h m)
  rw [dtwSpec_eq] at hle ⊢
  rcases minList_choice ((endCells g).map fun p => D g p.1 p.2) with h1 | h1
  · rw [h1]; exact le_top
  · obtain ⟨p, hp, hval⟩ := List.mem_map.mp h1
    obtain ⟨hb1, hb2⟩ := endCells_bound g p hp
    have hrel := matP_rel g h m g.r p.1 p.2 hb1 hb2
    have : cellOf (matP g m g.r) p.1 p.2 = D g p.1 p.2 := hrel.eq (by rw [hval]; exact hle)
    rw [← hval, ← this, endMin]
    exact minList_le_mem _ _ (List.mem_map.mpr ⟨p, hp, rfl⟩)

theorem finalCheck_of_le (m d : α) (h : d ≤ m) : finalCheck m d = d := by
  unfold finalCheck; rw [if_neg]; intro hh; exact hh.2 h

/-- below the threshold the result is exactly the unbounded optimum (no `max_length_diff`) -/
theorem distModel_eq_of_le (g : Grid α) (h : g.NonNeg) (m : α) (chk : Bool) (hle : dtwSpec g ≤ m) :
    distModel g m none chk = dtwSpec g := by
  unfold distModel
  simp only [endMin_matP_eq g h m hle]
  cases chk <;> simp [finalCheck_of_le m _ hle]

/-- above the (non-zero) threshold the result is infinite when the final check is applied -/
theorem distModel_top_of_gt (g : Grid α) (h : g.NonNeg) (m : α) (hm : ¬ m ≤ 0) (hgt : ¬ dtwSpec g ≤ m) :
    distModel g m none true = ⊤ := by
  unfold distModel
  have : ¬ endMin g (matP g m g.r) ≤ m := fun hh => hgt (le_trans (endMin_matP_ge g h m) hh)
  simp [finalCheck, hm, this]

/-- with the threshold switched off the kernel returns the optimum over admissible paths -/
theorem distModel_eq_spec (g : Grid α) (h : g.NonNeg) (mld : Option Nat) (chk : Bool) :
    distModel g ⊤ mld chk = distSpec g mld := by
  have hk : (if chk = true then finalCheck ⊤ (endMin g (matP g ⊤ g.r)) else endMin g (matP g ⊤ g.r))
      = dtwSpec g := by
    rw [endMin_matP_eq g h ⊤ le_top]
    cases chk <;> simp [finalCheck_of_le (⊤ : α) _ le_top]
  unfold distModel distSpec
  cases mld with
  | none => simpa using hk
  | some k => simp only; split <;> simp_all

end Dtai
