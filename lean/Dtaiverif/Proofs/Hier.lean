/-
Proofs/Hier.lean — invariants of hierarchical clustering over all reachable states (any tie-breaking by
`order_hook`, any swap decided by `merge_hook`).
-/
import Dtaiverif.Proofs.GridDP
import Dtaiverif.Model.Hier
import Batteries.Data.List.Perm

namespace Dtai

variable {α : Type} [LinearOrderedAddCommMonoidWithTop α]

/-- reachable states of `Hierarchical.fit` -/
inductive HReach (n : Nat) (maxDist : α) (d0 : Nat → Nat → α) : HState α → Prop
  | init : HReach n maxDist d0 (hierInit n d0)
  | step (st : HState α) (r c : Nat) (swap : Bool) :
      HReach n maxDist d0 st → r < c → c < n →
      st.dist r c ≤ maxDist → st.dist r c ≠ ⊤ →
      (∀ r' c', st.dist r c ≤ st.dist r' c') →
      HReach n maxDist d0 (if swap then st.merge c r (st.dist r c) else st.merge r c (st.dist r c))

structure HInv (n : Nat) (maxDist : α) (d0 : Nat → Nat → α) (st : HState α) : Prop where
  size : st.n = n
  repIdem : ∀ x, st.rep (st.rep x) = st.rep x
  repLt : ∀ x, x < n → st.rep x < n
  delIff : ∀ x, x ∈ st.deleted ↔ st.rep x ≠ x
  blanked : ∀ r c, (r ∈ st.deleted ∨ c ∈ st.deleted) → st.dist r c = ⊤
  kept : ∀ r c, r ∉ st.deleted → c ∉ st.deleted → st.dist r c = (hierInit n d0).dist r c
  bounded : ∀ m ∈ st.merges, m.2.2 ≤ maxDist
  sorted : st.merges.Pairwise fun later earlier => earlier.2.2 ≤ later.2.2
  above : ∀ m ∈ st.merges, ∀ r c, m.2.2 ≤ st.dist r c
  count : st.deleted.length = st.merges.length
  nodup : st.deleted.Nodup
  mergedDeleted : ∀ m ∈ st.merges, m.2.1 ∈ st.deleted
  delLt : ∀ x ∈ st.deleted, x < n

theorem merge_inv (n : Nat) (maxDist : α) (d0 : Nat → Nat → α) (st : HState α) (i1 i2 : Nat)
    (hinv : HInv n maxDist d0 st) (h1 : i1 < n) (h2 : i2 < n) (hne : i1 ≠ i2)
    (hd1 : i1 ∉ st.deleted) (hd2 : i2 ∉ st.deleted) (d : α) (hd : d ≤ maxDist)
    (hmin : ∀ r c, d ≤ st.dist r c) (hatt : ∃ r c, d = st.dist r c) : HInv n maxDist d0 (st.merge i1 i2 d) := by
  have hr1 : st.rep i1 = i1 := by
    by_contra h; exact hd1 ((hinv.delIff i1).mpr h)
  have hr2 : st.rep i2 = i2 := by
    by_contra h; exact hd2 ((hinv.delIff i2).mpr h)
  refine ⟨hinv.size, ?_, ?_, ?_, ?_, ?_, ?_, ?_, ?_, ?_, ?_, ?_, ?_⟩
  · -- idempotent
    intro x
    simp only [HState.merge]
    by_cases hx : st.rep x = i2
    · simp [hx, hr1, hne]
    · simp only [hx, if_false, hinv.repIdem x]
  · intro x hx
    simp only [HState.merge]
    split
    · exact h1
    · exact hinv.repLt x hx
  · -- deleted ↔ not a fixed point
    intro x
    simp only [HState.merge, List.mem_cons]
    constructor
    · rintro (rfl | hx)
      · simp [hr2]; exact hne
      · have hxr := (hinv.delIff x).mp hx
        by_cases h : st.rep x = i2
        · simp only [h, if_true]
          intro heq
          exact hd1 (heq ▸ hx)
        · simp only [h, if_false]; exact hxr
    · intro hx
      by_cases hxi : x = i2
      · left; exact hxi
      · right
        apply (hinv.delIff x).mpr
        by_cases h : st.rep x = i2
        · intro heq; rw [heq] at h; exact hxi h
        · simpa [h] using hx
  · intro r c hrc
    simp only [HState.merge, List.mem_cons] at hrc ⊢
    by_cases h : r = i2 ∨ c = i2
    · simp [h]
    · simp only [h, if_false]
      apply hinv.blanked
      rcases hrc with (h' | h') | (h' | h')
      · exact absurd (Or.inl h') h
      · exact Or.inl h'
      · exact absurd (Or.inr h') h
      · exact Or.inr h'
  · intro r c hr hc
    simp only [HState.merge, List.mem_cons, not_or] at hr hc ⊢
    have : ¬ (r = i2 ∨ c = i2) := by rintro (h | h); exact hr.1 h; exact hc.1 h
    simp only [this, if_false]
    exact hinv.kept r c hr.2 hc.2
  · intro m hm
    simp only [HState.merge, List.mem_cons] at hm
    rcases hm with rfl | hm
    · exact hd
    · exact hinv.bounded m hm
  · simp only [HState.merge]
    refine List.Pairwise.cons ?_ hinv.sorted
    intro m hm
    obtain ⟨r, c, rfl⟩ := hatt
    exact hinv.above m hm r c
  · intro m hm r c
    simp only [HState.merge, List.mem_cons] at hm ⊢
    split
    · exact le_top
    · rcases hm with rfl | hm
      · exact hmin r c
      · exact hinv.above m hm r c
  · simp [HState.merge, hinv.count]
  · simp only [HState.merge]
    exact List.nodup_cons.mpr ⟨hd2, hinv.nodup⟩
  · intro m hm
    simp only [HState.merge, List.mem_cons] at hm ⊢
    rcases hm with rfl | hm
    · left; rfl
    · right; exact hinv.mergedDeleted m hm
  · intro x hx
    simp only [HState.merge, List.mem_cons] at hx
    rcases hx with rfl | hx
    · exact h2
    · exact hinv.delLt x hx

theorem init_inv (n : Nat) (maxDist : α) (d0 : Nat → Nat → α) : HInv n maxDist d0 (hierInit n d0) := by
  refine ⟨rfl, ?_, ?_, ?_, ?_, ?_, ?_, ?_, ?_, rfl, ?_, ?_, ?_⟩ <;> simp [hierInit]

/-- every reachable state satisfies the invariant -/
theorem reach_hinv (n : Nat) (maxDist : α) (d0 : Nat → Nat → α) (st : HState α)
    (h : HReach n maxDist d0 st) : HInv n maxDist d0 st := by
  induction h with
  | init => exact init_inv n maxDist d0
  | step st r c swap _ hrc hcn hle hfin hmin ih =>
    have hr : r ∉ st.deleted := fun hdel => hfin (ih.blanked r c (Or.inl hdel))
    have hc : c ∉ st.deleted := fun hdel => hfin (ih.blanked r c (Or.inr hdel))
    cases swap
    · simpa using merge_inv n maxDist d0 st r c ih (by omega) hcn (by omega) hr hc _ hle hmin ⟨r, c, rfl⟩
    · simpa using merge_inv n maxDist d0 st c r ih hcn (by omega) (by omega) hc hr _ hle hmin ⟨r, c, rfl⟩

/-! ### the recorded tree -/

def children (l : List (Nat × Nat)) : List Nat := l.flatMap fun p => [p.1, p.2]

theorem children_cons (p : Nat × Nat) (l : List (Nat × Nat)) : children (p :: l) = p.1 :: p.2 :: children l := by
  simp [children]

theorem children_length (l : List (Nat × Nat)) : (children l).length = 2 * l.length := by
  induction l with
  | nil => rfl
  | cons p l ih => rw [children_cons]; simp [ih]; omega

/-- every linkage row refers only to leaves and to nodes created by earlier rows -/
def WellOrdered (n : Nat) : List (Nat × Nat) → Prop
  | [] => True
  | p :: rest => p.1 < n + rest.length ∧ p.2 < n + rest.length ∧ WellOrdered n rest

structure TInv (n : Nat) (st : HState α) (t : TState) : Prop where
  len : t.linkage.length = st.merges.length
  live : ∀ x, x < n → x ∉ st.deleted → ∃ a, t.nodeOf x = some a
  someSpec : ∀ x a, t.nodeOf x = some a →
      a < n + t.linkage.length ∧ a ∉ children t.linkage ∧ x < n ∧ x ∉ st.deleted
  inj : ∀ x y a, t.nodeOf x = some a → t.nodeOf y = some a → x = y
  nodup : (children t.linkage).Nodup
  childLt : ∀ c ∈ children t.linkage, c + 1 < n + t.linkage.length
  ordered : WellOrdered n t.linkage

theorem tree_init_inv (n : Nat) (d0 : Nat → Nat → α) : TInv n (hierInit n d0) (treeInit n) := by
  refine ⟨rfl, ?_, ?_, ?_, ?_, ?_, trivial⟩
  · intro x hx _; exact ⟨x, by simp [treeInit, hx]⟩
  · intro x a h
    simp only [treeInit] at h
    split at h
    · cases h; simp [treeInit, children, hierInit]; omega
    · cases h
  · intro x y a hx hy
    simp only [treeInit] at hx hy
    split at hx <;> split at hy <;> simp_all
  · simp [treeInit, children]
  · simp [treeInit, children]

theorem tree_merge_inv (n : Nat) (st : HState α) (t : TState) (i1 i2 : Nat) (d : α)
    (ht : TInv n st t) (h1 : i1 < n) (h2 : i2 < n) (hne : i1 ≠ i2)
    (hd1 : i1 ∉ st.deleted) (hd2 : i2 ∉ st.deleted) :
    TInv n (st.merge i1 i2 d) (treeStep n t i1 i2) := by
  obtain ⟨a, ha⟩ := ht.live i1 h1 hd1
  obtain ⟨b, hb⟩ := ht.live i2 h2 hd2
  have hab : a ≠ b := fun h => hne (ht.inj i1 i2 a ha (h ▸ hb))
  obtain ⟨ha1, ha2, _, _⟩ := ht.someSpec i1 a ha
  obtain ⟨hb1, hb2, _, _⟩ := ht.someSpec i2 b hb
  have hlink : (treeStep n t i1 i2).linkage = (b, a) :: t.linkage := by simp [treeStep, ha, hb]
  have hnode : ∀ x, (treeStep n t i1 i2).nodeOf x =
      if x = i2 then none else if x = i1 then some (n + t.linkage.length) else t.nodeOf x := fun _ => rfl
  refine ⟨?_, ?_, ?_, ?_, ?_, ?_, ?_⟩
  · simp [hlink, HState.merge, ht.len]
  · intro x hx hdel
    simp only [HState.merge, List.mem_cons, not_or] at hdel
    rw [hnode]
    simp only [hdel.1, if_false]
    split
    · exact ⟨_, rfl⟩
    · exact ht.live x hx hdel.2
  · intro x c hc
    rw [hnode] at hc
    rw [hlink, children_cons]
    simp only [List.length_cons, List.mem_cons, HState.merge, not_or]
    split at hc
    · cases hc
    · rename_i hx2
      split at hc
      · rename_i hx1
        cases hc
        subst hx1
        refine ⟨by omega, ⟨by omega, by omega, ?_⟩, h1, hx2, hd1⟩
        intro hmem
        have := ht.childLt _ hmem
        omega
      · rename_i hx1
        obtain ⟨hc1, hc2, hc3, hc4⟩ := ht.someSpec x c hc
        refine ⟨by omega, ⟨?_, ?_, hc2⟩, hc3, hx2, hc4⟩
        · intro h; exact hx2 (ht.inj x i2 b (h ▸ hc) hb)
        · intro h; exact hx1 (ht.inj x i1 a (h ▸ hc) ha)
  · intro x y c hx hy
    rw [hnode] at hx hy
    split at hx
    · cases hx
    · split at hy
      · cases hy
      · split at hx
        · split at hy
          · rename_i h h'; rw [h, h']
          · cases hx
            have := (ht.someSpec y _ hy).1
            omega
        · split at hy
          · cases hy
            have := (ht.someSpec x _ hx).1
            omega
          · exact ht.inj x y c hx hy
  · rw [hlink, children_cons]
    refine List.nodup_cons.mpr ⟨?_, List.nodup_cons.mpr ⟨ha2, ht.nodup⟩⟩
    simp only [List.mem_cons, not_or]
    exact ⟨fun h => hab h.symm, hb2⟩
  · intro c hc
    rw [hlink, children_cons] at hc
    rw [hlink]
    simp only [List.length_cons, List.mem_cons] at hc ⊢
    rcases hc with rfl | rfl | hc
    · omega
    · omega
    · have := ht.childLt c hc; omega
  · rw [hlink]
    exact ⟨hb1, ha1, ht.ordered⟩

theorem reach_tinv (n : Nat) (maxDist : α) (d0 : Nat → Nat → α) (st : HState α)
    (h : HReach n maxDist d0 st) : TInv n st (treeOf n st.merges) := by
  induction h with
  | init => exact tree_init_inv n d0
  | step st r c swap hre hrc hcn hle hfin hmin ih =>
    have hi := reach_hinv n maxDist d0 st hre
    have hr : r ∉ st.deleted := fun hdel => hfin (hi.blanked r c (Or.inl hdel))
    have hc : c ∉ st.deleted := fun hdel => hfin (hi.blanked r c (Or.inr hdel))
    cases swap
    · simpa [HState.merge, treeOf] using tree_merge_inv n st _ r c (st.dist r c) ih (by omega) hcn (by omega) hr hc
    · simpa [HState.merge, treeOf] using tree_merge_inv n st _ c r (st.dist r c) ih hcn (by omega) (by omega) hc hr

/-- a duplicate-free list of `m` numbers below `m` contains every number below `m` -/
theorem nodup_full (l : List Nat) (m : Nat) (hn : l.Nodup) (hlen : l.length = m) (hlt : ∀ x ∈ l, x < m) :
    ∀ x, x < m → x ∈ l := by
  have hsub : l ⊆ List.range m := fun x hx => List.mem_range.mpr (hlt x hx)
  have hsp : l.Subperm (List.range m) := List.subperm_of_subset hn hsub
  have hperm : l.Perm (List.range m) := hsp.perm_of_length_le (by simp [hlen])
  intro x hx
  exact hperm.mem_iff.mpr (List.mem_range.mpr hx)

/-- two distinct live prototypes leave room for at least one more merge -/
theorem two_live (n : Nat) (l : List Nat) (hn : l.Nodup) (hlt : ∀ x ∈ l, x < n) (a b : Nat) (ha : a < n) (hb : b < n)
    (hab : a ≠ b) (hal : a ∉ l) (hbl : b ∉ l) : l.length + 2 ≤ n := by
  have hnd : (a :: b :: l).Nodup := by
    refine List.nodup_cons.mpr ⟨?_, List.nodup_cons.mpr ⟨hbl, hn⟩⟩
    simp only [List.mem_cons, not_or]; exact ⟨hab, hal⟩
  have hsub : (a :: b :: l) ⊆ List.range n := by
    intro x hx
    simp only [List.mem_cons] at hx
    rcases hx with rfl | rfl | hx
    · exact List.mem_range.mpr ha
    · exact List.mem_range.mpr hb
    · exact List.mem_range.mpr (hlt x hx)
  have := (List.subperm_of_subset hnd hsub).length_le
  simpa using this

theorem mem_upperPairs (n r c : Nat) : (r, c) ∈ upperPairs n ↔ r < c ∧ c < n := by
  simp only [upperPairs, List.mem_flatMap, List.mem_range, List.mem_map, List.mem_range'_1, Prod.mk.injEq]
  constructor
  · rintro ⟨a, ha, b, hb, rfl, rfl⟩; omega
  · intro h; exact ⟨r, by omega, c, by omega, rfl, rfl⟩

theorem firstMin_fold (dist : Nat → Nat → α) (l : List (Nat × Nat)) :
    ∀ (init : Option (Nat × Nat)),
      (l.foldl (fun best p =>
        match best with
        | none => some p
        | some b => if dist b.1 b.2 ≤ dist p.1 p.2 then some b else some p) init = none → init = none ∧ l = []) ∧
      ∀ b, l.foldl (fun best p =>
        match best with
        | none => some p
        | some b => if dist b.1 b.2 ≤ dist p.1 p.2 then some b else some p) init = some b →
        (b ∈ l ∨ init = some b) ∧ (∀ p ∈ l, dist b.1 b.2 ≤ dist p.1 p.2) ∧
        (∀ b0, init = some b0 → dist b.1 b.2 ≤ dist b0.1 b0.2) := by
  induction l with
  | nil =>
    intro init
    refine ⟨fun h => ⟨h, rfl⟩, ?_⟩
    intro b hb
    simp only [List.foldl_nil] at hb
    exact ⟨Or.inr hb, by simp, fun b0 h0 => by rw [hb] at h0; cases h0; exact le_rfl⟩
  | cons p ps ih =>
    intro init
    simp only [List.foldl_cons]
    cases init with
    | none =>
      obtain ⟨h1, h2⟩ := ih (some p)
      refine ⟨fun h => absurd (h1 h).1 (by simp), ?_⟩
      intro b hb
      obtain ⟨hm, hall, h0⟩ := h2 b hb
      refine ⟨Or.inl ?_, ?_, by simp⟩
      · rcases hm with hm | hm
        · exact List.mem_cons_of_mem _ hm
        · cases hm; exact List.mem_cons_self
      · intro q hq
        rcases List.mem_cons.mp hq with rfl | hq
        · exact h0 _ rfl
        · exact hall q hq
    | some b0 =>
      by_cases hle : dist b0.1 b0.2 ≤ dist p.1 p.2
      · simp only [hle, if_true]
        obtain ⟨h1, h2⟩ := ih (some b0)
        refine ⟨fun h => absurd (h1 h).1 (by simp), ?_⟩
        intro b hb
        obtain ⟨hm, hall, h0⟩ := h2 b hb
        refine ⟨?_, ?_, ?_⟩
        · rcases hm with hm | hm
          · exact Or.inl (List.mem_cons_of_mem _ hm)
          · exact Or.inr hm
        · intro q hq
          rcases List.mem_cons.mp hq with rfl | hq
          · exact le_trans (h0 _ rfl) hle
          · exact hall q hq
        · exact h0
      · simp only [hle, if_false]
        obtain ⟨h1, h2⟩ := ih (some p)
        refine ⟨fun h => absurd (h1 h).1 (by simp), ?_⟩
        intro b hb
        obtain ⟨hm, hall, h0⟩ := h2 b hb
        refine ⟨?_, ?_, ?_⟩
        · rcases hm with hm | hm
          · exact Or.inl (List.mem_cons_of_mem _ hm)
          · cases hm; exact Or.inl List.mem_cons_self
        · intro q hq
          rcases List.mem_cons.mp hq with rfl | hq
          · exact h0 _ rfl
          · exact hall q hq
        · intro b1 hb1
          cases hb1
          exact le_trans (h0 _ rfl) (le_of_lt (lt_of_not_ge hle))

theorem firstMinPair_some (n : Nat) (dist : Nat → Nat → α) (r c : Nat) (h : firstMinPair n dist = some (r, c)) :
    r < c ∧ c < n ∧ ∀ r' c', r' < c' → c' < n → dist r c ≤ dist r' c' := by
  obtain ⟨hm, hall, _⟩ := (firstMin_fold dist (upperPairs n) none).2 (r, c) h
  rcases hm with hm | hm
  · obtain ⟨h1, h2⟩ := (mem_upperPairs n r c).mp hm
    exact ⟨h1, h2, fun r' c' h1' h2' => hall (r', c') ((mem_upperPairs n r' c').mpr ⟨h1', h2'⟩)⟩
  · cases hm

theorem firstMinPair_none (n : Nat) (dist : Nat → Nat → α) (h : firstMinPair n dist = none) :
    ∀ r c, r < c → c < n → False := by
  intro r c h1 h2
  have := ((firstMin_fold dist (upperPairs n) none).1 h).2
  have hm := (mem_upperPairs n r c).mpr ⟨h1, h2⟩
  rw [this] at hm
  cases hm

/-- outside the live upper triangle every entry of a reachable state is `⊤` -/
theorem dist_top_outside (n : Nat) (maxDist : α) (d0 : Nat → Nat → α) (st : HState α)
    (hi : HInv n maxDist d0 st) (r c : Nat) (h : ¬ (r < c ∧ c < n)) : st.dist r c = ⊤ := by
  by_cases hr : r ∈ st.deleted
  · exact hi.blanked r c (Or.inl hr)
  · by_cases hc : c ∈ st.deleted
    · exact hi.blanked r c (Or.inr hc)
    · rw [hi.kept r c hr hc]; simp [hierInit, h]

/-- the deterministic run (first minimal entry in row-major order, no swap) only visits reachable states -/
theorem hierRun_reach (n : Nat) (maxDist : α) (d0 : Nat → Nat → α) :
    ∀ (fuel : Nat) (st : HState α), HReach n maxDist d0 st → HReach n maxDist d0 (hierRun maxDist fuel st) := by
  intro fuel
  induction fuel with
  | zero => intro st h; exact h
  | succ fuel ih =>
    intro st h
    have hi := reach_hinv n maxDist d0 st h
    unfold hierRun
    cases hfm : firstMinPair st.n st.dist with
    | none => exact h
    | some p =>
      obtain ⟨r, c⟩ := p
      simp only []
      rw [hi.size] at hfm
      obtain ⟨hrc, hcn, hmin⟩ := firstMinPair_some n st.dist r c hfm
      split
      · rename_i hg
        have hall : ∀ r' c', st.dist r c ≤ st.dist r' c' := by
          intro r' c'
          by_cases hin : r' < c' ∧ c' < n
          · exact hmin r' c' hin.1 hin.2
          · rw [dist_top_outside n maxDist d0 st hi r' c' hin]; exact le_top
        have hstep := HReach.step st r c false h hrc hcn hg.1 hg.2 hall
        simp only [Bool.false_eq_true, if_false] at hstep
        split
        · exact hstep
        · exact ih _ hstep
      · exact h

end Dtai
