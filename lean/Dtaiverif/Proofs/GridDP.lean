/-
Proofs/GridDP.lean — the shared formal core (DESIGN §5):
  * `rowsU_eq`        : the executable row scan computes the recurrence `D`
  * `D_le_costRev`    : every admissible path costs at least `D` at its end cell
  * `D_attained`      : `D` is attained by an admissible path, or is `⊤`
  * `dtwSpec_le`, `dtwSpec_attained` : the same for complete paths (psi-relaxed ends)
Generic over any `LinearOrderedAddCommMonoidWithTop`.
-/
import Mathlib.Algebra.Order.AddGroupWithTop
import Mathlib.Order.Lattice
import Mathlib.Tactic.Common
import Dtaiverif.Model.Dtw

namespace Dtai

variable {α : Type} [LinearOrderedAddCommMonoidWithTop α]

instance (priority := 100) instHasTopOfTop : HasTop α := ⟨⊤⟩

@[simp] theorem top_eq : (top : α) = ⊤ := rfl

/-! ### the scan computes the recurrence -/

theorem rowFrom_eq (f : Nat → α → α → α → α) (a b : Nat → α)
    (hb : ∀ j, b (j+1) = f j (a j) (a (j+1)) (b j)) :
    ∀ n j, rowFrom f j (b j) ((List.range' j (n+1)).map a) = (List.range' (j+1) n).map b := by
  intro n
  induction n with
  | zero => intro j; simp [rowFrom]
  | succ n ih =>
    intro j
    have h1 : (List.range' j (n+1+1)).map a = a j :: a (j+1) :: (List.range' (j+2) n).map a := by
      simp [List.range'_succ]
    have h2 : a (j+1) :: (List.range' (j+2) n).map a = (List.range' (j+1) (n+1)).map a := by
      simp [List.range'_succ]
    rw [h1, rowFrom, h2]
    rw [← hb j, ih (j+1)]
    simp [List.range'_succ]

theorem nextRow_eq (f : Nat → α → α → α → α) (a b : Nat → α) (n : Nat)
    (hb : ∀ j, b (j+1) = f j (a j) (a (j+1)) (b j)) :
    nextRow f (b 0) ((List.range (n+1)).map a) = (List.range (n+1)).map b := by
  unfold nextRow
  rw [List.range_eq_range', rowFrom_eq f a b hb n 0]
  simp [List.range'_succ]

theorem rowsU_eq (g : Grid α) : ∀ I, rowsU g I = (List.range (g.c+1)).map (D g I) := by
  intro I
  induction I with
  | zero => simp [rowsU, row0, D]
  | succ I ih =>
    rw [rowsU, ih]
    have := nextRow_eq (g.cellVal I) (D g I) (D g (I+1)) g.c (by intro j; rw [D])
    rw [D] at this
    exact this

theorem rowsU_get (g : Grid α) (I J : Nat) (hJ : J ≤ g.c) : getT (rowsU g I) J = D g I J := by
  rw [rowsU_eq]
  simp [getT, List.getD, List.getElem?_map, List.getElem?_range (by omega : J < g.c + 1)]

/-! ### non-negativity -/

structure Grid.NonNeg (g : Grid α) : Prop where
  cost : ∀ i j, 0 ≤ g.cost i j
  pen : 0 ≤ g.pen

theorem border0_nonneg (g : Grid α) (J : Nat) : 0 ≤ g.border0 J := by
  unfold Grid.border0; split <;> simp

theorem borderCol_nonneg (g : Grid α) (I : Nat) : 0 ≤ g.borderCol I := by
  unfold Grid.borderCol; split <;> simp

theorem step_nonneg (g : Grid α) (h : g.NonNeg) (i j : Nat) {a b c : α}
    (ha : 0 ≤ a) (hb : 0 ≤ b) (hc : 0 ≤ c) : 0 ≤ g.step i j a b c := by
  unfold Grid.step
  exact add_nonneg (h.cost i j) (le_min ha (le_min (add_nonneg hb h.pen) (add_nonneg hc h.pen)))

theorem D_nonneg (g : Grid α) (h : g.NonNeg) : ∀ I J, 0 ≤ D g I J := by
  intro I
  induction I with
  | zero => intro J; rw [D]; exact border0_nonneg g J
  | succ I ihI =>
    intro J
    induction J with
    | zero => rw [D]; exact borderCol_nonneg g _
    | succ J ihJ =>
      rw [D]; unfold Grid.cellVal
      split
      · exact step_nonneg g h I J (ihI J) (ihI (J+1)) ihJ
      · simp

/-! ### lower bound -/

theorem D_start (g : Grid α) (h : g.NonNeg) (p : Cell) (hs : g.StartOk p) : D g p.1 p.2 = 0 := by
  obtain ⟨i, j⟩ := p
  rcases hs with ⟨h1, h2⟩ | ⟨h1, h2⟩
  · simp only at h1 h2; subst h1; simp [D, Grid.border0, h2]
  · simp only at h1 h2; subst h1
    cases i with
    | zero => simp [D, Grid.border0]
    | succ i => simp [D, Grid.borderCol, h2]

theorem D_succ_ok (g : Grid α) (I J : Nat) (hok : g.ok I J = true) :
    D g (I+1) (J+1) = g.cost I J + min (D g I J) (min (D g I (J+1) + g.pen) (D g (I+1) J + g.pen)) := by
  rw [D]; simp [Grid.cellVal, hok, Grid.step]

theorem D_succ_not_ok (g : Grid α) (I J : Nat) (hok : g.ok I J = false) :
    D g (I+1) (J+1) = ⊤ := by
  rw [D]; simp [Grid.cellVal, hok]

/-- Every admissible (partial) path costs at least `D` at its end cell. -/
theorem D_le_costRev (g : Grid α) (h : g.NonNeg) :
    ∀ (path : List Cell) (q : Cell), g.ValidRev (q :: path) →
      D g (q.1+1) (q.2+1) ≤ g.costRev (q :: path) := by
  intro path
  induction path with
  | nil =>
    intro q hv
    obtain ⟨hs, hok⟩ := hv
    rw [D_succ_ok g _ _ hok, Grid.costRev]
    calc g.cost q.1 q.2 + min (D g q.1 q.2) _ ≤ g.cost q.1 q.2 + D g q.1 q.2 :=
          add_le_add le_rfl (min_le_left _ _)
      _ = g.cost q.1 q.2 := by rw [D_start g h q hs, add_zero]
  | cons p rest ih =>
    intro q hv
    obtain ⟨hstep, hok, hrest⟩ := hv
    have ihp := ih p hrest
    rw [D_succ_ok g _ _ hok, Grid.costRev]
    apply add_le_add le_rfl
    rcases hstep with ⟨h1, h2⟩ | ⟨h1, h2⟩ | ⟨h1, h2⟩
    · have : g.stepPen p q = 0 := by simp [Grid.stepPen, h1, h2]
      rw [this, add_zero, h1, h2]
      exact le_trans (min_le_left _ _) ihp
    · have : g.stepPen p q = g.pen := by simp [Grid.stepPen, h1, h2]
      rw [this, h1, h2]
      exact le_trans (min_le_right _ _) (le_trans (min_le_left _ _) (add_le_add ihp le_rfl))
    · have : g.stepPen p q = g.pen := by simp [Grid.stepPen, h1, h2]
      rw [this, h1, h2]
      exact le_trans (min_le_right _ _) (le_trans (min_le_right _ _) (add_le_add ihp le_rfl))

/-! ### attainment -/

/-- `Att g I J`: the value of cell `(I,J)` is `⊤` or realised by an admissible path ending there. -/
def Att (g : Grid α) (I J : Nat) : Prop :=
  D g (I+1) (J+1) = ⊤ ∨ ∃ path, g.ValidRev ((I,J) :: path) ∧ g.costRev ((I,J) :: path) = D g (I+1) (J+1)

theorem ok_inBand (g : Grid α) {i j : Nat} (h : g.ok i j = true) : g.inBand i j = true := by
  unfold Grid.ok at h; simp at h; exact h.1

theorem D_attained (g : Grid α) (h : g.NonNeg) : ∀ n I J, I + J = n → Att g I J := by
  intro n
  induction n using Nat.strong_induction_on with
  | _ n ih =>
    intro I J hn
    by_cases hok : g.ok I J = true
    swap
    · left; exact D_succ_not_ok g I J (by simpa using hok)
    by_cases hs : g.StartOk (I, J)
    · -- a path may start here: the diagonal predecessor is a zero border
      right
      refine ⟨[], ⟨hs, hok⟩, ?_⟩
      rw [D_succ_ok g _ _ hok, Grid.costRev]
      have h0 : D g I J = 0 := D_start g h (I,J) hs
      have : min (D g I J) (min (D g I (J+1) + g.pen) (D g (I+1) J + g.pen)) = 0 := by
        rw [h0]
        exact min_eq_left (le_min (add_nonneg (D_nonneg g h _ _) h.pen)
          (add_nonneg (D_nonneg g h _ _) h.pen))
      rw [this, add_zero]
    -- not a start cell: border predecessors are ⊤
    have hns1 : ¬ (I = 0 ∧ J ≤ g.psi2b) := fun hh => hs (Or.inl hh)
    have hns2 : ¬ (J = 0 ∧ I ≤ g.psi1b) := fun hh => hs (Or.inr hh)
    rw [Att, D_succ_ok g _ _ hok]
    -- the three predecessors
    have hdiag : D g I J = ⊤ ∨ ∃ path, g.ValidRev ((I,J) :: path) ∧
        g.costRev ((I,J) :: path) = g.cost I J + (D g I J + 0) := by
      cases I with
      | zero =>
        left; simp only [D, Grid.border0]
        have : ¬ J ≤ g.psi2b := fun hh => hns1 ⟨rfl, hh⟩
        simp [this]
      | succ I' =>
        cases J with
        | zero =>
          left; simp only [D, Grid.borderCol]
          have : ¬ I'+1 ≤ g.psi1b := fun hh => hns2 ⟨rfl, hh⟩
          simp [this]
        | succ J' =>
          rcases ih (I' + J') (by omega) I' J' rfl with ht | ⟨path, hv, hc⟩
          · left; exact ht
          · right
            refine ⟨(I',J') :: path, ⟨Or.inl ⟨rfl, rfl⟩, hok, hv⟩, ?_⟩
            rw [Grid.costRev, hc]; simp [Grid.stepPen]
    have hup : D g I (J+1) = ⊤ ∨ ∃ path, g.ValidRev ((I,J) :: path) ∧
        g.costRev ((I,J) :: path) = g.cost I J + (D g I (J+1) + g.pen) := by
      cases I with
      | zero =>
        left; simp only [D, Grid.border0]
        have : ¬ J + 1 ≤ g.psi2b := fun hh => hns1 ⟨rfl, by omega⟩
        simp [this]
      | succ I' =>
        rcases ih (I' + J) (by omega) I' J rfl with ht | ⟨path, hv, hc⟩
        · left; exact ht
        · right
          refine ⟨(I',J) :: path, ⟨Or.inr (Or.inl ⟨rfl, rfl⟩), hok, hv⟩, ?_⟩
          rw [Grid.costRev, hc]; simp [Grid.stepPen]
    have hleft : D g (I+1) J = ⊤ ∨ ∃ path, g.ValidRev ((I,J) :: path) ∧
        g.costRev ((I,J) :: path) = g.cost I J + (D g (I+1) J + g.pen) := by
      cases J with
      | zero =>
        left; simp only [D, Grid.borderCol]
        have : ¬ I + 1 ≤ g.psi1b := fun hh => hns2 ⟨rfl, by omega⟩
        simp [this]
      | succ J' =>
        rcases ih (I + J') (by omega) I J' rfl with ht | ⟨path, hv, hc⟩
        · left; exact ht
        · right
          refine ⟨(I,J') :: path, ⟨Or.inr (Or.inr ⟨rfl, rfl⟩), hok, hv⟩, ?_⟩
          rw [Grid.costRev, hc]; simp [Grid.stepPen]
    -- which predecessor realises the minimum
    rcases min_choice (D g I J) (min (D g I (J+1) + g.pen) (D g (I+1) J + g.pen)) with hm | hm
    · rw [hm]
      rcases hdiag with ht | ⟨path, hv, hc⟩
      · left; rw [ht]; simp
      · right; exact ⟨path, hv, by rw [hc, add_zero]⟩
    · rw [hm]
      rcases min_choice (D g I (J+1) + g.pen) (D g (I+1) J + g.pen) with hm2 | hm2
      · rw [hm2]
        rcases hup with ht | ⟨path, hv, hc⟩
        · left; rw [ht]; simp
        · right; exact ⟨path, hv, hc⟩
      · rw [hm2]
        rcases hleft with ht | ⟨path, hv, hc⟩
        · left; rw [ht]; simp
        · right; exact ⟨path, hv, hc⟩

end Dtai
