/-
Proofs/Rolling.lean — every access of the rolling two-row buffer stays inside its own row.
-/
import Mathlib.Tactic.Common
import Dtaiverif.Model.Rolling

namespace Dtai
open Roll

/-- For every row `i < l1` and every column `j` of the loop range `[maxj, minj)` the four offsets used by
`dtw_distance*` are inside `[0, length)`: no access leaves the row it is meant for (and therefore none
leaves the `2*length` doubles that were allocated). Holds for all `l1, l2 ≥ 1` and `window ≥ 1`. -/
theorem rolling_in_row (p : Roll) (h1 : 1 ≤ p.l1) (h2 : 1 ≤ p.l2) (hw : 1 ≤ p.window)
    (i j : Nat) (hi : i < p.l1) (hj1 : p.maxj i ≤ j) (hj2 : j < p.minj i) :
    p.skipp i ≤ j ∧ j - p.skipp i + 1 < p.length ∧
    p.skip i ≤ j ∧ j - p.skip i + 1 < p.length := by
  obtain ⟨l1, l2, w⟩ := p
  simp only [Roll.skipp, Roll.skip, Roll.maxj, Roll.minj, Roll.length, Roll.ldiff, Roll.dl, Roll.dlWindow,
    Roll.ldiffWindow] at *
  split_ifs at * <;> omega

/-- the psi scan of the last row (`for (i = MAX(0, l2 - skip - psi_2e); i < l2 - skip + 1; i++)`) stays
inside the row as well -/
theorem rolling_last_row_scan (p : Roll) (h1 : 1 ≤ p.l1) (h2 : 1 ≤ p.l2) (hw : 1 ≤ p.window) :
    p.skip (p.l1 - 1) ≤ p.l2 ∧ p.l2 - p.skip (p.l1 - 1) < p.length := by
  obtain ⟨l1, l2, w⟩ := p
  simp only [Roll.skip, Roll.maxj, Roll.length, Roll.ldiff, Roll.dl, Roll.dlWindow] at *
  split_ifs at * <;> omega

end Dtai
