/-
Proofs/Compact.lean — integer facts about the compact warping-paths layout of the C engine.
-/
import Mathlib.Tactic.Common
import Dtaiverif.Model.Compact
import Dtaiverif.Model.Dtw

namespace Dtai

/-- every stored cell of compact row `r` lies inside row `r` of a buffer of `width` columns -/
theorem locColumns_in_row (l1 l2 window r : Nat) (h1 : 1 ≤ l1) (h2 : 1 ≤ l2) (hr1 : 1 ≤ r) (hr : r ≤ l1) :
    let p := wpsParts l1 l2 window
    let lc := locColumns p l2 r
    r * p.width ≤ lc.1 ∧ lc.2.1 ≤ min lc.2.2 (l2 + 1) ∧
      lc.1 + (min lc.2.2 (l2 + 1) - lc.2.1) ≤ r * p.width + p.width := by
  intro p lc
  simp only [lc, p, locColumns, wpsParts]
  by_cases hw : window = 0 <;> by_cases hl : l1 > l2 <;> simp only [hw, hl, if_true, if_false] <;>
    (split_ifs <;> simp only [] <;> omega)

end Dtai

namespace Dtai

/-- effective window of the Python engine for a C-level window value (`0` = none) -/
def effWindow (l1 l2 window : Nat) : Nat := if window = 0 then max l1 l2 else window

theorem locColumns_cb_nat_a (l1 l2 window r : Nat) (h1 : 1 ≤ l1) (h2 : 1 ≤ l2)
    (hr1 : 1 ≤ r) (hr : r ≤ l1)
    (hw : window = 0) (hl : l1 > l2) :
    (locColumns (wpsParts l1 l2 window) l2 r).2.1 = (r - 1) + 1 - (l1 - l2) - effWindow l1 l2 window := by
  simp only [locColumns, wpsParts, effWindow, hw, hl, if_true, if_false]
  split_ifs <;> simp only [] <;> omega

theorem locColumns_cb_nat_b (l1 l2 window r : Nat) (h1 : 1 ≤ l1) (h2 : 1 ≤ l2)
    (hr1 : 1 ≤ r) (hr : r ≤ l1)
    (hw : window = 0) (hl : ¬ l1 > l2) :
    (locColumns (wpsParts l1 l2 window) l2 r).2.1 = (r - 1) + 1 - (l1 - l2) - effWindow l1 l2 window := by
  simp only [locColumns, wpsParts, effWindow, hw, hl, if_true, if_false]
  split_ifs <;> simp only [] <;> omega

theorem locColumns_cb_nat_c (l1 l2 window r : Nat) (h1 : 1 ≤ l1) (h2 : 1 ≤ l2)
    (hr1 : 1 ≤ r) (hr : r ≤ l1)
    (hw : ¬ window = 0) (hl : l1 > l2) :
    (locColumns (wpsParts l1 l2 window) l2 r).2.1 = (r - 1) + 1 - (l1 - l2) - effWindow l1 l2 window := by
  simp only [locColumns, wpsParts, effWindow, hw, hl, if_true, if_false]
  split_ifs <;> simp only [] <;> omega

theorem locColumns_cb_nat_d (l1 l2 window r : Nat) (h1 : 1 ≤ l1) (h2 : 1 ≤ l2)
    (hr1 : 1 ≤ r) (hr : r ≤ l1)
    (hw : ¬ window = 0) (hl : ¬ l1 > l2) :
    (locColumns (wpsParts l1 l2 window) l2 r).2.1 = (r - 1) + 1 - (l1 - l2) - effWindow l1 l2 window := by
  simp only [locColumns, wpsParts, effWindow, hw, hl, if_true, if_false]
  split_ifs <;> simp only [] <;> omega

theorem locColumns_cb_nat (l1 l2 window r : Nat) (h1 : 1 ≤ l1) (h2 : 1 ≤ l2)
    (hr1 : 1 ≤ r) (hr : r ≤ l1) :
    (locColumns (wpsParts l1 l2 window) l2 r).2.1 = (r - 1) + 1 - (l1 - l2) - effWindow l1 l2 window := by
  by_cases hw : window = 0 <;> by_cases hl : l1 > l2
  · exact locColumns_cb_nat_a l1 l2 window r h1 h2 hr1 hr hw hl
  · exact locColumns_cb_nat_b l1 l2 window r h1 h2 hr1 hr hw hl
  · exact locColumns_cb_nat_c l1 l2 window r h1 h2 hr1 hr hw hl
  · exact locColumns_cb_nat_d l1 l2 window r h1 h2 hr1 hr hw hl

theorem locColumns_ce_nat (l1 l2 window r : Nat) (h1 : 1 ≤ l1) (h2 : 1 ≤ l2)
    (hr1 : 1 ≤ r) (hr : r ≤ l1) :
    min (locColumns (wpsParts l1 l2 window) l2 r).2.2 (l2 + 1) =
      min l2 ((r - 1) + (l2 - l1) + effWindow l1 l2 window) + 1 := by
  simp only [locColumns, wpsParts, effWindow]
  by_cases hw : window = 0 <;> by_cases hl : l1 > l2 <;> simp only [hw, hl, if_true, if_false] <;>
    (split_ifs <;> simp only [] <;> omega)

theorem locColumns_eq_band_nat (l1 l2 window r : Nat) (h1 : 1 ≤ l1) (h2 : 1 ≤ l2)
    (hr1 : 1 ≤ r) (hr : r ≤ l1) :
    (locColumns (wpsParts l1 l2 window) l2 r).2.1 = (r - 1) + 1 - (l1 - l2) - effWindow l1 l2 window ∧
    min (locColumns (wpsParts l1 l2 window) l2 r).2.2 (l2 + 1) =
      min l2 ((r - 1) + (l2 - l1) + effWindow l1 l2 window) + 1 :=
  ⟨locColumns_cb_nat l1 l2 window r h1 h2 hr1 hr, locColumns_ce_nat l1 l2 window r h1 h2 hr1 hr⟩

/-- The stored column range of compact row `r` is exactly "the cell left of the band, then the band
cells" of row `r-1` of the Python band (`j_start`, `j_end` of dtw.py): the C layout and the Python
band describe the same set of cells, for every `l1, l2, window`. -/
theorem locColumns_eq_band {α : Type} (g : Grid α) (window r : Nat) (h1 : 1 ≤ g.r) (h2 : 1 ≤ g.c)
    (hw : g.window = effWindow g.r g.c window) (hr1 : 1 ≤ r) (hr : r ≤ g.r) :
    (locColumns (wpsParts g.r g.c window) g.c r).2.1 = g.jStart (r - 1) ∧
    min (locColumns (wpsParts g.r g.c window) g.c r).2.2 (g.c + 1) = g.jEnd (r - 1) + 1 := by
  have := locColumns_eq_band_nat g.r g.c window r h1 h2 hr1 hr
  simp only [Grid.jStart, Grid.jEnd, hw]
  exact this

/-- distinct stored cells have distinct compact indices (rows occupy disjoint index ranges and a row
is stored contiguously) -/
theorem wpsLoc_inj (l1 l2 window r c r' c' i : Nat) (h1 : 1 ≤ l1) (h2 : 1 ≤ l2)
    (hr : r ≤ l1) (hr' : r' ≤ l1)
    (h : wpsLoc (wpsParts l1 l2 window) l2 r c = some i)
    (h' : wpsLoc (wpsParts l1 l2 window) l2 r' c' = some i) : r = r' ∧ c = c' := by
  have key : ∀ r c i, r ≤ l1 → wpsLoc (wpsParts l1 l2 window) l2 r c = some i →
      r * (wpsParts l1 l2 window).width ≤ i ∧ i < r * (wpsParts l1 l2 window).width + (wpsParts l1 l2 window).width ∧
      (r = 0 → i = c) ∧ (1 ≤ r → (locColumns (wpsParts l1 l2 window) l2 r).2.1 ≤ c ∧
        i = (locColumns (wpsParts l1 l2 window) l2 r).1 + (c - (locColumns (wpsParts l1 l2 window) l2 r).2.1)) := by
    intro r c i hr h
    unfold wpsLoc at h
    by_cases hr0 : r = 0
    · subst hr0
      simp only [if_true] at h
      split at h
      · simp only [Option.some.injEq] at h; subst h; simp; omega
      · simp at h
    · simp only [hr0, if_false] at h
      split at h
      · rename_i hc
        simp only [Option.some.injEq] at h
        have := locColumns_in_row l1 l2 window r h1 h2 (by omega) hr
        simp only at this
        refine ⟨by omega, by omega, fun h0 => absurd h0 hr0, fun _ => ⟨hc.1, h.symm⟩⟩
      · simp at h
  obtain ⟨a1, a2, a3, a4⟩ := key r c i hr h
  obtain ⟨b1, b2, b3, b4⟩ := key r' c' i hr' h'
  have hrr : r = r' := by
    have hwpos : 0 < (wpsParts l1 l2 window).width := by
      simp only [wpsParts]; split_ifs <;> omega
    by_contra hne
    rcases Nat.lt_or_gt_of_ne hne with hlt | hlt
    · have : (r + 1) * (wpsParts l1 l2 window).width ≤ r' * (wpsParts l1 l2 window).width :=
        Nat.mul_le_mul_right _ hlt
      rw [Nat.succ_mul] at this; omega
    · have : (r' + 1) * (wpsParts l1 l2 window).width ≤ r * (wpsParts l1 l2 window).width :=
        Nat.mul_le_mul_right _ hlt
      rw [Nat.succ_mul] at this; omega
  subst hrr
  refine ⟨rfl, ?_⟩
  by_cases hr0 : r = 0
  · have := a3 hr0; have := b3 hr0; omega
  · obtain ⟨c1, c2⟩ := a4 (by omega)
    obtain ⟨d1, d2⟩ := b4 (by omega)
    omega

end Dtai
