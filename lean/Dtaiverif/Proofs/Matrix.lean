/-
Proofs/Matrix.lean — combinatorics of distance matrices (C06, C07).
-/
import Mathlib.Tactic.Common
import Mathlib.Tactic.Ring
import Dtaiverif.Model.Matrix

namespace Dtai

/-- valid block as in the property: `0 ≤ rb < re ≤ n`, `0 ≤ cb < ce ≤ n` -/
structure Block.Valid (b : Block) (n : Nat) : Prop where
  r1 : b.rb < b.re
  r2 : b.re ≤ n
  c1 : b.cb < b.ce
  c2 : b.ce ≤ n

/-! ### enumerations agree -/

theorem flatMap_congr' {β γ : Type} (l : List β) (f g : β → List γ) (h : ∀ x ∈ l, f x = g x) :
    l.flatMap f = l.flatMap g := by
  induction l with
  | nil => rfl
  | cons x xs ih =>
    simp only [List.flatMap_cons]
    rw [h x List.mem_cons_self, ih (fun y hy => h y (List.mem_cons_of_mem _ hy))]

theorem pairsC_eq_some (n : Nat) (b : Block) (hv : b.Valid n) :
    pairsC n (toCBlock (some b)) = pairs n (some b) := by
  have h1 : b.re ≠ 0 := by have := hv.r1; omega
  have h2 : b.ce ≠ 0 := by have := hv.c1; omega
  simp only [pairsC, pairs, toCBlock, completeBlock, rowCols, h1, h2, if_false]
  apply flatMap_congr'
  intro r _
  have hmin : min n b.ce = b.ce := Nat.min_eq_right hv.c2
  by_cases hb : b.triu = true
  · simp only [hb, hmin, true_and, if_true]
    have : (if r + 1 > b.cb then r + 1 else b.cb) = max (r+1) b.cb := by
      split <;> omega
    rw [this]
  · simp [hb, hmin]

theorem pairsC_eq_none (n : Nat) : pairsC n (toCBlock none) = pairs n none := by
  simp only [pairsC, pairs, toCBlock, completeBlock, rowCols, if_true, Nat.min_self, Nat.sub_zero]
  apply flatMap_congr'
  intro r _
  simp

/-! ### lengths -/

theorem length_pairs (n : Nat) (ob : Option Block) :
    (pairs n ob).length =
      ((List.range' (completeBlock n ob).rb ((completeBlock n ob).re - (completeBlock n ob).rb)).map fun r =>
        (rowCols n (completeBlock n ob) r).2 - (rowCols n (completeBlock n ob) r).1).sum := by
  simp [pairs, List.length_flatMap]

theorem sum_map_const (l : List Nat) (c : Nat) : (l.map fun _ => c).sum = l.length * c := by
  induction l with
  | nil => simp
  | cons x xs ih => simp [ih, Nat.succ_mul, Nat.add_comm]

theorem foldr_add_eq_sum (l : List Nat) : l.foldr (· + ·) 0 = l.sum := by
  induction l with
  | nil => rfl
  | cons x xs ih => simp [ih]

/-- Python's `_distance_matrix_length` is the number of selected pairs (valid block) -/
theorem lengthPy_eq (n : Nat) (b : Block) (hv : b.Valid n) :
    lengthPy n (some b) = (pairs n (some b)).length := by
  rw [length_pairs]
  simp only [lengthPy, completeBlock, rowCols]
  have hmin : min n b.ce = b.ce := Nat.min_eq_right hv.c2
  by_cases hb : b.triu = true
  · simp only [hb, not_true_eq_false, if_false, if_true, foldr_add_eq_sum, hmin]
    congr 1
    apply List.map_congr_left
    intro r _
    have := hv.c1
    split_ifs <;> omega
  · simp only [hb, Bool.false_eq_true, not_false_eq_true, if_true, if_false, hmin]
    rw [sum_map_const]; simp

theorem lengthCLoop_eq (b : Block) (hc : b.cb < b.ce) : ∀ k s,
    lengthCLoop b (List.range' s k) =
      ((List.range' s k).map fun r => b.ce - max (r + 1) b.cb).sum := by
  intro k
  induction k with
  | zero => intro s; simp [lengthCLoop]
  | succ k ih =>
    intro s
    rw [List.range'_succ, lengthCLoop, List.map_cons, List.sum_cons, ih (s+1)]
    split_ifs with h1 h2
    · have : max (s+1) b.cb = b.cb := by omega
      rw [this]
    · -- break: all remaining rows contribute nothing
      have hzero : ((List.range' (s+1) k).map fun r => b.ce - max (r + 1) b.cb).sum = 0 := by
        apply List.sum_eq_zero_iff_forall_eq_nat.mpr
        intro x hx
        obtain ⟨r, hr, rfl⟩ := List.mem_map.mp hx
        have := (List.mem_range'_1.mp hr).1
        omega
      rw [hzero]; omega
    · have : max (s+1) b.cb = s + 1 := by omega
      rw [this]; omega

/-- C's `dtw_distances_length` is the number of selected pairs (valid block) -/
theorem lengthC_eq_some (n : Nat) (b : Block) (hv : b.Valid n) :
    lengthC n (toCBlock (some b)) = (pairs n (some b)).length := by
  have h1 : b.re ≠ 0 := by have := hv.r1; omega
  have h2 : b.ce ≠ 0 := by have := hv.c1; omega
  have hvalid : blockValid b n n = true := by
    have := hv.r1; have := hv.r2; have := hv.c1; have := hv.c2
    simp [blockValid]; omega
  rw [length_pairs]
  simp only [lengthC, toCBlock, h1, h2, or_self, if_false, hvalid, not_true_eq_false, completeBlock, rowCols]
  have hmin : min n b.ce = b.ce := Nat.min_eq_right hv.c2
  by_cases hb : b.triu = true
  · simp only [hb, if_true, hmin]
    exact lengthCLoop_eq b hv.c1 _ _
  · simp only [hb, Bool.false_eq_true, if_false, hmin]
    rw [sum_map_const]; simp

/-! ### no block: n(n-1)/2 -/

theorem sum_tri (n : Nat) : ((List.range' 0 n).map fun r => n - (r + 1)).sum * 2 = n * (n - 1) := by
  have key : ∀ k s, ((List.range' s k).map fun r => (s + k) - (r + 1)).sum * 2 = k * (k - 1) := by
    intro k
    induction k with
    | zero => intro s; simp
    | succ k ih =>
      intro s
      rw [List.range'_succ, List.map_cons, List.sum_cons]
      have := ih (s+1)
      rw [show s + 1 + k = s + (k + 1) by omega] at this
      rw [Nat.add_mul, this]
      cases k with
      | zero => simp
      | succ k =>
        simp only [Nat.add_sub_cancel]
        have : s + (k + 1 + 1) - (s + 1) = k + 1 := by omega
        rw [this]; ring
  have := key n 0
  simpa using this

theorem lengthPy_none (n : Nat) : lengthPy n none = (pairs n none).length := by
  rw [length_pairs]
  simp only [lengthPy, completeBlock, rowCols, Nat.sub_zero, Nat.min_self]
  have h := sum_tri n
  have : ((List.range' 0 n).map fun r => n - max (r + 1) 0).sum =
      ((List.range' 0 n).map fun r => n - (r + 1)).sum := by
    simp
  simp only [if_true]
  rw [this]
  omega

theorem lengthC_none (n : Nat) : lengthC n (toCBlock none) = (pairs n none).length := by
  rw [← lengthPy_none]
  simp only [lengthC, toCBlock, lengthPy, or_self, if_true]
  rcases Nat.even_or_odd' n with ⟨k, hk | hk⟩
  · subst hk
    have h0 : (2 * k) % 2 = 0 := by omega
    simp only [h0, if_true]
    have : 2 * k / 2 = k := by omega
    rw [this]
    rw [show 2 * k * (2 * k - 1) = (k * (2 * k - 1)) * 2 by ring]
    omega
  · subst hk
    have h0 : (2 * k + 1) % 2 ≠ 0 := by omega
    simp only [h0, if_false]
    have : (2 * k + 1 - 1) / 2 = k := by omega
    rw [this]
    rw [show (2 * k + 1) * (2 * k + 1 - 1) = ((2 * k + 1) * k) * 2 by
      rw [show 2 * k + 1 - 1 = 2 * k by omega]; ring]
    omega

end Dtai

namespace Dtai

/-! ### condensed index -/

theorem condensed_aux (n : Nat) : ∀ k s a b, s ≤ a → a < s + k → a < b → b < n →
    ((List.range' s k).flatMap fun r => (List.range' (r+1) (n - (r+1))).map fun c => (r, c))[
      ((List.range' s (a - s)).map fun r => n - r - 1).sum + (b - a - 1)]? = some (a, b) := by
  intro k
  induction k with
  | zero => intro s a b h1 h2; omega
  | succ k ih =>
    intro s a b h1 h2 h3 h4
    rw [List.range'_succ, List.flatMap_cons]
    by_cases ha : a = s
    · subst ha
      simp only [Nat.sub_self, List.range'_zero, List.map_nil, List.sum_nil, Nat.zero_add]
      rw [List.getElem?_append_left (by simp; omega)]
      simp [List.getElem?_map, List.getElem?_range' (by omega : b - a - 1 < n - (a+1))]
      omega
    · have hs : a - s = (a - (s+1)) + 1 := by omega
      rw [hs, List.range'_succ, List.map_cons, List.sum_cons]
      rw [List.getElem?_append_right (by simp; omega)]
      have := ih (s+1) a b (by omega) (by omega) h3 h4
      simp only [List.length_map, List.length_range'] at this ⊢
      rw [show n - s - 1 + ((List.range' (s+1) (a - (s+1))).map fun r => n - r - 1).sum + (b - a - 1) - (n - (s+1))
        = ((List.range' (s+1) (a - (s+1))).map fun r => n - r - 1).sum + (b - a - 1) by omega]
      exact this

/-- `distance_array_index(a, b, n)` addresses the element of the pair `(min a b, max a b)` in the
condensed (no block) result -/
theorem condensedIndex_spec (n a b : Nat) (hab : a < b) (hb : b < n) :
    (pairs n none)[condensedIndex a b n]? = some (a, b) ∧
    (pairs n none)[condensedIndex b a n]? = some (a, b) := by
  have key : (pairs n none)[condensedIndex a b n]? = some (a, b) := by
    have := condensed_aux n n 0 a b (by omega) (by omega) hab hb
    simp only [pairs, completeBlock, rowCols, Nat.sub_zero, Nat.min_self, if_true]
    simp only [condensedIndex, Nat.min_eq_left (Nat.le_of_lt hab), Nat.max_eq_right (Nat.le_of_lt hab),
      foldr_add_eq_sum, List.range_eq_range']
    have h2 : ∀ r, max (r + 1) 0 = r + 1 := by intro r; omega
    simp only [h2]
    exact this
  refine ⟨key, ?_⟩
  have : condensedIndex b a n = condensedIndex a b n := by
    simp only [condensedIndex, Nat.min_comm, Nat.max_comm]
  rw [this]; exact key

/-! ### the OpenMP plan: slots of the parallel loops -/

/-- natural recursive form of the plan built by `dtw_distances_prepare` -/
def planFrom (n : Nat) (b : Block) (off : Nat) : List Nat → List (Nat × Nat × Nat)
  | [] => []
  | r :: rs =>
    let ce := if b.ce = 0 then n else b.ce
    let cb := if b.triu ∧ r + 1 > b.cb then r + 1 else b.cb
    (r, cb, off) :: planFrom n b (off + (ce - cb)) rs

theorem preparePlan_foldl (n : Nat) (b : Block) : ∀ (rows : List Nat) (off : Nat) (done : List (Nat × Nat × Nat)),
    (rows.foldl (fun (acc : Nat × List (Nat × Nat × Nat)) (r : Nat) =>
        (acc.1 + ((if b.ce = 0 then n else b.ce) - (if b.triu ∧ r + 1 > b.cb then r + 1 else b.cb)),
         acc.2 ++ [(r, (if b.triu ∧ r + 1 > b.cb then r + 1 else b.cb), acc.1)])) (off, done)).2
      = done ++ planFrom n b off rows := by
  intro rows
  induction rows with
  | nil => intro off done; simp [planFrom]
  | cons r rs ih =>
    intro off done
    simp only [List.foldl_cons, planFrom]
    rw [ih]
    simp

theorem preparePlan_eq (n : Nat) (b : Block) :
    preparePlan n b = planFrom n b 0 (List.range' b.rb ((if b.re = 0 then n else b.re) - b.rb)) := by
  unfold preparePlan
  simp only []
  have := preparePlan_foldl n b (List.range' b.rb ((if b.re = 0 then n else b.re) - b.rb)) 0 []
  simpa using this

/-- Iteration `r` of a parallel loop writes the distances of row `r`'s pairs into consecutive slots;
over all iterations the slots are exactly `off, off+1, …` in the order of the serial enumeration:
pairwise disjoint, covering, and slot `k` receives the `k`-th pair. -/
theorem plan_writes (n : Nat) (b : Block) : ∀ (rows : List Nat) (off : Nat),
    ((planFrom n b off rows).flatMap (rowWrites n b)).map Prod.snd =
      (rows.flatMap fun r =>
        (List.range' (if b.triu ∧ r + 1 > b.cb then r + 1 else b.cb)
          ((if b.ce = 0 then n else b.ce) - (if b.triu ∧ r + 1 > b.cb then r + 1 else b.cb))).map fun c => (r, c)) ∧
    ((planFrom n b off rows).flatMap (rowWrites n b)).map Prod.fst =
      List.range' off (((planFrom n b off rows).flatMap (rowWrites n b)).length) := by
  intro rows
  induction rows with
  | nil => intro off; simp [planFrom]
  | cons r rs ih =>
    intro off
    obtain ⟨ih1, ih2⟩ := ih (off + ((if b.ce = 0 then n else b.ce) - (if b.triu ∧ r + 1 > b.cb then r + 1 else b.cb)))
    simp only [planFrom, List.flatMap_cons, List.map_append, List.length_append]
    constructor
    · rw [ih1]
      congr 1
      simp [rowWrites, Function.comp_def]
    · rw [ih2]
      have hlen : (rowWrites n b (r, (if b.triu ∧ r + 1 > b.cb then r + 1 else b.cb), off)).length =
          (if b.ce = 0 then n else b.ce) - (if b.triu ∧ r + 1 > b.cb then r + 1 else b.cb) := by
        simp [rowWrites]
      rw [hlen, ← List.range'_append_1]
      congr 1
      simp only [rowWrites, List.map_map]
      apply List.ext_getElem
      · simp
      · intro i h1 h2
        simp only [List.length_map, List.length_range'] at h1
        simp [List.getElem_range']

/-! ### schedule independence -/

section
variable {β : Type}

/-- perform a list of writes `(slot, value)` on an output array (later writes win) -/
def applyWrites (ws : List (Nat × β)) (out : Nat → Option β) : Nat → Option β :=
  ws.foldl (fun o w => fun k => if k = w.1 then some w.2 else o k) out

theorem applyWrites_cons (w : Nat × β) (ws : List (Nat × β)) (out : Nat → Option β) :
    applyWrites (w :: ws) out = applyWrites ws (fun k => if k = w.1 then some w.2 else out k) := rfl

/-- writes to pairwise distinct slots commute: any reordering (any assignment of iterations to
threads, any interleaving) produces the same output array -/
theorem applyWrites_perm (ws ws' : List (Nat × β)) (hp : ws.Perm ws')
    (hnd : (ws.map Prod.fst).Nodup) (out : Nat → Option β) :
    applyWrites ws out = applyWrites ws' out := by
  induction hp generalizing out with
  | nil => rfl
  | cons x _ ih =>
    rw [applyWrites_cons, applyWrites_cons]
    exact ih (by simpa using (List.nodup_cons.mp (by simpa using hnd)).2) _
  | swap x y l =>
    rw [applyWrites_cons, applyWrites_cons, applyWrites_cons, applyWrites_cons]
    congr 1
    funext k
    have hne : x.1 ≠ y.1 := by
      simp only [List.map_cons, List.nodup_cons, List.mem_cons, not_or] at hnd
      exact fun h => hnd.1.1 h.symm
    by_cases h1 : k = x.1 <;> by_cases h2 : k = y.1
    · exact absurd (h1.symm.trans h2) hne
    · subst h1; simp [hne]
    · subst h2; simp [Ne.symm hne]
    · simp [h1, h2]
  | trans h1 _ ih1 ih2 =>
    rw [ih1 hnd, ih2 ((h1.map Prod.fst).nodup_iff.mp hnd)]

/-- after writing value `f p` into slot `off + k` for the `k`-th pair, slot `off + k` holds it -/
theorem applyWrites_get (ws : List (Nat × β)) (hnd : (ws.map Prod.fst).Nodup) (out : Nat → Option β)
    (w : Nat × β) (hw : w ∈ ws) : applyWrites ws out w.1 = some w.2 := by
  induction ws generalizing out with
  | nil => simp at hw
  | cons x xs ih =>
    rw [applyWrites_cons]
    simp only [List.map_cons, List.nodup_cons] at hnd
    rcases List.mem_cons.mp hw with rfl | hmem
    · -- no later write touches this slot
      have : ∀ (ys : List (Nat × β)) (o : Nat → Option β), w.1 ∉ ys.map Prod.fst →
          applyWrites ys o w.1 = o w.1 := by
        intro ys
        induction ys with
        | nil => intro o _; rfl
        | cons y ys ihy =>
          intro o hy
          rw [applyWrites_cons, ihy _ (fun h => hy (List.mem_cons_of_mem _ h))]
          have : w.1 ≠ y.1 := fun h => hy (by simp [h])
          simp [this]
      rw [this xs _ hnd.1]; simp
    · exact ih hnd.2 _ hmem

end

end Dtai
