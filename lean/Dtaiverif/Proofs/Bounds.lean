/-
Proofs/Bounds.lean — C09: LB_Keogh ≤ DTW ≤ Euclidean bound.
-/
import Dtaiverif.Proofs.Dist
import Dtaiverif.Model.Bounds

namespace Dtai

variable {α : Type} [LinearOrderedAddCommMonoidWithTop α]

/-! ### DTW ≤ ED : the "diagonal, then along the border" path is admissible -/

/-- cell `k` of the Euclidean alignment -/
def edCell (r c k : Nat) : Cell := (min k (r - 1), min k (c - 1))

/-- the Euclidean alignment up to cell `k`, end first -/
def edPathRev (r c : Nat) : Nat → List Cell
  | 0 => [edCell r c 0]
  | k+1 => edCell r c (k+1) :: edPathRev r c k

theorem edCell_inBand (g : Grid α) (hr : 1 ≤ g.r) (hc : 1 ≤ g.c) (hw : 1 ≤ g.window) (k : Nat)
    (hk : k < max g.r g.c) : g.inBand (edCell g.r g.c k).1 (edCell g.r g.c k).2 = true := by
  unfold Grid.inBand Grid.jStart Grid.jEnd edCell
  simp only [Bool.and_eq_true, decide_eq_true_eq]
  constructor <;> omega

theorem edCell_step (r c k : Nat) (hr : 1 ≤ r) (hc : 1 ≤ c) (hk : k + 1 < max r c) :
    IsStep (edCell r c k) (edCell r c (k+1)) := by
  simp only [IsStep, edCell]
  omega

theorem edCell_diag_of_eq (r c k : Nat) (h : r = c) (hk : k + 1 < max r c) :
    (edCell r c (k+1)).1 = (edCell r c k).1 + 1 ∧ (edCell r c (k+1)).2 = (edCell r c k).2 + 1 := by
  simp only [edCell]; omega

theorem edPathRev_head (r c k : Nat) : ∃ rest, edPathRev r c k = edCell r c k :: rest := by
  cases k <;> simp [edPathRev]

/-- the Euclidean alignment is an admissible path and (with `pen = 0` or equal lengths) its cost is the
sum of the point costs along it -/
theorem edPath_valid (g : Grid α) (hr : 1 ≤ g.r) (hc : 1 ≤ g.c) (hw : 1 ≤ g.window)
    (hms : g.maxStep = ⊤) (hpen : g.pen = 0 ∨ g.r = g.c) :
    ∀ k, k < max g.r g.c →
      g.ValidRev (edPathRev g.r g.c k) ∧
      g.costRev (edPathRev g.r g.c k) =
        sumList ((List.range (k+1)).map fun k' => g.cost (edCell g.r g.c k').1 (edCell g.r g.c k').2) := by
  have hok : ∀ k, k < max g.r g.c → g.ok (edCell g.r g.c k).1 (edCell g.r g.c k).2 = true := by
    intro k hk
    simp [Grid.ok, edCell_inBand g hr hc hw k hk, hms]
  intro k
  induction k with
  | zero =>
    intro hk
    refine ⟨⟨Or.inl ⟨by simp [edCell], by simp [edCell]⟩, hok 0 hk⟩, ?_⟩
    simp [edPathRev, Grid.costRev, sumList]
  | succ k ih =>
    intro hk
    obtain ⟨hv, hc'⟩ := ih (by omega)
    obtain ⟨rest, hrest⟩ := edPathRev_head g.r g.c k
    have hstep := edCell_step g.r g.c k hr hc hk
    refine ⟨?_, ?_⟩
    · rw [edPathRev, hrest]
      exact ⟨hstep, hok (k+1) hk, hrest ▸ hv⟩
    · rw [edPathRev, hrest, Grid.costRev, ← hrest, hc']
      have hsp : g.stepPen (edCell g.r g.c k) (edCell g.r g.c (k+1)) = 0 := by
        rcases hpen with h0 | heq
        · unfold Grid.stepPen; split <;> simp [h0]
        · have := edCell_diag_of_eq g.r g.c k heq hk
          simp [Grid.stepPen, this]
      rw [hsp, add_zero, List.range_succ (n := k+1), List.map_append]
      simp only [List.map_cons, List.map_nil]
      have hsum : ∀ (l : List α) (x : α), sumList (l ++ [x]) = x + sumList l := by
        intro l x
        induction l with
        | nil => simp [sumList]
        | cons y ys ihl =>
          simp only [List.cons_append, sumList, List.foldr_cons] at ihl ⊢
          rw [ihl]; exact add_left_comm _ _ _
      rw [hsum]

theorem edSum_eq (g : Grid α) :
    edSum g.cost g.r g.c =
      sumList ((List.range (max g.r g.c)).map fun k => g.cost (edCell g.r g.c k).1 (edCell g.r g.c k).2) := by
  simp [edSum, edPairs, edCell, List.map_map, Function.comp_def]

/-- **DTW ≤ ED** for every window ≥ 1, any psi, no max_step, when there is no penalty or the series
have equal length -/
theorem dtw_le_ed (g : Grid α) (h : g.NonNeg) (hr : 1 ≤ g.r) (hc : 1 ≤ g.c) (hw : 1 ≤ g.window)
    (hms : g.maxStep = ⊤) (hpen : g.pen = 0 ∨ g.r = g.c) :
    dtwSpec g ≤ edSum g.cost g.r g.c := by
  have hk : max g.r g.c - 1 < max g.r g.c := by omega
  obtain ⟨hv, hcost⟩ := edPath_valid g hr hc hw hms hpen (max g.r g.c - 1) hk
  obtain ⟨rest, hrest⟩ := edPathRev_head g.r g.c (max g.r g.c - 1)
  have hend : g.EndOk (edCell g.r g.c (max g.r g.c - 1)) := by
    simp only [Grid.EndOk, edCell]; omega
  have := dtwSpec_le_path g h rest _ (hrest ▸ hv) hend
  rw [← hrest, hcost, show max g.r g.c - 1 + 1 = max g.r g.c by omega, ← edSum_eq] at this
  exact this

/-! ### LB ≤ DTW -/

/-- sum of the per-row lower bounds of rows `0..i` -/
def lbUpTo (lb : Nat → α) : Nat → α
  | 0 => lb 0
  | i+1 => lb (i+1) + lbUpTo lb i

/-- Generic lower-bound theorem: if `lb i` bounds the point cost of every admissible cell of row `i`
from below, then without relaxation of series 1 every admissible path ending in row `i` costs at least
`lb 0 + … + lb i` (each row is visited, steps never skip a row). -/
theorem lb_le_costRev (g : Grid α) (h : g.NonNeg) (lb : Nat → α)
    (hlb : ∀ i j, g.ok i j = true → lb i ≤ g.cost i j) (hpsi : g.psi1b = 0) :
    ∀ (path : List Cell) (q : Cell), g.ValidRev (q :: path) → lbUpTo lb q.1 ≤ g.costRev (q :: path) := by
  intro path
  induction path with
  | nil =>
    intro q hv
    obtain ⟨hs, hok⟩ := hv
    have hq0 : q.1 = 0 := by
      rcases hs with ⟨h1, _⟩ | ⟨_, h2⟩
      · exact h1
      · omega
    rw [Grid.costRev, hq0, lbUpTo]
    exact hq0 ▸ hlb q.1 q.2 hok
  | cons p rest ih =>
    intro q hv
    obtain ⟨hstep, hok, hrest⟩ := hv
    have ihp := ih p hrest
    rw [Grid.costRev]
    have hpen_nonneg : 0 ≤ g.stepPen p q := by unfold Grid.stepPen; split <;> simp [h.pen]
    have hinner : lbUpTo lb p.1 ≤ g.costRev (p :: rest) + g.stepPen p q :=
      le_trans ihp (le_self_add_of_nonneg hpen_nonneg)
    rcases hstep with ⟨h1, _⟩ | ⟨h1, _⟩ | ⟨h1, _⟩
    · rw [h1, lbUpTo]; exact add_le_add (h1 ▸ hlb q.1 q.2 hok) hinner
    · rw [h1, lbUpTo]; exact add_le_add (h1 ▸ hlb q.1 q.2 hok) hinner
    · rw [h1]; exact le_trans hinner (le_add_self_of_nonneg (h.cost _ _))

/-- **LB ≤ DTW** (no psi on series 1, any penalty ≥ 0, any window) -/
theorem lb_le_dtw (g : Grid α) (h : g.NonNeg) (hn : g.NonDegenerate) (lb : Nat → α)
    (hlb : ∀ i j, g.ok i j = true → lb i ≤ g.cost i j) (hpsi : g.psi1b = 0) (hpsie : g.psi1e = 0) :
    lbUpTo lb (g.r - 1) ≤ dtwSpec g := by
  rcases dtwSpec_attained g h hn with ht | ⟨q, path, hv, he, hc⟩
  · rw [ht]; exact le_top
  · rw [← hc]
    have hq : q.1 = g.r - 1 := by
      rcases he with ⟨h1, _, _⟩ | ⟨_, h2, h3⟩ <;> omega
    rw [← hq]
    exact lb_le_costRev g h lb hlb hpsi path q hv

/-! ### the Keogh envelope term is such a row bound (integer data) -/

theorem sq_envelope_hi (ci ui y : Int) (h1 : y ≤ ui) (h2 : ui < ci) :
    (ci - ui).natAbs ^ 2 ≤ (ci - y).natAbs ^ 2 := by
  apply Nat.pow_le_pow_left
  omega

theorem sq_envelope_lo (ci li y : Int) (h1 : li ≤ y) (h2 : ci < li) :
    (ci - li).natAbs ^ 2 ≤ (ci - y).natAbs ^ 2 := by
  apply Nat.pow_le_pow_left
  omega

theorem abs_envelope_hi (ci ui y : Int) (h1 : y ≤ ui) (h2 : ui < ci) :
    (ci - ui).natAbs ≤ (ci - y).natAbs := by omega

theorem abs_envelope_lo (ci li y : Int) (h1 : li ≤ y) (h2 : ci < li) :
    (ci - li).natAbs ≤ (ci - y).natAbs := by omega

/-- the slice `s2[imin:imax]` used by `lb_keogh` is exactly the window band of row `i` -/
theorem envelope_is_band (g : Grid α) (hw : 1 ≤ g.window) (i : Nat) :
    i - ((g.r - g.c) + g.window - 1) = g.jStart i ∧ min g.c (i + (g.c - g.r) + g.window) = g.jEnd i := by
  unfold Grid.jStart Grid.jEnd
  constructor <;> omega

end Dtai

namespace Dtai

theorem foldl_max_ge (l : List Int) (a : Int) : a ≤ l.foldl max a ∧ ∀ y ∈ l, y ≤ l.foldl max a := by
  induction l generalizing a with
  | nil => simp
  | cons x xs ih =>
    obtain ⟨h1, h2⟩ := ih (max a x)
    refine ⟨le_trans (le_max_left a x) h1, ?_⟩
    intro y hy
    rcases List.mem_cons.mp hy with rfl | hm
    · exact le_trans (le_max_right a y) h1
    · exact h2 y hm

theorem foldl_min_le' (l : List Int) (a : Int) : l.foldl min a ≤ a ∧ ∀ y ∈ l, l.foldl min a ≤ y := by
  induction l generalizing a with
  | nil => simp
  | cons x xs ih =>
    obtain ⟨h1, h2⟩ := ih (min a x)
    refine ⟨le_trans h1 (min_le_left a x), ?_⟩
    intro y hy
    rcases List.mem_cons.mp hy with rfl | hm
    · exact le_trans h1 (min_le_right a y)
    · exact h2 y hm

/-- one term of `lb_keogh` is a lower bound of the point distance to every element of the envelope
window (`dist` = squared or absolute difference) -/
theorem keogh_term_le (dist : Int → Int → Nat)
    (hhi : ∀ ci ui y : Int, y ≤ ui → ui < ci → dist ci ui ≤ dist ci y)
    (hlo : ∀ ci li y : Int, li ≤ y → ci < li → dist ci li ≤ dist ci y)
    (s1 s2 : Array Int) (r c window i j : Nat)
    (hj1 : i - ((r - c) + window - 1) ≤ j) (hj2 : j < min c (i + (c - r) + window)) :
    (lbKeoghTerms dist s1 s2 r c window).getD i 0 ≤ dist (s1.getD i 0) (s2.getD j 0) ∨ r ≤ i := by
  by_cases hi : i < r
  swap
  · right; omega
  left
  simp only [lbKeoghTerms, List.getD, List.getElem?_map, List.getElem?_range hi, Option.map_some, Option.getD_some]
  -- the window segment contains s2[j]
  have hmem : s2.getD j 0 ∈ (List.range (min c (i + (c - r) + window) - (i - ((r - c) + window - 1)))).map
      (fun k => s2.getD (i - ((r - c) + window - 1) + k) 0) := by
    apply List.mem_map.mpr
    refine ⟨j - (i - ((r - c) + window - 1)), List.mem_range.mpr (by omega), ?_⟩
    congr 1; omega
  generalize hseg : (List.range (min c (i + (c - r) + window) - (i - ((r - c) + window - 1)))).map
      (fun k => s2.getD (i - ((r - c) + window - 1) + k) 0) = seg at hmem ⊢
  cases seg with
  | nil => simp at hmem
  | cons x xs =>
    simp only []
    have hub : s2.getD j 0 ≤ xs.foldl max x := by
      rcases List.mem_cons.mp hmem with h | h
      · rw [h]; exact (foldl_max_ge xs x).1
      · exact (foldl_max_ge xs x).2 _ h
    have hlb : xs.foldl min x ≤ s2.getD j 0 := by
      rcases List.mem_cons.mp hmem with h | h
      · rw [h]; exact (foldl_min_le' xs x).1
      · exact (foldl_min_le' xs x).2 _ h
    split_ifs with h1 h2
    · exact hhi _ _ _ hub h1
    · exact hlo _ _ _ hlb h2
    · exact Nat.zero_le _

end Dtai
