/-
Proofs/Path.lean — C05 core: a greedy trace-back through the exact matrix is an admissible path whose
cost is the value of the cell it starts from.
-/
import Dtaiverif.Proofs.Dist
import Dtaiverif.Model.Path

namespace Dtai

variable {α : Type} [LinearOrderedAddCommMonoidWithTop α]

/-- any path whose steps realise the recurrence is admissible and telescopes to the cell value -/
theorem isBack_valid (g : Grid α) : ∀ (path : List Cell) (q : Cell), g.IsBack (q :: path) →
    g.ValidRev (q :: path) ∧ g.costRev (q :: path) = D g (q.1+1) (q.2+1) := by
  intro path
  induction path with
  | nil =>
    intro q h
    obtain ⟨hok, hs, hD⟩ := h
    exact ⟨⟨hs, hok⟩, by rw [Grid.costRev, hD, add_zero]⟩
  | cons p rest ih =>
    intro q h
    obtain ⟨hok, hstep, hD, hrest⟩ := h
    obtain ⟨hv, hc⟩ := ih p hrest
    exact ⟨⟨hstep, hok, hv⟩, by rw [Grid.costRev, hc, hD]⟩

theorem D_ne_top_ok (g : Grid α) (I J : Nat) (h : D g (I+1) (J+1) ≠ ⊤) : g.ok I J = true := by
  by_contra hn
  exact h (D_succ_not_ok g I J (by simpa using hn))

theorem add_ne_top_left {a b : α} (h : a + b ≠ ⊤) : a ≠ ⊤ := by
  intro ha; rw [ha, top_add] at h; exact h rfl

theorem add_ne_top_right {a b : α} (h : a + b ≠ ⊤) : b ≠ ⊤ := by
  intro hb; rw [hb, add_top] at h; exact h rfl

theorem border0_cases (g : Grid α) (J : Nat) (h : D g 0 J ≠ ⊤) : D g 0 J = 0 ∧ J ≤ g.psi2b := by
  rw [D.eq_1] at h ⊢; unfold Grid.border0 at h ⊢
  by_cases hc : J ≤ g.psi2b
  · exact ⟨by rw [if_pos hc], hc⟩
  · rw [if_neg hc] at h; exact absurd rfl h

theorem borderCol_cases (g : Grid α) (I : Nat) (h : D g (I+1) 0 ≠ ⊤) : D g (I+1) 0 = 0 ∧ I+1 ≤ g.psi1b := by
  rw [D.eq_2] at h ⊢; unfold Grid.borderCol at h ⊢
  by_cases hc : I+1 ≤ g.psi1b
  · exact ⟨by rw [if_pos hc], hc⟩
  · rw [if_neg hc] at h; exact absurd rfl h

/-- The deterministic trace-back of `dtw.best_path` (first minimum of `[diag, up+pen, left+pen]`)
started in a cell with a finite value yields a path that realises the recurrence in every step. -/
theorem backtrack_isBack (g : Grid α) (h : g.NonNeg) : ∀ n I J fuel, I + J = n → n + 2 ≤ fuel →
    D g (I+1) (J+1) ≠ ⊤ →
    ∃ rest, backtrack (D g) g.pen fuel (I+1) (J+1) = (I, J) :: rest ∧ g.IsBack ((I, J) :: rest) := by
  intro n
  induction n using Nat.strong_induction_on with
  | _ n ih =>
    intro I J fuel hn hfuel hfin
    obtain ⟨fuel', rfl⟩ : ∃ f, fuel = f + 1 := ⟨fuel - 1, by omega⟩
    have hok := D_ne_top_ok g I J hfin
    have hD := D_succ_ok g I J hok
    have hmin : min (D g I J) (min (D g I (J+1) + g.pen) (D g (I+1) J + g.pen)) ≠ ⊤ :=
      add_ne_top_right (hD ▸ hfin)
    rw [backtrack]
    simp only [Nat.add_one_ne_zero, or_self, if_false, Nat.add_sub_cancel]
    by_cases hdiag : D g I J ≤ D g I (J+1) + g.pen ∧ D g I J ≤ D g (I+1) J + g.pen
    · -- diagonal predecessor
      simp only [hdiag, and_self, if_true]
      have hval : min (D g I J) (min (D g I (J+1) + g.pen) (D g (I+1) J + g.pen)) = D g I J :=
        min_eq_left (le_min hdiag.1 hdiag.2)
      rw [hval] at hmin hD
      cases I with
      | zero =>
        obtain ⟨hb, hJ⟩ := border0_cases g J hmin
        refine ⟨[], ?_, ⟨hok, Or.inl ⟨rfl, hJ⟩, by rw [hD, hb]⟩⟩
        cases fuel' <;> simp [backtrack]
      | succ I' =>
        cases J with
        | zero =>
          obtain ⟨hb, hI⟩ := borderCol_cases g I' hmin
          refine ⟨[], ?_, ⟨hok, Or.inr ⟨rfl, hI⟩, by rw [hD, hb]⟩⟩
          cases fuel' <;> simp [backtrack]
        | succ J' =>
          obtain ⟨rest, hbt, hib⟩ := ih (I' + J') (by omega) I' J' fuel' rfl (by omega) hmin
          exact ⟨(I', J') :: rest, by rw [hbt],
            ⟨hok, Or.inl ⟨rfl, rfl⟩, by rw [hD]; simp [Grid.stepPen], hib⟩⟩
    · simp only [hdiag, if_false]
      -- the minimum is one of the two penalised predecessors
      have hval : min (D g I J) (min (D g I (J+1) + g.pen) (D g (I+1) J + g.pen)) =
          min (D g I (J+1) + g.pen) (D g (I+1) J + g.pen) := by
        apply min_eq_right
        by_contra hc
        have hlt := lt_of_not_ge hc
        exact hdiag ⟨le_trans (le_of_lt hlt) (min_le_left _ _), le_trans (le_of_lt hlt) (min_le_right _ _)⟩
      rw [hval] at hmin hD
      by_cases hup : D g I (J+1) + g.pen ≤ D g (I+1) J + g.pen
      · -- upper predecessor
        simp only [hup, if_true]
        rw [min_eq_left hup] at hmin hD
        have hfinU : D g I (J+1) ≠ ⊤ := add_ne_top_left hmin
        cases I with
        | zero =>
          -- a zero border cell above implies a zero border cell diagonally: diagonal would be chosen
          exfalso
          obtain ⟨hb, hJ⟩ := border0_cases g (J+1) hfinU
          have hd0 : D g 0 J = 0 := by
            rw [D.eq_1]; unfold Grid.border0; rw [if_pos (by omega)]
          apply hdiag
          rw [hd0]
          exact ⟨add_nonneg (D_nonneg g h _ _) h.pen, add_nonneg (D_nonneg g h _ _) h.pen⟩
        | succ I' =>
          obtain ⟨rest, hbt, hib⟩ := ih (I' + J) (by omega) I' J fuel' rfl (by omega) hfinU
          exact ⟨(I', J) :: rest, by rw [hbt],
            ⟨hok, Or.inr (Or.inl ⟨rfl, rfl⟩), by rw [hD]; simp [Grid.stepPen], hib⟩⟩
      · -- left predecessor
        simp only [hup, if_false]
        rw [min_eq_right (le_of_not_ge hup)] at hmin hD
        have hfinL : D g (I+1) J ≠ ⊤ := add_ne_top_left hmin
        cases J with
        | zero =>
          exfalso
          obtain ⟨hb, hI⟩ := borderCol_cases g I hfinL
          have hd0 : D g I 0 = 0 := by
            cases I with
            | zero => rw [D.eq_1]; unfold Grid.border0; rw [if_pos (by omega)]
            | succ I' => rw [D.eq_2]; unfold Grid.borderCol; rw [if_pos (by omega)]
          apply hdiag
          rw [hd0]
          exact ⟨add_nonneg (D_nonneg g h _ _) h.pen, add_nonneg (D_nonneg g h _ _) h.pen⟩
        | succ J' =>
          obtain ⟨rest, hbt, hib⟩ := ih (I + J') (by omega) I J' fuel' rfl (by omega) hfinL
          exact ⟨(I, J') :: rest, by rw [hbt],
            ⟨hok, Or.inr (Or.inr ⟨rfl, rfl⟩), by rw [hD]; simp [Grid.stepPen], hib⟩⟩

/-- `dtw.best_path` on the exact matrix: admissible path from the requested cell whose cost equals the
value of that cell -/
theorem backtrack_valid (g : Grid α) (h : g.NonNeg) (I J : Nat) (hfin : D g (I+1) (J+1) ≠ ⊤) :
    ∃ rest, backtrack (D g) g.pen (I + J + 2) (I+1) (J+1) = (I, J) :: rest ∧
      g.ValidRev ((I, J) :: rest) ∧ g.costRev ((I, J) :: rest) = D g (I+1) (J+1) := by
  obtain ⟨rest, hbt, hib⟩ := backtrack_isBack g h (I+J) I J (I+J+2) rfl le_rfl hfin
  exact ⟨rest, hbt, isBack_valid g rest (I, J) hib⟩

/-- a warping path has at most `len1 + len2 - 1` cells: each step increases `i + j` -/
theorem validRev_length (g : Grid α) : ∀ (path : List Cell) (q : Cell), g.ValidRev (q :: path) →
    (q :: path).length ≤ q.1 + q.2 + 1 := by
  intro path
  induction path with
  | nil => intro q _; simp
  | cons p rest ih =>
    intro q hv
    obtain ⟨hstep, _, hrest⟩ := hv
    have := ih p hrest
    simp only [List.length_cons] at this ⊢
    rcases hstep with ⟨h1, h2⟩ | ⟨h1, h2⟩ | ⟨h1, h2⟩ <;> omega

end Dtai
