#!/bin/bash
# usage: tools/soak.sh "<seeds>" [tier]   runs every registered check for every seed; prints one line per run that is not OK
cd /verif
tier="${2:-quick}"
ok=0; bad=0
for sd in $1; do
  for i in $(seq -w 1 20); do
    out=$(VERIF_SEED=$sd VERIF_TIER=$tier ./check C$i 2>&1); rc=$?
    if [ $rc -ne 0 ] || echo "$out" | grep -q "VIOLATION"; then bad=$((bad+1)); echo "seed=$sd C$i rc=$rc"; echo "$out" | grep -E "VIOLATION|FAIL|INFRA|Error" | head -3
    else ok=$((ok+1)); fi
  done
done
echo "soak: ok=$ok bad=$bad"
