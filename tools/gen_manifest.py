#!/usr/bin/env python3
"""Regenerates MANIFEST.json from the table below (keeps it valid and current)."""
import json, os
HERE = os.path.dirname(os.path.dirname(os.path.abspath(__file__)))
props = [json.loads(l) for l in open(os.path.join(HERE, "properties.jsonl"))]

CLAIMED = {
 "C01": dict(
   text="Lean theorems (all sizes/windows/psi/penalties/max_step, any ordered cost monoid with top): the kernel model of dtw.distance returns dtwSpec; dtwSpec is a lower bound of every admissible complete path's cost and is attained (or is infinity); infinite iff no finite admissible path / length difference exceeded. Model compared bit-exactly with dtw.distance (lists, array.array, NumPy, NumPy absent, custom inner distance).",
   note="Trusted: Lean kernel + 3 standard axioms; harness. The kernel is modelled on the full matrix; the two-row rolling buffer indexing of dtw.distance is tied by correspondence on outputs, not modelled. Double arithmetic is exact only on the integer lattice the harness draws inputs from; the result transform (sqrt) is applied outside the model.",
   technique="Lean 4 proof: induction over paths and rows, refinement of the pruned kernel to the recurrence; differential correspondence", ref="§5, §6 C01"),
 "C02": dict(
   text="Lean theorems: both engines are the same kernel model under decoders that are proved equal for every setting expressible in both (None/0 encodings); with a valid bound or no threshold the engines' different final check is immaterial. Correspondence: dtw.distance vs distance_fast vs direct dtw_distance*(ctypes on the repo's C sources) vs model, ndim 1..3, both inner distances, bit-exact on the lattice.",
   note="Trusted: as C01; ctypes mirror of DTWSettings. 'few ulps' clause validated, not proved. ndim-Euclidean (sqrt per point) covered under C11. Known findings C02-MLD0, C02-PRUNE-INVALID-UB listed in known_findings.json.",
   technique="Lean 4 proof (decoder equality, shared kernel refinement) + differential correspondence", ref="§6 C02"),
 "C03": dict(
   text="Lean theorem matP_rel (soundness of the sc/ec/smaller_found/break bookkeeping incl. psi borders): every cell of the pruned matrix over-estimates the recurrence and equals it when <= threshold; corollaries: below threshold = unbounded distance, above = infinity, never another number, use_pruning with any valid upper bound = pruning disabled incl. equality. Correspondence with thresholds placed around the true distance in both engines.",
   note="Trusted: as C01. Thresholds inside the rounding neighbourhood of the true distance are excluded (property). Validity of the Euclidean bound is C09.",
   technique="Lean 4 proof: loop invariant over the inner/outer DP loops (Dead/Rel relations) + differential correspondence", ref="§5 pruning lemma, §6 C03"),
 "C04": dict(
   text="Lean theorems: shape; every cell of the matrix equals the recurrence D (hence by C01 the optimum over partial paths) when its optimum is <= threshold and stays above it otherwise; out-of-band cells infinite; returned distance = distance-only routine; compact C layout: rows stay inside their row of the advertised buffer, indices injective, stored columns = left neighbour + Python band (all l1,l2,window); expansion reads each cell from its compact index. Correspondence: Python matrix vs model cell-exact (incl. -1 marking); C full, C compact + dtw_expand_wps, random slices via dtw_expand_wps_slice with red zones; dtw_wps_parts/loc/loc_columns/width/length enumerated completely for l<=9 (16 thorough).",
   note="Trusted: as C01 + ctypes struct mirrors. Region-wise index arithmetic of the C kernel loops is tied through the exhaustive layout comparison and cell-wise matrix comparison, not proved line by line. -1 marking when no admissible end exists (distance inf) is treated as unspecified.",
   technique="Lean 4 proof (refinement + omega layout arithmetic) + differential correspondence", ref="§6 C04"),
 "C05": dict(
   text="Lean theorems: any trace-back whose steps realise the recurrence (whatever tie-breaking) is a contiguous monotone path with steps (1,1),(1,0),(0,1), in band/below max_step, starting in the psi-relaxed corner, whose cost incl. penalties equals the cell value; dtw.best_path's deterministic trace-back from any finite cell (custom start included) is such a path; from an optimal end cell its cost is the DTW distance; path length <= len1+len2-1. Correspondence: every path from warping_path, warping_path_fast, best_path on Python/C matrices, best_path_compact, best_path2, warp, custom start (Python, C dtw_best_path_customstart), ndim is re-validated by an independent definition, decided by the model relation IsBack and (Python routes) compared exactly with the model's trace-back.",
   note="Trusted: as C01. The trace-back is modelled on the exact matrix; the C region walk over the compact layout is tied by correspondence. Selection of the end cell under psi follows the -1 marking; known finding C05-BESTPATH-NOPSI (best_path(paths) without settings, one-sided psi, corner-only marking).",
   technique="Lean 4 proof (telescoping over the recurrence, strong induction on the trace-back) + differential correspondence", ref="§6 C05"),
 "C06": dict(
   text="Lean theorems: the C double loop and the Python loops enumerate the same pairs in the same (row-major) order; _distance_matrix_length and dtw_distances_length equal the number of selected pairs for every valid block (incl. blocks selecting no pair, rectangular blocks, no block: n(n-1)/2); distance_array_index addresses the pair's element; slots are assigned consecutively. Correspondence: all blocks on n<=5 (7 thorough, sampled above 4) x compact/square/only_triu x Python/C x list/2-D/3-D containers x ndim with tagged series, lengths via Python/Cython/C, random settings vs single-pair distances.",
   note="Trusted: as C01; NumPy fancy indexing/triu_indices semantics in distances_array_to_matrix (validated, not modelled); the per-pair kernel is C01/C02.",
   technique="Lean 4 proof (list combinatorics, omega) + exhaustive-small differential correspondence", ref="§6 C06"),
 "C07": dict(
   text="Lean theorems: iterations of the parallel loops write disjoint consecutive slot ranges, slot k receives the k-th pair of the serial enumeration, and ANY permutation of the write events (any thread count, chunking, schedule, interleaving) yields the serial output array; plus obligations on the plan re-extracted from dd_dtw_openmp.c on every run (all assigned variables private or block-local; loop header, start column and slot expressions equal the modelled ones; prepare loop as transcribed). Correspondence: six exported *_parallel routines (ctypes) with 1,2,3,7,16,64 threads vs serial bit-exact; Python API OpenMP / multiprocessing (C and Python kernels) vs serial incl. asymmetric psi.",
   note="Partial by nature: re-entrancy of the real kernel (no hidden statics), the OpenMP runtime honouring private(), and multiprocessing.Pool.map order preservation are assumptions; real interleavings are only sampled. The translator handles a C subset and fails closed.",
   technique="Lean 4 proof (permutation invariance of writes to distinct slots) + translator-regenerated plan obligations (decide) + differential correspondence", ref="§6 C07"),
 "C08": dict(
   text="Lean theorems (all l1,l2>=1, all windows>=1 / 0, all rows and columns of the loop range): every read/write offset of the two-row rolling buffer of dtw_distance* stays inside its own row of `length` doubles (hence inside the 2*length allocation), incl. the last-row psi scan; the compact warping-paths buffer of the advertised size suffices and rows never overlap; best paths have at most len1+len2-1 entries; distance-matrix routines write exactly slots 0..length-1. Obligation regenerated on every run: the assignments to the index variables, the malloc size, the loop headers and every subscript of the buffer extracted from the four dtw_distance* functions in dd_dtw.c are exactly the transcribed ones. Failing-input search / validation: ASan+UBSan battery over all exported routines with exact-size malloc'ed buffers, red-zone canaries around caller buffers.",
   note="Partial: proof covers the index arithmetic of the models; reads outside buffers are observable only through the sanitizers; UB beyond index arithmetic (signed overflow at astronomically large lengths, malloc failure paths) is not modelled; the region walks of dtw_warping_paths/dtw_best_path over the compact layout are tied by layout theorems + correspondence (C04/C05), not extracted line by line.",
   technique="Lean 4 proof (omega over the index expressions) + translator-regenerated index obligations (decide) + sanitizer battery as failing-input search", ref="§6 C08"),
 "C09": dict(
   text="Lean theorems: DTW <= Euclidean distance (the diagonal-then-border alignment is admissible for every window >= 1 and any psi; no max_step; no penalty or equal lengths); any row-wise lower bound of the point costs over the band sums to a lower bound of DTW (any penalty, no relaxation of series 1); the Keogh envelope window is exactly the DTW band and each Keogh term (squared/absolute, any signs) is such a row bound; use_pruning with the Euclidean threshold returns the unbounded distance. Correspondence: lb_keogh (Python, C), ed.distance(_fast), ub_euclidean(_ndim), ed_cc.distance_ndim, distance(only_ub) in both engines vs the model (exact), sandwich evaluated on the implementation.",
   note="Trusted: as C01. Envelope theorem is stated for integer data (the lattice used by the correspondence); real-valued data would need the same inequality over an ordered field. ndim LB_Keogh does not exist in the library.",
   technique="Lean 4 proof (explicit admissible path; induction over paths) + differential correspondence", ref="§6 C09"),
 "C10": dict(
   text="Lean theorems on dtwSpec (which both engines return by C01/C02): non-negativity; symmetry under swapping the series together with the per-series psi entries (transpose of the recurrence); one relaxation lemma giving monotonicity in window, psi, max_step (never increases) and penalty (never decreases); self-distance zero; window=1 on equal lengths equals ED. Correspondence: the laws evaluated on related pairs of calls of both engines, each call also compared with the Lean spec.",
   note="Trusted: as C01.", technique="Lean 4 proof (pointwise induction on the recurrence) + law evaluation on the implementation", ref="§6 C10"),
 "C11": dict(
   text="Lean: the kernels see only cost(i,j); the multivariate routines are the same kernels at the vector cost over the flattened row-major layout, so C01-C05/C09/C10 hold verbatim for every ndim; for ndim=1 the vector cost is the univariate squared difference (grid equality); the multivariate Euclidean distance bounds multivariate DTW and is a sound pruning threshold. Correspondence: dtw_ndim.distance(_fast), warping_paths(_fast), warping_path, ub_euclidean, distance_matrix(_fast) on list-of-2-D and 3-D containers, d in 1..4, vs the model (exact, squared inner distance), vs an independent float DP (Euclidean inner distance) and vs the univariate routines for d=1.",
   note="Trusted: as C01. 'euclidean' inner distance with ndim>1 involves a sqrt per point: compared with an independent float reference within 1e-9 and between engines within 64 ulp, not exactly.",
   technique="Lean 4 proof (instances of the generic-cost theorems) + differential correspondence", ref="§6 C11"),
 "C12": dict(
   text="Lean theorems over any linearly ordered field: the mean lies within the range of the averaged points; identical values are a fixed point; the mean minimises the sum of squared deviations, hence for the alignments used by the step the summed squared deviation does not increase (fiberwise decomposition over positions); with C01 (any admissible path bounds the optimum) and C05 (the traced path is optimal) this gives the objective non-increase chain; unselected series are filtered out of the association table; bit mask packing. Executable model of one step (exact sums/counts) compared exactly with Python dba, dba(use_c) and C dtw_dba (when optimal paths are unique, decided by counting optimal paths); range / fixed-point / mask / objective / loop-bound laws evaluated on the implementation.",
   note="The final chain Σdtw²(c') <= Σdtw²(c) is stated as three theorems (two over the cost monoid, one over the field) rather than one combined statement over WithTop K; float summation order differences beyond the integer lattice are not modelled.",
   technique="Lean 4 proof (ordered-field arithmetic, list sums) + exact rational correspondence", ref="§6 C12"),
 "C13": dict(
   text="Lean theorems: with free start/end columns the last-row cell at end position e equals the minimum over start positions b<=e of the plain penalised DTW cost between the query and series[b..e] (shifting admissible paths between the alignment grid and the sub-problems, all sizes); the traced path of a match is admissible and realises the value; the k-best iterator, modelled as a state machine over the working copy (value / rejected / blocked slots), keeps in every reachable state: distinct end points, non-decreasing value order, length limits, and - without overlap - at most one shared boundary sample between any two matches. Correspondence: matching function (Python, C, ndim) vs model and vs min over sub-problem specs; best match / k-best matches re-validated; iterator compared exactly with the executable model; repeated and interleaved iteration.",
   note="The invariants are proved for the relational model Reach; the executable kbestRun used for the correspondence follows the same steps (not linked by a Lean theorem). max_rangefactor / knee variants of the iterator are not modelled.",
   technique="Lean 4 proof (path shifting; invariant induction over reachable iterator states) + differential correspondence", ref="§6 C13"),
 "C14": dict(
   text="Lean theorems: for every candidate list (ties/duplicates), k>=1, user bound, with or without the LB skip, the bounded scan (LB skip, thresholded distance call, k-best store, shrinking bound) returns a sorted list of genuine qualifying candidates of length <= k such that every unreported qualifying candidate is at least as far as every reported one and the report is then full - i.e. the k smallest distances in ascending order (indices up to ties); a prefix of a stored k0-best answer is a k-best answer; hence every answer along every query history satisfies the specification of a fresh object's answer. Correspondence: kbest_matches/best_match/align vs exhaustive scan, vs the executable model on exact distances and lower bounds, histories vs fresh objects, use_lb, use_c, ndim, max_dist/max_value.",
   note="heapq modelled by its contract; lb<=dist (C09) and the threshold behaviour of the distance call (C03) enter as hypotheses; k=None branch validated by correspondence only.",
   technique="Lean 4 proof (fold invariant over the candidate list; object state machine) + differential correspondence", ref="§6 C14"),
}
PENDING_REASON = "check under construction in this round (not yet registered); the technique applies, see DESIGN.md §6"

man = {"version": 1,
 "setup_cmd": "python3 translate/omp_plan.py && python3 translate/c_index.py && cd lean && lake build Dtaiverif dvdriver",
 "hooks": {"guard": "DTAIDISTANCE_VERIF",
           "enable": "no source hooks are needed: checks observe public APIs and exported C symbols of a fresh out-of-tree build of /repo's working tree",
           "baseline_off_cmd": "cd /repo && /venv/bin/python setup.py build_ext --inplace -q && /venv/bin/python -m pytest -ra -q -p no:cacheprovider --timeout=900 --continue-on-collection-errors",
           "source_commits": [], "add_only": True},
 "engines": [
   {"name": "lean-model", "path": "lean/", "serves_properties": sorted(CLAIMED), "kind_free_text": "Lean 4 model + theorems (lake project), compiled line-protocol driver dvdriver"},
   {"name": "harness", "path": "harness/", "serves_properties": sorted(CLAIMED), "kind_free_text": "Python correspondence harness: builds /repo out of tree, runs implementation (Python API, Cython API, ctypes on the C sources) and Lean model on the same inputs, evaluates the property with the Lean spec as oracle"}],
 "checks": [], "not_applicable": [],
 "notes": "See DESIGN.md. Every check = proof gate (lake build + source/axiom audit of the property's theorems) + correspondence of the executable Lean model with the real code + failing-input search. known_findings.json lists genuine defects (fixed / recorded)."}
for p in props:
    pid = p["id"]
    if pid in CLAIMED:
        c = CLAIMED[pid]
        man["checks"].append({"property_id": pid, "quick_cmd": "./check %s --tier quick" % pid,
            "thorough_cmd": "./check %s --tier thorough" % pid, "evidence_file": "evidence/%s.json" % pid,
            "replay_cmd_template": "./check %s --replay {path}" % pid, "engine": "lean-model",
            "level_claimed": {"category": c.get("category", "proof"), "text": c["text"], "design_ref": c["ref"]},
            "level_note": c["note"], "technique": c["technique"]})
    else:
        man["not_applicable"].append({"property_id": pid, "reason": PENDING_REASON})
json.dump(man, open(os.path.join(HERE, "MANIFEST.json"), "w"), indent=1)
print("claimed:", sorted(CLAIMED))
