#!/usr/bin/env python3
"""usage: tools/mutant_prompt.py <round> <property id>   prints the prompt given to a seeding sub-agent.
The prompt contains ONLY the property text, the names of the files its anchors mention, the area to work in and a
one-line description of earlier seeded changes (so that a new mechanism is chosen); nothing else from /verif."""
import glob
import json
import os
import sys

HERE = os.path.dirname(os.path.abspath(__file__))
props = {json.loads(l)['id']: json.loads(l) for l in open(os.path.join(HERE, '..', 'properties.jsonl'))}
base = json.load(open(os.path.join(HERE, 'prompts', 'base.json')))
AREAS = json.load(open(os.path.join(HERE, 'prompts', 'areas.json')))

rnd, pid = sys.argv[1], sys.argv[2]
p = props[pid]
wt = "/tmp/wt%s_%s" % (rnd, pid)
earlier = []
for d in sorted(glob.glob(os.path.join(HERE, '..', 'seeded', pid + '-*'))):
    m = json.load(open(os.path.join(d, 'meta.json')))
    earlier.append("   - %s: %s" % (m['name'].replace('-', ' '), m['needs_to_manifest']))
area = AREAS[rnd][pid]
print(f"""You are helping test a verification framework by producing a realistic, subtle BUG (a "seeded mutant") in a copy of the Python/C library wannesm/dtaidistance (DTW time-series distances).

Your scratch copy of the repository is the git worktree at {wt} (work ONLY there; never touch /repo or /verif; do not read anything under /verif). Python to use: /venv/bin/python. Source files that implement the property (paths relative to {wt}): {base['src'][pid]}. IMPORTANT: /venv has an editable install pointing at /repo/src, so to import YOUR copy run python with PYTHONPATH={wt}/src, and first build the C extension in your worktree: cd {wt} && /venv/bin/python setup.py build_ext --inplace -q (about 30 s; repeat after every change to .c/.pyx files). Verify with PYTHONPATH={wt}/src /venv/bin/python -c "import dtaidistance; print(dtaidistance.__file__)". Do not use `git stash` (the stash is shared between worktrees); to compare before/after use `git diff -- src > patch.diff`, `git apply -R patch.diff` and `git apply patch.diff`.

The property your change must BREAK:

Property {pid} — {p['title']}.
{p['statement']}
Quantified over: {p['quantifier']['text']}.

PUT YOUR CHANGE IN THIS AREA (pick one): {area}

Earlier seeded changes for this property (already known — do not repeat their mechanism):
{chr(10).join(earlier)}

Requirements:
1. A small source change (a few lines) in your worktree, in the area named above, that makes the property FALSE for some inputs/histories while everything still imports/compiles.
2. The existing tests must still pass: run  cd {wt} && PYTHONPATH={wt}/src /venv/bin/python -m pytest -q -p no:cacheprovider --timeout=900 {base['tests'][pid]}  BEFORE and AFTER your change and compare the sets of passing tests (your change must not turn a passing test into a failing one; some tests are skipped in this environment, that is fine).
3. The bug must NOT be exposed by ordinary use on typical inputs. It needs something specific to manifest. It should read like a plausible refactoring/optimisation mistake.
4. Demonstration: a standalone script {wt}/demo_{pid}.py that (run with PYTHONPATH={wt}/src /venv/bin/python demo_{pid}.py) exits NON-zero WITH your change and 0 WITHOUT it, checking the property itself (from its statement, with an independent oracle where needed) over a deterministic seeded set of inputs. It must be a .py file with exactly that name.
5. Save the change: cd {wt} && git diff -- src > {wt}/patch.diff (only the library change, no build products). Leave the worktree WITH the change applied and demo + patch.diff present. Do not commit.
6. If, while writing the demo, you find that the UNMODIFIED code already violates the property on some input, say so in your report with the exact call (and keep that input out of the demo).

Report back (concisely): the diff, the specific conditions needed, the demo output with and without the change, and confirmation about the tests.""")
