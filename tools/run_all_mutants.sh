#!/bin/bash
# applies every seeded change to /repo in turn, runs the quick check of its property, reverts; prints the ones NOT caught
# usage: tools/run_all_mutants.sh [regex on directory names] [time box in seconds]
cd /verif
filter="${1:-.}"; box="${2:-0}"; t0=$(date +%s)
miss=0; tot=0; skipped=0
for d in seeded/*/; do
  echo "$d" | grep -Eq "$filter" || continue
  if [ "$box" -gt 0 ] && [ $(( $(date +%s) - t0 )) -gt "$box" ]; then skipped=$((skipped+1)); continue; fi
  pid=$(python3 -c "import json;print(json.load(open('$d/meta.json'))['property'])")
  ( cd /repo && git apply "/verif/$d/patch.diff" ) || { echo "NOAPPLY $d"; miss=$((miss+1)); continue; }
  out=$(./check "$pid" 2>&1); rc=$?
  ( cd /repo && git checkout -- . )
  tot=$((tot+1))
  if [ $rc -ne 1 ] || ! echo "$out" | grep -q "VIOLATION property=$pid"; then echo "MISSED $d rc=$rc"; miss=$((miss+1)); fi
done
for t in translate/*.py; do python3 $t; done
echo "mutants run=$tot not-caught=$miss skipped-by-time-box=$skipped"
