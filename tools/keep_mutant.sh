#!/bin/bash
# usage: tools/keep_mutant.sh <worktree> <prop id> <name> "<needs>" "<caught by>"
# verifies demo fails with / passes without the patch, a test subset is unchanged, then stores it under seeded/
set -u
wt="$1"; pid="$2"; name="$3"; needs="$4"; caught="$5"
cd "$wt" || exit 9
demo=$(ls demo_*.py | head -1)
export PYTHONPATH="$wt/src"
with_rc=0; /venv/bin/python "$demo" > /tmp/demo_with.log 2>&1 || with_rc=$?
git apply -R patch.diff || { echo 'cannot reverse patch'; exit 8; }
if git diff --quiet HEAD -- src/DTAIDistanceC src/dtaidistance/*.pyx 2>/dev/null; then :; fi
needs_build=$(grep -c "DTAIDistanceC\|\.pyx" patch.diff)
if [ "$needs_build" -gt 0 ]; then /venv/bin/python setup.py build_ext --inplace -q > /tmp/mut_build.log 2>&1; fi
without_rc=0; /venv/bin/python "$demo" > /tmp/demo_without.log 2>&1 || without_rc=$?
/venv/bin/python -m pytest -q -p no:cacheprovider --timeout=900 tests/test_dtw.py tests/test_warping.py tests/test_bugs.py tests/test_cython.py 2>&1 | grep -E "passed|failed|error" | tail -1 > /tmp/t_without.log
git apply patch.diff
if [ "$needs_build" -gt 0 ]; then /venv/bin/python setup.py build_ext --inplace -q > /tmp/mut_build.log 2>&1; fi
/venv/bin/python -m pytest -q -p no:cacheprovider --timeout=900 tests/test_dtw.py tests/test_warping.py tests/test_bugs.py tests/test_cython.py 2>&1 | grep -E "passed|failed|error" | tail -1 > /tmp/t_with.log
echo "demo with patch rc=$with_rc, without rc=$without_rc"; echo "tests without: $(cat /tmp/t_without.log)"; echo "tests with:    $(cat /tmp/t_with.log)"
if [ "$with_rc" -ne 0 ] && [ "$without_rc" -eq 0 ]; then
  d=/verif/seeded/$pid-$name; mkdir -p "$d"; cp patch.diff "$d/patch.diff"; cp "$demo" "$d/$demo"
  python3 - "$d" "$pid" "$name" "$needs" "$caught" "$with_rc" <<'PY'
import json,sys
d,pid,name,needs,caught,rc=sys.argv[1:7]
json.dump({"property":pid,"name":name,"needs_to_manifest":needs,"caught_by":caught,
 "confirmed":{"demo_rc_with_patch":int(rc),"demo_rc_without_patch":0,
   "tests_without":open('/tmp/t_without.log').read().strip(),"tests_with":open('/tmp/t_with.log').read().strip()},
 "how_to_run":"git -C /repo apply seeded/%s-%s/patch.diff && ./check %s ; git -C /repo checkout -- ."%(pid,name,pid)},
 open(d+'/meta.json','w'),indent=1)
PY
  echo "kept in $d"
else
  echo "NOT kept"
fi
