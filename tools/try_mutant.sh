#!/bin/bash
# usage: tools/try_mutant.sh <patch> <check ids...>   applies the patch to /repo, runs the checks, reverts
set -u
patch="$1"; shift
cd /repo && git apply "$patch" || { echo "patch does not apply"; exit 9; }
cd /verif
for id in "$@"; do
  out=$(./check "$id" 2>&1); rc=$?
  echo "== $id rc=$rc"; echo "$out" | grep -E "VIOLATION|KNOWN|\[OK\]|\[FAIL\]|INFRA" | cut -c1-300
done
cd /repo && git checkout -- . && git status --short | grep -v "^??"; cd /verif && for t in translate/*.py; do python3 $t; done
