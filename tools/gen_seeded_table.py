#!/usr/bin/env python3
"""Rewrites the table of seeded changes in DESIGN.md (between the SEEDED-TABLE markers) from seeded/*/meta.json."""
import glob, json, os, re
root = os.path.dirname(os.path.dirname(os.path.abspath(__file__)))
rows = ["| property | directory | needs, to manifest | caught by |", "|---|---|---|---|"]
for f in sorted(glob.glob(os.path.join(root, "seeded", "*", "meta.json"))):
    m = json.load(open(f))
    rows.append("| %s | `seeded/%s-%s` | %s | %s |" % (m["property"], m["property"], m["name"],
                m["needs_to_manifest"].replace("|", "\\|"), m["caught_by"].replace("|", "\\|")))
p = os.path.join(root, "DESIGN.md")
s = open(p).read()
a, b = "<!-- SEEDED-TABLE-BEGIN -->", "<!-- SEEDED-TABLE-END -->"
if a not in s:
    # first use: replace the existing table that follows the "Seeded changes" paragraph
    m = re.search(r"(\| property \| directory \| needs, to manifest \| caught by \|\n\|---\|---\|---\|---\|\n(?:\|.*\n)+)", s)
    s = s[:m.start()] + a + "\n" + m.group(1) + b + "\n" + s[m.end():]
i, j = s.index(a) + len(a), s.index(b)
s = s[:i] + "\n" + "\n".join(rows) + "\n" + s[j:]
open(p, "w").write(s)
print(len(rows) - 2, "seeded changes")

# ---- lists of repaired defects and recorded findings, from known_findings.json
kf = json.load(open(os.path.join(root, "known_findings.json")))
s = open(p).read()
for tag, lines in (("FIXED-LIST", ["* `%s`" % x for x in kf["fixed"]] + ["", "(%d repairs)" % len(kf["fixed"])]),
                   ("FINDINGS-LIST", ["* **%s** (%s): %s" % (f["id"], f["property"], f["what"]) for f in kf["findings"]])):
    a, b = "<!-- %s-BEGIN -->" % tag, "<!-- %s-END -->" % tag
    if a in s:
        i, j = s.index(a) + len(a), s.index(b)
        s = s[:i] + "\n" + "\n".join(lines) + "\n" + s[j:]
open(p, "w").write(s)
print(len(kf["fixed"]), "repairs,", len(kf["findings"]), "findings")
