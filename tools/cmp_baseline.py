#!/usr/bin/env python3
"""Compare a junit xml of the repository's test suite with BASELINE.json's stable_pass list."""
import json, sys, xml.etree.ElementTree as ET
base = set(json.load(open('/root/.vp/BASELINE.json'))['stable_pass'])
t = ET.parse(sys.argv[1]).getroot()
passed = set()
for tc in t.iter('testcase'):
    name = tc.get('classname') + '::' + tc.get('name')
    if not any(ch.tag in ('failure', 'error', 'skipped') for ch in tc):
        passed.add(name)
print('baseline', len(base), 'passed now', len(passed), 'missing from pass:', sorted(base - passed), 'newly passing:', len(passed - base))
sys.exit(0 if base <= passed else 1)
