"""Entry point: `./check <property> [--tier quick|thorough] [--replay file]`.

Flow (DESIGN §3.7): proof gate -> build code under test -> correspondence (model vs implementation)
-> property evaluation on the implementation (failing-input search) -> verdict -> evidence.
Exit 0: property held on everything explored; 1: VIOLATION line printed; 2: infrastructure problem.
"""
import argparse
import importlib
import json
import os
import random
import sys
import time
import traceback

from . import common
from .common import Infra, log


from .core import Result, Ctx


def supervise(argv):
    """run the check in a child process; when the child is killed by a signal (the code under test crashed the
    interpreter) or runs out of its limits, report that as the violation it is, with the last breadcrumb as input"""
    import subprocess
    import tempfile
    ap = argparse.ArgumentParser()
    ap.add_argument("pid")
    ap.add_argument("--tier", default=os.environ.get("VERIF_TIER", "quick"))
    ap.add_argument("--replay", default=None)
    args = ap.parse_args(argv)
    pid = args.pid.upper()
    tier = args.tier if args.tier in ("quick", "thorough") else "quick"
    seed = int(os.environ.get("VERIF_SEED", "0") or 0)
    fd, crumb = tempfile.mkstemp(prefix="dv_crumb_", suffix=".json")
    os.close(fd)
    env = dict(os.environ, VERIF_CHILD="1", VERIF_BREADCRUMB=crumb)
    t0 = time.time()
    try:
        r = subprocess.run([sys.executable, "-m", "harness.main"] + list(argv), env=env, cwd=common.VERIF,
                           stderr=subprocess.PIPE, text=True)
        sys.stderr.write(r.stderr[-20000:] if len(r.stderr) > 20000 else r.stderr)
        rc = r.returncode
        if rc in (0, 1, 2):
            return rc
        # abnormal end: signal (negative), 128+signal from a shell, or an interpreter abort
        last = None
        try:
            txt = open(crumb).read()
            last = json.loads(txt) if txt.strip() else None
        except (OSError, ValueError):
            last = None
        sig = -rc if rc < 0 else (rc - 128 if rc > 128 else rc)
        info = {"property": pid, "kind": "crash", "seed": seed, "tier": tier,
                "what": "the check process was killed (signal %s) while code of the repository ran in-process" % sig,
                "violation": None if last is None else {"clause": "the routine crashed the interpreter (signal %s)" % sig,
                                                        "input": last},
                "no_longer_checks": None if last is not None else
                [{"correspondence": "model vs implementation", "why": "check process died with signal %s before finishing" % sig}],
                "stderr_tail": r.stderr[-1500:]}
        path = common.write_replay(pid, seed, info)
        print("VIOLATION property=%s replay=%s%s" % (pid, os.path.relpath(path, common.VERIF),
                                                      "" if last is not None else " no-failing-input-found"))
        try:
            idx = common.load_index()[pid]
            common.write_evidence(pid, tier, seed, idx.get("level", "proof"),
                                  {"obligations": len(idx["theorems"]), "discharged": 0, "theorems": idx["theorems"],
                                   "evaluations": 0, "distinct_nontrivial": 0,
                                   "rule": "check process crashed (signal %s); see the replay file" % sig,
                                   "samples": [last] if last is not None else [], "exhaustive": False,
                                   "checker_cmd": "cd lean && lake build", "trusted_base": ["see DESIGN.md"]},
                                  idx.get("assumptions", []), time.time() - t0, 1)
        except Exception:
            traceback.print_exc()
        log("[FAIL] %s tier=%s seed=%d check process crashed (signal %s)" % (pid, tier, seed, sig))
        return 1
    finally:
        try:
            os.unlink(crumb)
        except OSError:
            pass


def main(argv=None):
    if argv is None:
        argv = sys.argv[1:]
    if not os.environ.get("VERIF_CHILD"):
        return supervise(argv)
    ap = argparse.ArgumentParser()
    ap.add_argument("pid")
    ap.add_argument("--tier", default=os.environ.get("VERIF_TIER", "quick"))
    ap.add_argument("--replay", default=None)
    args = ap.parse_args(argv)
    pid = args.pid.upper()
    tier = args.tier if args.tier in ("quick", "thorough") else "quick"
    seed = int(os.environ.get("VERIF_SEED", "0") or 0)
    t0 = time.time()
    try:
        mod = importlib.import_module("harness.props." + pid.lower())
        gate = common.proof_gate(pid, thorough=(tier == "thorough"))
        lib = common.ensure_build()
        common.use_build(lib)
        if args.replay:
            # re-execute the run that produced the replay file (same seed and tier: the generators are deterministic)
            # against the CURRENT working tree and report whether the recorded violation is still there
            rep = json.load(open(args.replay))
            ctx = Ctx(pid, int(rep.get("seed", seed)), rep.get("tier", tier))
            res = mod.run(ctx)
            want = rep.get("violation")
            if want is None:
                print("replay: %s names what no longer checks (no failing input was found): %s"
                      % (args.replay, json.dumps(rep.get("no_longer_checks"), default=str)[:600]))
                return 1 if ((not gate["ok"]) or res.mismatches or res.violations) else 0
            same = [v for v in res.violations if json.dumps(v, sort_keys=True, default=str) ==
                    json.dumps(want, sort_keys=True, default=str)]
            clause = [v for v in res.violations if v.get("clause") == want.get("clause")]
            if same:
                print("replay: reproduced on the current tree: %s" % json.dumps(want, default=str)[:800])
                return 1
            if clause:
                print("replay: the same clause is violated on the current tree (different details): %s"
                      % json.dumps(clause[0], default=str)[:800])
                return 1
            print("replay: not reproduced on the current tree (%d violations of other clauses)" % len(res.violations))
            return 1 if res.violations else 0
        ctx = Ctx(pid, seed, tier)
        res = mod.run(ctx)
    except Infra as e:
        log("INFRA: %s" % e)
        return 2
    except Exception:
        traceback.print_exc()
        return 2

    wall = time.time() - t0
    rc = 0
    for fid, (text, n) in sorted(res.known.items()):
        print("KNOWN-FINDING: property=%s %s [%s, %d cases]" % (pid, text, fid, n))
    nviol = len(res.violations)
    stale = os.path.join(common.VERIF, "replays", "%s-%s.json" % (pid, seed))
    if os.path.exists(stale):
        os.unlink(stale)
    if res.violations:
        v = res.violations[0]
        path = common.write_replay(pid, seed, {"property": pid, "kind": "failing-input", "seed": seed, "tier": tier,
                                               "violation": v, "more": res.violations[1:10],
                                               "how_to_replay": "./check %s --replay <this file>" % pid})
        print("VIOLATION property=%s replay=%s" % (pid, os.path.relpath(path, common.VERIF)))
        rc = 1
    elif (not gate["ok"]) or res.mismatches:
        broken = []
        if not gate["ok"]:
            broken += [{"theorem": f["theorem"], "why": f["why"]} for f in gate["failed"]]
        if res.mismatches:
            broken.append({"correspondence": "model vs implementation", "count": len(res.mismatches),
                           "first": res.mismatches[:5]})
        path = common.write_replay(pid, seed, {"property": pid, "kind": "no-failing-input-found", "seed": seed,
                                               "tier": tier, "no_longer_checks": broken,
                                               "search": "property evaluated on the implementation for all %d "
                                                         "generated cases incl. the mismatching ones: no failing input" % res.evaluations,
                                               "gate_log": gate.get("build_log_tail", "")[-1500:]})
        print("VIOLATION property=%s replay=%s no-failing-input-found" % (pid, os.path.relpath(path, common.VERIF)))
        nviol = 1
        rc = 1

    idx = common.load_index()[pid]
    cov = {
        "obligations": gate["obligations"], "discharged": gate["discharged"],
        "checker_cmd": "cd lean && lake build %s && lake env lean <#print axioms of each theorem>%s"
                       % (gate["module"], " && lake env leanchecker <modules>" if tier == "thorough" else ""),
        "trusted_base": ["Lean 4.33.0 kernel", "Mathlib v4.33.0 (checked library)",
                         "axioms: propext, Classical.choice, Quot.sound only (audited per theorem)",
                         "hand-written model tied to /repo by this run's correspondence check",
                         "harness (generators, canonicalisation, diff)"] + idx.get("trusted_extra", []),
        "theorems": idx["theorems"],
        "axioms": gate.get("axioms", {}),
        "evaluations": res.evaluations,
        "distinct_nontrivial": len(res.nontrivial),
        "rule": res.rule,
        "samples": res.samples,
        "correspondence_mismatches": len(res.mismatches),
        "known_findings_hit": {k: n for k, (_t, n) in res.known.items()},
        "exhaustive": bool(res.coverage.get("exhaustive", False)),
    }
    cov.update(res.coverage)
    common.write_evidence(pid, tier, seed, idx.get("level", "proof"), cov, res.assumptions + idx.get("assumptions", []),
                          wall, nviol)
    log("[%s] %s tier=%s seed=%d evaluations=%d nontrivial=%d mismatches=%d violations=%d gate=%d/%d wall=%.1fs"
        % ("OK" if rc == 0 else "FAIL", pid, tier, seed, res.evaluations, len(res.nontrivial),
           len(res.mismatches), len(res.violations), gate["discharged"], gate["obligations"], wall))
    return rc


if __name__ == "__main__":
    sys.exit(main())
