"""Entry point: `./check <property> [--tier quick|thorough] [--replay file]`.

Flow (DESIGN §3.7): proof gate -> build code under test -> correspondence (model vs implementation)
-> property evaluation on the implementation (failing-input search) -> verdict -> evidence.
Exit 0: property held on everything explored; 1: VIOLATION line printed; 2: infrastructure problem.
"""
import argparse
import importlib
import json
import os
import random
import sys
import time
import traceback

from . import common
from .common import Infra, log


from .core import Result, Ctx


def main(argv=None):
    ap = argparse.ArgumentParser()
    ap.add_argument("pid")
    ap.add_argument("--tier", default=os.environ.get("VERIF_TIER", "quick"))
    ap.add_argument("--replay", default=None)
    args = ap.parse_args(argv)
    pid = args.pid.upper()
    tier = args.tier if args.tier in ("quick", "thorough") else "quick"
    seed = int(os.environ.get("VERIF_SEED", "0") or 0)
    t0 = time.time()
    try:
        mod = importlib.import_module("harness.props." + pid.lower())
        gate = common.proof_gate(pid, thorough=(tier == "thorough"))
        lib = common.ensure_build()
        common.use_build(lib)
        if args.replay:
            # re-execute the run that produced the replay file (same seed and tier: the generators are deterministic)
            # against the CURRENT working tree and report whether the recorded violation is still there
            rep = json.load(open(args.replay))
            ctx = Ctx(pid, int(rep.get("seed", seed)), rep.get("tier", tier))
            res = mod.run(ctx)
            want = rep.get("violation")
            if want is None:
                print("replay: %s names what no longer checks (no failing input was found): %s"
                      % (args.replay, json.dumps(rep.get("no_longer_checks"), default=str)[:600]))
                return 1 if ((not gate["ok"]) or res.mismatches or res.violations) else 0
            same = [v for v in res.violations if json.dumps(v, sort_keys=True, default=str) ==
                    json.dumps(want, sort_keys=True, default=str)]
            clause = [v for v in res.violations if v.get("clause") == want.get("clause")]
            if same:
                print("replay: reproduced on the current tree: %s" % json.dumps(want, default=str)[:800])
                return 1
            if clause:
                print("replay: the same clause is violated on the current tree (different details): %s"
                      % json.dumps(clause[0], default=str)[:800])
                return 1
            print("replay: not reproduced on the current tree (%d violations of other clauses)" % len(res.violations))
            return 1 if res.violations else 0
        ctx = Ctx(pid, seed, tier)
        res = mod.run(ctx)
    except Infra as e:
        log("INFRA: %s" % e)
        return 2
    except Exception:
        traceback.print_exc()
        return 2

    wall = time.time() - t0
    rc = 0
    for fid, (text, n) in sorted(res.known.items()):
        print("KNOWN-FINDING: property=%s %s [%s, %d cases]" % (pid, text, fid, n))
    nviol = len(res.violations)
    stale = os.path.join(common.VERIF, "replays", "%s-%s.json" % (pid, seed))
    if os.path.exists(stale):
        os.unlink(stale)
    if res.violations:
        v = res.violations[0]
        path = common.write_replay(pid, seed, {"property": pid, "kind": "failing-input", "seed": seed, "tier": tier,
                                               "violation": v, "more": res.violations[1:10],
                                               "how_to_replay": "./check %s --replay <this file>" % pid})
        print("VIOLATION property=%s replay=%s" % (pid, os.path.relpath(path, common.VERIF)))
        rc = 1
    elif (not gate["ok"]) or res.mismatches:
        broken = []
        if not gate["ok"]:
            broken += [{"theorem": f["theorem"], "why": f["why"]} for f in gate["failed"]]
        if res.mismatches:
            broken.append({"correspondence": "model vs implementation", "count": len(res.mismatches),
                           "first": res.mismatches[:5]})
        path = common.write_replay(pid, seed, {"property": pid, "kind": "no-failing-input-found", "seed": seed,
                                               "tier": tier, "no_longer_checks": broken,
                                               "search": "property evaluated on the implementation for all %d "
                                                         "generated cases incl. the mismatching ones: no failing input" % res.evaluations,
                                               "gate_log": gate.get("build_log_tail", "")[-1500:]})
        print("VIOLATION property=%s replay=%s no-failing-input-found" % (pid, os.path.relpath(path, common.VERIF)))
        nviol = 1
        rc = 1

    idx = common.load_index()[pid]
    cov = {
        "obligations": gate["obligations"], "discharged": gate["discharged"],
        "checker_cmd": "cd lean && lake build %s && lake env lean <#print axioms of each theorem>%s"
                       % (gate["module"], " && lake env leanchecker <modules>" if tier == "thorough" else ""),
        "trusted_base": ["Lean 4.33.0 kernel", "Mathlib v4.33.0 (checked library)",
                         "axioms: propext, Classical.choice, Quot.sound only (audited per theorem)",
                         "hand-written model tied to /repo by this run's correspondence check",
                         "harness (generators, canonicalisation, diff)"] + idx.get("trusted_extra", []),
        "theorems": idx["theorems"],
        "axioms": gate.get("axioms", {}),
        "evaluations": res.evaluations,
        "distinct_nontrivial": len(res.nontrivial),
        "rule": res.rule,
        "samples": res.samples,
        "correspondence_mismatches": len(res.mismatches),
        "known_findings_hit": {k: n for k, (_t, n) in res.known.items()},
        "exhaustive": bool(res.coverage.get("exhaustive", False)),
    }
    cov.update(res.coverage)
    common.write_evidence(pid, tier, seed, idx.get("level", "proof"), cov, res.assumptions + idx.get("assumptions", []),
                          wall, nviol)
    log("[%s] %s tier=%s seed=%d evaluations=%d nontrivial=%d mismatches=%d violations=%d gate=%d/%d wall=%.1fs"
        % ("OK" if rc == 0 else "FAIL", pid, tier, seed, res.evaluations, len(res.nontrivial),
           len(res.mismatches), len(res.violations), gate["discharged"], gate["obligations"], wall))
    return rc


if __name__ == "__main__":
    sys.exit(main())
