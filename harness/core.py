"""Result / context objects shared by the property modules."""
import random

from . import common


class Result:
    def __init__(self):
        self.evaluations = 0
        self.nontrivial = set()
        self.samples = []
        self.mismatches = []      # model/implementation correspondence broken (not by itself a violation)
        self.violations = []      # property fails on the real code for a concrete input
        self.known = {}           # finding id -> (text, count)
        self.coverage = {}
        self.assumptions = []
        self.rule = ""

    def sample(self, obj, limit=6):
        if len(self.samples) < limit:
            self.samples.append(obj)

    def hit(self, key, n=1):
        h = self.coverage.setdefault("branch_hits", {})
        h[key] = h.get(key, 0) + n


class Ctx:
    def __init__(self, pid, seed, tier):
        self.pid = pid
        self.seed = seed
        self.tier = tier
        self.thorough = tier == "thorough"
        self.rng = random.Random(seed * 1000003 + sum(map(ord, pid)))
        self.driver = common.Driver()
        kf = common.load_known_findings()
        self.known_ids = {f["id"]: f for f in kf.get("findings", []) if f.get("property") == pid}

    def crumb(self, **what):
        """note what is about to be executed in-process by code of the repository that may crash the interpreter (C
        routines called through the Python wrappers); the supervisor in harness.main reports it if the check dies"""
        import json
        import os
        path = os.environ.get("VERIF_BREADCRUMB")
        if path:
            try:
                with open(path, "w") as f:
                    json.dump(what, f, default=str)
            except OSError:
                pass

    def known(self, res, fid, case_desc):
        """Attribute a failing case to a listed known finding. Returns False when `fid` is not listed
        (then the caller must report a violation)."""
        if fid not in self.known_ids:
            return False
        text, n = res.known.get(fid, (self.known_ids[fid]["what"], 0))
        res.known[fid] = (text, n + 1)
        return True


