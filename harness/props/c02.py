"""C02 — the C engine returns the same distances as the Python engine."""
import ctypes as C
import math

from .. import dtwcases as dc
from .. import impl, native
from ..core import Result
from . import c01


def gen_cases(ctx):
    rng = ctx.rng
    cases = list(CORPUS)
    for c in dc.exhaustive_cases(4 if not ctx.thorough else 5, rng=rng, limit_values=2):
        cases.append(c)
    n_rand = 30000 if ctx.thorough else 2500
    maxlen = 40 if ctx.thorough else 12
    for k in range(n_rand):
        ndim = rng.choice([1, 1, 1, 2, 3])
        c = dc.rand_case(rng, maxlen if k % 4 else 6, ndim=ndim)
        if ndim > 1 and c["inner"] == "abs":
            # sqrt per point: not exact on the lattice -> engines compared with each other only (float mode)
            c["float_mode"] = True
            # half-integer bounds never coincide with a point distance sqrt(integer): no tie at the threshold
            c["max_step"] = rng.choice([None, None, 1.5, 2.5, 3.5])
        # thresholds / pruning: settings expressible in both engines
        k2 = rng.random()
        if k2 < 0.15:
            c["max_dist_I"] = 2 * rng.randint(0, 40) + 1
        elif k2 < 0.25:
            c["use_pruning"] = True
        cases.append(c)
    out = []
    for c in cases:
        if not dc.psi_in_range(c) or dc.degenerate_psi(c):
            continue
        if c.get("window") is not None and c["window"] < 1:
            continue
        out.append(c)
    return out


CORPUS = [
    {"s1": [0, 1, 0, 2, 1], "s2": [1, 0, 2, 0, 1], "window": 1, "psi": 4, "inner": "sq"},
    {"s1": [0, 0, 1, 2, 1, 0, 1], "s2": [0, 1, 2], "window": 2, "psi": 2, "inner": "sq"},
    {"s1": [0, 2, 1], "s2": [1, 0, 0, 1], "penalty": 2, "inner": "abs"},
    {"s1": [0, 2, 1], "s2": [1, 0, 0, 1], "max_step": 1, "psi": [0, 2, 0, 0], "inner": "sq"},
]


def c_direct(lib, case):
    nd = case.get("ndim", 1)
    s = native.settings_from_case(case)
    a = native.darr(case["s1"])
    b = native.darr(case["s2"])
    r, c = dc.npoints(case)
    if nd == 1:
        return impl.canon(lib.dtw_distance(a, r, b, c, C.byref(s)))
    return impl.canon(lib.dtw_distance_ndim(a, r, b, c, nd, C.byref(s)))


def run(ctx):
    res = Result()
    res.rule = ("corpus + exhaustive small + boundary-biased random cases (ndim 1..3, both inner distances, psi, "
                "window, penalty, max_step, max_dist, pruning, max_length_diff); non-trivial = some option active")
    lib = native.load("plain")
    cases = gen_cases(ctx)
    fcases = [c for c in cases if c.get("float_mode")]
    cases = [c for c in cases if not c.get("float_mode")]
    for case in fcases:
        case = {k: v for k, v in case.items() if k != "float_mode"}
        if case.get("max_dist_I") is not None:
            case["max_dist_I"] = None
        py = impl.py_distance(case, "numpy", fast=False)
        cy = impl.py_distance(case, "numpy", fast=True)
        cd = c_direct(lib, case)
        res.evaluations += 1
        res.hit("ndim_euclidean_float_mode")
        res.nontrivial.add(dc.case_key(case))
        r_, c_ = dc.npoints(case)
        for name, val in (("distance_fast", cy), ("dtw_distance (direct)", cd)):
            if not agree(val, py, ulps=16):
                if case.get("max_length_diff") == 0 and r_ != c_ and py == "inf" and ctx.known(res, "C02-MLD0", case):
                    continue
                invalid_ub = case.get("use_pruning") and ((case.get("penalty") and r_ != c_) or case.get("max_step")
                                                          or any(dc.psi_tuple(case.get("psi"))))
                if invalid_ub and py == "inf" and ctx.known(res, "C02-PRUNE-INVALID-UB", case):
                    continue
                res.violations.append({"clause": "C engine == Python engine (ndim, Euclidean inner distance)",
                                       "route": name, "case": case, "c": val, "python": py,
                                       "kwargs": repr(dc.py_kwargs(case))})
    ops = [dc.lean_op(c, engine="c") for c in cases] + [dc.lean_op(c, engine="py") for c in cases]
    outs = ctx.driver.run(ops)
    n = len(cases)
    for i, case in enumerate(cases):
        outc, outp = outs[i], outs[n + i]
        for o in (outc, outp):
            if "error" in o:
                raise RuntimeError("driver error %s on %s" % (o["error"], case))
        pcase = dict(case, psi_np=True) if i % 4 == 0 else case       # psi as a NumPy integer: both engines
        py = impl.py_distance(pcase, "numpy", fast=False)
        cy = impl.py_distance(pcase, "numpy" if (i % 2 or case.get("ndim", 1) > 1) else "array", fast=True)
        cd = c_direct(lib, case)
        res.evaluations += 1
        tags = c01.nontrivial(case) + (["maxdist"] if case.get("max_dist_I") else []) + \
            (["prune"] if case.get("use_pruning") else []) + (["ndim"] if case.get("ndim", 1) > 1 else [])
        for t in tags:
            res.hit(t)
        if tags:
            res.nontrivial.add(dc.case_key(case))
        exp_c = impl.canon(dc.expected_from_internal(case, outc["model"]))
        res.sample({"case": case, "python": py, "c_cython": cy, "c_direct": cd, "model_c": exp_c})
        # the property: C == Python (both inf, or equal up to a few ulps)
        for name, val in (("distance_fast", cy), ("dtw_distance (direct)", cd)):
            if not agree(val, py):
                r_, c_ = dc.npoints(case)
                if case.get("max_length_diff") == 0 and r_ != c_ and py == "inf" and val == exp_c \
                        and ctx.known(res, "C02-MLD0", case):
                    continue
                invalid_ub = case.get("use_pruning") and ((case.get("penalty") and r_ != c_) or case.get("max_step")
                                                          or any(dc.psi_tuple(case.get("psi"))))
                exp_p = impl.canon(dc.expected_from_internal(case, outp["model"]))
                if invalid_ub and py == "inf" and exp_p == "inf" and val == exp_c \
                        and ctx.known(res, "C02-PRUNE-INVALID-UB", case):
                    continue
                res.violations.append({"clause": "C engine == Python engine", "route": name, "case": case,
                                       "c": val, "python": py, "model_c": exp_c,
                                       "kwargs": repr(dc.py_kwargs(case))})
            elif val != exp_c:
                res.mismatches.append({"case": case, "route": name, "c": val, "model_c": exp_c})
        # ---- only_ub: every route returns the Euclidean bound (thresholds / pruning do not apply)
        if i % 4 == 0 and not case.get("max_dist_I") and not case.get("use_pruning"):
            from dtaidistance import dtw, dtw_ndim
            nd = case.get("ndim", 1)
            s1 = impl.to_container(case["s1"], "numpy", nd)
            s2 = impl.to_container(case["s2"], "numpy", nd)
            kw = dc.py_kwargs(case)
            mod = dtw if nd == 1 else dtw_ndim
            exp_ub = impl.canon(dc.expected_from_internal(case, outp["ed"]))
            routes = {"distance(only_ub)": lambda: mod.distance(s1, s2, only_ub=True, **kw),
                      "distance(use_c, only_ub)": lambda: mod.distance(s1, s2, only_ub=True, use_c=True, **kw),
                      "distance_fast(only_ub)": lambda: mod.distance_fast(s1, s2, only_ub=True, **kw)}
            vals = {}
            for name, fn in routes.items():
                try:
                    vals[name] = impl.canon(fn())
                except BaseException as ex:
                    if isinstance(ex, (KeyboardInterrupt, SystemExit)):
                        raise
                    vals[name] = impl.exc_name(ex)
            res.hit("only_ub")
            r_, c_ = dc.npoints(case)
            mld = case.get("max_length_diff")
            for name, v in vals.items():
                if agree(v, vals["distance(only_ub)"]):
                    continue
                if mld is not None and abs(r_ - c_) > mld and vals["distance(only_ub)"] == "inf" and agree(v, exp_ub):
                    if mld == 0 and ctx.known(res, "C02-MLD0", case):
                        continue
                    if mld > 0 and ctx.known(res, "C02-ONLYUB-MLD", case):
                        continue
                res.violations.append({"clause": "only_ub: C engine == Python engine", "route": name, "case": case,
                                       "c": v, "python": vals["distance(only_ub)"], "euclidean": exp_ub})
            if vals["distance(only_ub)"] != "inf" and not agree(vals["distance(only_ub)"], exp_ub):
                res.mismatches.append({"case": case, "route": "distance(only_ub)", "python": vals["distance(only_ub)"],
                                       "model_ed": exp_ub})
    matrix_route(ctx, res)
    return res


def matrix_route(ctx, res):
    """the C distance-matrix routines (serial, pointer and matrix containers, 1-D / n-D) against the Python single-pair
    routine, with per-series (asymmetric) psi tuples and unequal lengths"""
    import numpy as np
    from dtaidistance import dtw, dtw_ndim
    rng = ctx.rng
    for _ in range(400 if ctx.thorough else 60):
        nd = rng.choice([1, 1, 2])
        n = rng.randint(2, 5)
        equal = rng.random() < 0.3
        L = rng.randint(2, 7)
        lens = [L if equal else rng.randint(2, 8) for _ in range(n)]
        series = [[rng.randint(-3, 3) for _ in range(l * nd)] for l in lens]
        psi = rng.choice([None, 1, (1, 0, 0, 1), (0, 1, 1, 0), (2, 0, 0, 0), (0, 0, 0, 2), (1, 2, 0, 0), (0, 0, 2, 1)])
        st = {"window": rng.choice([None, 1, 2, 3]), "penalty": rng.choice([None, 1, 2]), "psi": psi,
              "max_step": rng.choice([None, None, 3]), "inner": "sq",
              "max_length_diff": rng.choice([None, None, 1, 2])}
        if _ % 4 == 1:
            # no window, lengths ascending, steps at very different positions: each pair needs its own full band (a
            # setting computed for the first, short pair must not be reused for the later, long ones)
            equal = False
            lens = sorted(rng.choice([2, 3, 3, 9, 12, 14, 14]) for _i in range(n))
            series = []
            for l in lens:
                a_ = rng.randint(1, max(1, l - 1))
                series.append([v for k_ in range(l) for v in [(0 if k_ < a_ else 5)] * nd])
            st = {"window": None, "penalty": None, "psi": None, "max_step": None, "inner": "sq"}
            psi = None
            res.hit("matrix_route_no_window_ascending_lengths")
        if psi is not None:
            bad = False
            for a in series:
                for b in series:
                    cs = {"s1": a, "s2": b, "ndim": nd, "psi": psi}
                    if not dc.psi_in_range(cs) or dc.degenerate_psi(cs):
                        bad = True
            if bad:
                st["psi"] = None
        kw = dc.py_kwargs(st)
        mod = dtw if nd == 1 else dtw_ndim
        extra = {} if nd == 1 else {"ndim": nd}
        arrs = [impl.to_container(x, "numpy", nd) for x in series]
        conts = {"list": arrs}
        if equal:
            conts["matrix"] = np.array(arrs)
        want = [impl.canon(mod.distance(arrs[r], arrs[c], **kw)) for r in range(n) for c in range(r + 1, n)]
        res.evaluations += 1
        res.hit("matrix_route")
        if isinstance(st["psi"], tuple):
            res.hit("matrix_route_asymmetric_psi")
        res.nontrivial.add(repr(("matrix", series, sorted((k, repr(v)) for k, v in st.items()))))
        for cname, data in conts.items():
            for route, rk in (("serial", dict(parallel=False)), ("openmp", dict(parallel=True)),
                              ("fast wrapper", dict(parallel=False, _fast=True)),
                              ("fast wrapper, parallel", dict(parallel=True, _fast=True))):
                try:
                    rk = dict(rk)
                    if rk.pop("_fast", False):
                        # the convenience alias: same options, C engine implied
                        got = [impl.canon(x) for x in mod.distance_matrix_fast(data, compact=True, **rk, **extra, **kw)]
                    else:
                        got = [impl.canon(x) for x in mod.distance_matrix(data, compact=True, use_c=True, **rk, **extra, **kw)]
                except BaseException as ex:
                    if isinstance(ex, (KeyboardInterrupt, SystemExit)):
                        raise
                    got = impl.exc_name(ex)
                if got != want and not (isinstance(got, list) and len(got) == len(want) and
                                        all(agree(a, b) for a, b in zip(got, want))):
                    res.violations.append({"clause": "C distance-matrix routine == Python single-pair distances",
                                           "route": route, "container": cname, "series": series, "ndim": nd,
                                           "settings": {k: (list(v) if isinstance(v, tuple) else v) for k, v in st.items()},
                                           "c": got, "python": want})


def agree(a, b, ulps=4):
    if isinstance(a, str) or isinstance(b, str):
        return a == b
    if a == b:
        return True
    return abs(a - b) <= ulps * math.ulp(max(abs(a), abs(b)))


def replay(ctx, rep):
    v = rep.get("violation") or {}
    case = v.get("case")
    if case is None:
        print("no concrete input in replay:", rep.get("no_longer_checks"))
        return 0
    lib = native.load("plain")
    py = impl.py_distance(case, "numpy", fast=False)
    cy = impl.py_distance(case, "numpy", fast=True)
    cd = c_direct(lib, case)
    print("case:", case, "\npython:", py, " distance_fast:", cy, " dtw_distance:", cd)
    return 0 if agree(cy, py) and agree(cd, py) else 1
