"""C12 — a DBA step averages optimally aligned points and never worsens the fit."""
import math
from fractions import Fraction

import numpy as np

from .. import dtwcases as dc
from .. import impl
from ..core import Result


def count_optimal(matU, costs_scaled, pen_scaled, r, c):
    """number of optimal complete paths (0,0)->(r-1,c-1) through the exact matrix (no psi)"""
    N = [[0] * (c + 1) for _ in range(r + 1)]
    N[0][0] = 1
    for I in range(1, r + 1):
        for J in range(1, c + 1):
            v = matU[I][J]
            if v == "inf":
                continue
            d = costs_scaled(I - 1, J - 1)
            tot = 0
            for (pi, pj, p) in ((I - 1, J - 1, 0), (I - 1, J, pen_scaled), (I, J - 1, pen_scaled)):
                pv = matU[pi][pj]
                if pv != "inf" and d + pv + p == v:
                    tot += N[pi][pj]
            N[I][J] = tot
    return N[r][c]


def run(ctx):
    from dtaidistance import dtw, dtw_ndim, dtw_barycenter
    res = Result()
    res.rule = ("random collections (2..6 series, equal/unequal length, ndim 1..3, list or matrix container, integer "
                "values) x integer initial average x masks with >= 1 selected series (every fifth case a collection of 9..26 series with a sparse, "
                "block-wise empty mask as k-means produces) x window/penalty: one DBA step of "
                "Python dba, Python dba(use_c=True), C dtw_dba via dba_loop(max_it=1) vs the Lean model (exact rational "
                "means), plus range / fixed point / mask / objective / loop-bound laws on the implementation; "
                "non-trivial = more than one selected series or unequal lengths")
    rng = ctx.rng
    n = 1200 if ctx.thorough else 220
    for k in range(n):
        nd = rng.choice([1, 1, 1, 2, 3])
        nser = rng.randint(1, 6)
        big = k % 5 == 4          # k-means-like: larger collections with sparse masks (whole bytes of the packed mask zero)
        if big:
            nser = rng.randint(9, 26)
        equal = rng.random() < 0.5
        L = rng.randint(1, 6)
        lens = [L if equal else rng.randint(1, 6) for _ in range(nser)]
        series = [[rng.randint(-4, 4) for _ in range(l * nd)] for l in lens]
        t = rng.randint(1, 6)
        c0 = [rng.randint(-4, 4) for _ in range(t * nd)] if rng.random() < 0.6 else list(series[0])
        if k % 3 == 2:
            # zero-distance family: the average and some series are differently warped copies (plateaus) of one base
            # sequence, of the SAME length: DTW distance exactly 0 although they differ element-wise
            base = [[rng.randint(-4, 4) for _ in range(nd)] for _ in range(rng.randint(2, 4))]

            def warp(total):
                reps = [1] * len(base)
                for _ in range(total - len(base)):
                    reps[rng.randrange(len(base))] += 1
                return [v for pt, r_ in zip(base, reps) for _ in range(r_) for v in pt]
            total = len(base) + rng.randint(1, 3)
            c0 = warp(total)
            for si in range(nser):
                if rng.random() < 0.6:
                    series[si] = warp(total)
            lens = [len(x) // nd for x in series]
            equal = len(set(lens)) == 1
            res.hit("zero_distance_warped_copies")
        t = len(c0) // nd
        mask = [rng.random() < 0.7 for _ in range(nser)]
        if big:
            mask = [rng.random() < rng.choice([0.15, 0.4]) for _ in range(nser)]
            for blk in range(0, nser, 8):
                if rng.random() < 0.5:
                    for j in range(blk, min(nser, blk + 8)):
                        mask[j] = False
            tail = rng.randrange(8, nser)
            mask[tail] = True
            if rng.random() < 0.5 and nser > 8:
                mask[8 * rng.randint(1, (nser - 1) // 8)] = True
            res.hit("sparse_mask_large_collection")
            if any(not any(mask[b:b + 8]) for b in range(0, nser - nser % 8, 8)):
                res.hit("mask_with_zero_byte")
        if not any(mask):
            mask[rng.randrange(nser)] = True
        settings = {"window": rng.choice([None, None, 1, 2, 3]), "penalty": rng.choice([None, None, 1, 2]),
                    "inner": "sq", "ndim": nd}
        kw = dc.py_kwargs(settings)
        res.evaluations += 1
        if sum(mask) > 1 or len(set(lens)) > 1:
            res.nontrivial.add(repr((series, c0, mask, sorted(kw.items()))))

        def arr(v):
            a = np.array(v, dtype=np.double)
            return a.reshape((-1, nd)) if nd > 1 else a
        kind = "matrix" if (equal and k % 2) else "list"
        data = np.array([arr(s) for s in series]) if kind == "matrix" else [arr(s) for s in series]
        c_arr = arr(c0)
        npmask = np.array(mask, dtype=bool)
        op = {"op": "dba", "c": c0, "series": series, "mask": mask, "ndim": nd, "inner": "sq", "scale": dc.SCALE,
              "psi": [0, 0, 0, 0]}
        for a, b in (("window", "window"), ("penalty", "penalty")):
            if settings.get(a) is not None:
                op[b] = settings[a]
        out = ctx.driver.run([op])[0]
        if "error" in out:
            raise RuntimeError(out["error"])
        # is every selected series reachable / uniquely aligned?
        plain_ops = [dict(dc.lean_op({"s1": c0, "s2": s, "ndim": nd, "inner": "sq", "window": settings["window"],
                                     "penalty": settings["penalty"]}, engine="py", want_mat=True))
                     for s, m in zip(series, mask) if m]
        plain = ctx.driver.run(plain_ops)
        reachable = all(o["spec"] != "inf" for o in plain)
        if not reachable:
            continue    # a series without admissible alignment (narrow window): averaging is undefined
        unique = True
        sel = [s for s, m in zip(series, mask) if m]
        pen_sc = dc.SCALE * (settings["penalty"] or 0) ** 2
        for s, o in zip(sel, plain):
            rr, cc = t, len(s) // nd
            cf = lambda i, j, s=s: dc.SCALE * sum((c0[i * nd + d] - s[j * nd + d]) ** 2 for d in range(nd))
            if count_optimal(o["matU"], cf, pen_sc, rr, cc) != 1:
                unique = False
        res.hit("optimal_paths_unique" if unique else "optimal_paths_not_unique")
        exp = [[(Fraction(sc[0], sc[1]) if sc[1] else None) for sc in row] for row in out["cells"]]
        if any(x is None for row in exp for x in row):
            res.mismatches.append({"what": "model: position without association", "series": series, "c": c0})
            continue
        expf = np.array([[float(x) for x in row] for row in exp])
        if nd == 1:
            expf = expf[:, 0]

        def call(fn):
            try:
                return np.array(fn(), dtype=float)
            except BaseException as e:
                if isinstance(e, (KeyboardInterrupt, SystemExit)):
                    raise
                return impl.exc_name(e) + ":" + str(e)[:80]
        got_py = call(lambda: dtw_barycenter.dba(data, c_arr.copy(), mask=npmask, use_c=False, **kw))
        got_pc = call(lambda: dtw_barycenter.dba(data, c_arr.copy(), mask=npmask, use_c=True, **kw))
        got_c = call(lambda: dtw_barycenter.dba_loop(data, c=c_arr.copy(), max_it=1, thr=None, mask=npmask,
                                                     use_c=True, **kw))
        # the same initial average held as integers (an integer array, a row of an integer matrix, a list of ints)
        c_int = np.array(c0, dtype=np.int64).reshape(c_arr.shape)
        got_pi = call(lambda: dtw_barycenter.dba(data, c_int.copy() if k % 2 else c_int.tolist(), mask=npmask, use_c=False, **kw))
        got_ci = call(lambda: dtw_barycenter.dba_loop(data, c=c_int.copy(), max_it=1, thr=None, mask=npmask, use_c=True, **kw))
        # the same mask as an integer array (e.g. `(labels == k) * 1`) or as uint8
        imask = np.array(mask, dtype=(np.int64, np.int32, np.uint8)[k % 3])
        got_pm = call(lambda: dtw_barycenter.dba_loop(data, c=c_arr.copy(), max_it=1, thr=None, mask=imask, use_c=False, **kw))
        got_cm = call(lambda: dtw_barycenter.dba_loop(data, c=c_arr.copy(), max_it=1, thr=None, mask=imask, use_c=True, **kw))
        for name, got, exact in (("dba python", got_py, True), ("dba(use_c) C paths", got_pc, unique),
                                 ("dtw_dba (C)", got_c, unique), ("dba python, integer-typed average", got_pi, True),
                                 ("dtw_dba (C), integer-typed average", got_ci, unique),
                                 ("dba_loop python, %s mask" % imask.dtype, got_pm, True),
                                 ("dba_loop C, %s mask" % imask.dtype, got_cm, unique)):
            if isinstance(got, str):
                res.violations.append({"clause": "DBA step raised", "route": name, "series": series, "c": c0,
                                       "mask": mask, "kwargs": repr(kw), "got": got})
                continue
            if got.shape != expf.shape:
                res.violations.append({"clause": "shape of the average", "route": name, "got": list(got.shape)})
                continue
            # laws on the implementation
            selv = np.array([v for s, m in zip(series, mask) if m for v in s], dtype=float)
            if np.any(got < selv.min() - 1e-12) or np.any(got > selv.max() + 1e-12):
                res.violations.append({"clause": "result within the value range of the selected series",
                                       "route": name, "series": series, "c": c0, "mask": mask, "got": got.tolist()})
            if exact and not np.array_equal(got, expf):
                kind_ = "violations" if name != "dba python" else "violations"
                res.violations.append({"clause": "each position = arithmetic mean of the points an optimal path aligns "
                                                 "to it (engines agree when optimal paths are unique)",
                                       "route": name, "series": series, "c": c0, "mask": mask, "kwargs": repr(kw),
                                       "got": got.tolist(), "expected": expf.tolist(), "unique_paths": unique})
        # objective does not increase (python step)
        if not isinstance(got_py, str):
            mod = dtw if nd == 1 else dtw_ndim
            def obj(cc):
                return sum(float(mod.distance(cc, arr(s), **kw)) ** 2 for s, m in zip(series, mask) if m)
            before, after = obj(c_arr), obj(got_py)
            if after > before * (1 + 1e-9) + 1e-9:
                res.violations.append({"clause": "sum of squared DTW distances does not increase", "series": series,
                                       "c": c0, "mask": mask, "kwargs": repr(kw), "before": before, "after": after})
        # unselected series have no influence
        if not all(mask) and not isinstance(got_py, str):
            series2 = [s if m else [rng.randint(-9, 9) for _ in s] for s, m in zip(series, mask)]
            data2 = np.array([arr(s) for s in series2]) if kind == "matrix" else [arr(s) for s in series2]
            got2 = call(lambda: dtw_barycenter.dba(data2, c_arr.copy(), mask=npmask, use_c=False, **kw))
            if isinstance(got2, str) or not np.array_equal(got2, got_py):
                res.violations.append({"clause": "unselected series have no influence", "series": series,
                                       "series_changed": series2, "mask": mask})
        # without an initial average the start value is taken from the SELECTED series (first selected one, or the best
        # of a random sample of them): also then unselected series have no influence
        if not all(mask):
            import random as _random
            series2 = [s if m else [rng.randint(-9, 9) for _ in s] for s, m in zip(series, mask)]
            data2 = np.array([arr(s) for s in series2]) if kind == "matrix" else [arr(s) for s in series2]
            first_sel = arr(series[mask.index(True)])
            routes = [("dba(c=None)", lambda d_, uc: dtw_barycenter.dba(d_, None, mask=npmask, use_c=uc, **kw)),
                      ("dba_loop(c=None)", lambda d_, uc: dtw_barycenter.dba_loop(d_, None, max_it=2, thr=None, mask=npmask,
                                                                                  use_c=uc, **kw)),
                      ("dba_loop(c=None, nb_initial_samples=2)",
                       lambda d_, uc: dtw_barycenter.dba_loop(d_, None, max_it=1, thr=None, mask=npmask, use_c=uc,
                                                              nb_initial_samples=2, **kw))]
            for rname, fn_ in routes:
                for uc in (False, True):
                    sd = rng.randint(0, 10 ** 6)
                    _random.seed(sd); g1 = call(lambda: fn_(data, uc))
                    _random.seed(sd); g2 = call(lambda: fn_(data2, uc))
                    res.hit("default_start_value")
                    if isinstance(g1, str) and isinstance(g2, str) and (settings["window"] is not None and not equal):
                        continue     # possibly no admissible alignment from this start under a narrow window
                    if isinstance(g1, str) or isinstance(g2, str) or g1.shape != g2.shape or not np.array_equal(g1, g2):
                        res.violations.append({"clause": "unselected series have no influence (no initial average given)",
                                               "route": rname + (" C" if uc else " python"), "series": series,
                                               "series_changed": series2, "mask": mask, "kwargs": repr(kw),
                                               "got": g1 if isinstance(g1, str) else g1.tolist(),
                                               "got_changed": g2 if isinstance(g2, str) else g2.tolist()})
                        break
            g0 = call(lambda: dtw_barycenter.dba(data, None, mask=npmask, use_c=False, **kw))
            gf = call(lambda: dtw_barycenter.dba(data, first_sel.copy(), mask=npmask, use_c=False, **kw))
            if not (isinstance(g0, str) and isinstance(gf, str)) and \
                    (isinstance(g0, str) or isinstance(gf, str) or g0.shape != gf.shape or not np.array_equal(g0, gf)):
                res.violations.append({"clause": "without an initial average the step starts from the first selected series",
                                       "series": series, "mask": mask, "kwargs": repr(kw)})
        # identical series are a fixed point
        if k % 5 == 0:
            same = [list(series[0])] * 3
            d3 = [arr(s) for s in same]
            for uc in (False, True):
                g3 = call(lambda: dtw_barycenter.dba(d3, arr(series[0]).copy(), mask=np.array([True] * 3), use_c=uc, **kw))
                if isinstance(g3, str) or not np.array_equal(g3, arr(series[0])):
                    res.violations.append({"clause": "a set of identical series is a fixed point", "series": same,
                                           "use_c": uc, "got": g3 if isinstance(g3, str) else g3.tolist()})
        # no step requested: the loop returns the initial average
        if k % 9 == 0:
            for uc in (False, True):
                z = call(lambda: dtw_barycenter.dba_loop(data, c=c_arr.copy(), max_it=0, mask=npmask, use_c=uc, **kw))
                if isinstance(z, str) or z.shape != c_arr.shape or not np.array_equal(z, c_arr):
                    res.violations.append({"clause": "the loop performs at most the requested number of steps: max_it=0 "
                                                     "returns the initial average", "use_c": uc,
                                           "got": z if isinstance(z, str) else z.tolist(), "c": c0})
        # loop bound
        if k % 7 == 0:
            for uc in (False, True):
                mi = rng.randint(1, 4)
                r_ = call_loop(dtw_barycenter, data, c_arr, npmask, mi, uc, kw)
                if isinstance(r_, str):
                    res.violations.append({"clause": "dba_loop raised", "use_c": uc, "got": r_})
                elif r_ > mi:
                    res.violations.append({"clause": "loop performs at most max_it steps", "max_it": mi, "steps": r_})
        # the recorded history of the loop: step j of keep_averages is what the loop returns after j+1 steps
        if k % 4 == 1:
            for uc in (False, True):
                mi = rng.choice([3, 4, 5])
                try:
                    fin, avgs = dtw_barycenter.dba_loop(data, c=c_arr.copy(), max_it=mi, thr=None, mask=npmask,
                                                        keep_averages=True, use_c=uc, **kw)
                    avgs = [np.array(a, dtype=float).copy() for a in avgs]
                    refs = [np.array(dtw_barycenter.dba_loop(data, c=c_arr.copy(), max_it=j + 1, thr=None, mask=npmask,
                                                             use_c=uc, **kw), dtype=float) for j in range(len(avgs))]
                except BaseException as e:
                    if isinstance(e, (KeyboardInterrupt, SystemExit)):
                        raise
                    res.violations.append({"clause": "dba_loop(keep_averages) raised", "use_c": uc,
                                           "got": impl.exc_name(e) + ":" + str(e)[:80]})
                    continue
                res.hit("loop_history")
                if len(avgs) > mi:
                    res.violations.append({"clause": "loop performs at most max_it steps", "max_it": mi, "steps": len(avgs)})
                bad_j = [j for j, (a, b) in enumerate(zip(avgs, refs)) if a.shape != b.shape or not np.array_equal(a, b)]
                if bad_j or (avgs and not np.array_equal(np.array(fin, dtype=float), avgs[-1])):
                    res.violations.append({"clause": "every recorded step of dba_loop(keep_averages=True) is the average "
                                                     "the loop returns after that many steps, the result is the last one",
                                           "use_c": uc, "series": series, "c": c0, "mask": mask, "kwargs": repr(kw),
                                           "max_it": mi, "differing_steps": bad_j})
        res.sample({"series": series, "c": c0, "mask": mask, "kwargs": kw, "model": out["cells"]}, limit=3)
    return res


def call_loop(mod, data, c_arr, npmask, mi, uc, kw):
    try:
        _avg, avgs = mod.dba_loop(data, c=c_arr.copy(), max_it=mi, thr=0.0, mask=npmask, keep_averages=True,
                                  use_c=uc, **kw)
        return len(avgs)
    except BaseException as e:
        if isinstance(e, (KeyboardInterrupt, SystemExit)):
            raise
        return impl.exc_name(e) + ":" + str(e)[:80]


def replay(ctx, rep):
    print(rep.get("violation"))
    return 1 if rep.get("violation") else 0
