"""C03 — early abandoning (max_dist, use_pruning) never changes a result."""
import ctypes as C
import math

from .. import dtwcases as dc
from .. import impl, native
from ..core import Result
from . import c01


def base_cases(ctx):
    rng = ctx.rng
    cases = list(CORPUS)
    for c in dc.exhaustive_cases(4, rng=rng, limit_values=1):
        cases.append(c)
    n_rand = 8000 if ctx.thorough else 900
    maxlen = 30 if ctx.thorough else 10
    for k in range(n_rand):
        ndim = rng.choice([1, 1, 1, 2])
        c = dc.rand_case(rng, maxlen if k % 3 else 5, ndim=ndim, allow_mld=False)
        if ndim > 1:
            c["inner"] = "sq"
        cases.append(c)
    # family "DTW == ED": s2 = s1 + const
    for k in range(300 if ctx.thorough else 60):
        n = rng.randint(1, 8)
        s1 = dc.rand_series(rng, n)
        d = rng.choice([1, 2, 3, 5, 7])
        cases.append({"s1": s1, "s2": [x + d for x in s1], "ndim": 1, "inner": rng.choice(["sq", "abs"]),
                      "window": rng.choice([None, 1, 2])})
    return [c for c in cases if dc.psi_in_range(c) and not dc.degenerate_psi(c)
            and not (c.get("window") is not None and c["window"] < 1)]


CORPUS = [
    {"s1": [0, 0, 0], "s2": [1, 1, 1], "inner": "sq"},
    {"s1": [0, 0, 1, 2, 1, 0, 1], "s2": [0, 1, 2], "window": 2, "psi": 2, "inner": "sq"},
    {"s1": [0, 0], "s2": [5, 0, 0], "psi": [0, 0, 1, 0], "inner": "sq"},
]


def ub_valid(case):
    r, c = dc.npoints(case)
    return (not case.get("penalty") or r == c) and not case.get("max_step")


def c_direct(lib, case):
    return __import__("harness.props.c02", fromlist=["c_direct"]).c_direct(lib, case)


def run(ctx):
    res = Result()
    res.rule = ("every base case is evaluated unbounded, then with thresholds just below / just above / far from the "
                "true internal distance (odd half-lattice thresholds, never inside the rounding neighbourhood) and with "
                "use_pruning where the Euclidean distance is a valid bound; both engines, distance / warping_paths; "
                "non-trivial = threshold within 2 lattice steps of the distance or pruning actually skipped cells")
    lib = native.load("plain")
    bases = base_cases(ctx)
    ops = [dc.lean_op(c, engine="py") for c in bases]
    outs = ctx.driver.run(ops)
    derived = []
    for case, out in zip(bases, outs):
        T = out["spec"]
        places = []
        if T != "inf":
            for d in (-3, -1, 1, 3, 41):
                if T + d > 0:
                    places.append(T + d)
            places.append(max(1, (T // 4) * 2 + 1))
        else:
            places = [1, 7, 41]
        places = ctx.rng.sample(places, min(len(places), 3))
        for m in places:
            derived.append((dict(case, max_dist_I=m), T, "maxdist"))
        if ub_valid(case):
            derived.append((dict(case, use_pruning=True), T, "prune"))
    ops = [dc.lean_op(c, engine="py") for c, _t, _k in derived] + [dc.lean_op(c, engine="c") for c, _t, _k in derived]
    outs = ctx.driver.run(ops)
    n = len(derived)
    for i, (case, T, kind) in enumerate(derived):
        outp, outc = outs[i], outs[n + i]
        res.evaluations += 1
        py = impl.py_distance(case, "numpy", fast=False)
        cy = impl.py_distance(case, "numpy", fast=True)
        # expected by the property
        if kind == "maxdist":
            m = case["max_dist_I"]
            exp = dc.expected_from_internal(case, T) if (T != "inf" and T < m) else math.inf
            near = T != "inf" and abs(T - m) <= 3
        else:
            exp = dc.expected_from_internal(case, T)
            near = T != "inf" and T == outp["ed"]
        exp = impl.canon(exp)
        if near:
            res.nontrivial.add(dc.case_key(case))
            res.hit("near_threshold" if kind == "maxdist" else "dtw_eq_ed")
        res.hit(kind)
        res.sample({"case": case, "unbounded_internal": T, "python": py, "c": cy, "expected": exp})
        for eng, val, out in (("python distance", py, outp), ("C distance_fast", cy, outc)):
            if val != exp and not c02_agree(val, exp):
                if classify_known(ctx, res, case, eng, val, exp, out):
                    continue
                res.violations.append({"clause": "max_dist/use_pruning must give the unbounded distance or inf",
                                       "kind": kind, "engine": eng, "case": case, "unbounded_internal_x2": T,
                                       "got": val, "expected": exp,
                                       "kwargs": repr(dc.py_kwargs(case))})
            else:
                mval = impl.canon(dc.expected_from_internal(case, out["model"]))
                if val != mval and not c02_agree(val, mval):
                    res.mismatches.append({"case": case, "engine": eng, "impl": val, "model": mval})
    return res


def c02_agree(a, b):
    from .c02 import agree
    return agree(a, b)


def classify_known(ctx, res, case, eng, val, exp, out):
    """known finding C03-PSI-PRUNE: pruning bookkeeping ignores the zero border cells of psi_1b / psi_2b"""
    p = dc.psi_tuple(case.get("psi"))
    mval = impl.canon(dc.expected_from_internal(case, out["model"]))
    if (p[0] > 0 or p[2] > 0) and val == mval:
        return ctx.known(res, "C03-PSI-PRUNE", case)
    return False


def replay(ctx, rep):
    v = rep.get("violation") or {}
    case = v.get("case")
    if case is None:
        print("no concrete input in replay:", rep.get("no_longer_checks"))
        return 0
    py = impl.py_distance(case, "numpy", fast=False)
    cy = impl.py_distance(case, "numpy", fast=True)
    print("case:", case, "\npython:", py, " C:", cy, " expected:", v.get("expected"))
    return 0 if (py == v.get("expected") and cy == v.get("expected")) else 1
