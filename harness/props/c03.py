"""C03 — early abandoning (max_dist, use_pruning) never changes a result."""
import ctypes as C
import math

from .. import dtwcases as dc
from .. import impl, native
from ..core import Result
from . import c01


def base_cases(ctx):
    rng = ctx.rng
    cases = list(CORPUS)
    for c in dc.exhaustive_cases(4, rng=rng, limit_values=1):
        cases.append(c)
    n_rand = 8000 if ctx.thorough else 900
    maxlen = 30 if ctx.thorough else 10
    for k in range(n_rand):
        ndim = rng.choice([1, 1, 1, 2])
        c = dc.rand_case(rng, maxlen if k % 3 else 5, ndim=ndim, allow_mld=False)
        if ndim > 1:
            c["inner"] = "sq"
        cases.append(c)
    # family "DTW == ED": s2 = s1 + const
    for k in range(300 if ctx.thorough else 60):
        n = rng.randint(1, 8)
        s1 = dc.rand_series(rng, n)
        d = rng.choice([1, 2, 3, 5, 7])
        cases.append({"s1": s1, "s2": [x + d for x in s1], "ndim": 1, "inner": rng.choice(["sq", "abs"]),
                      "window": rng.choice([None, 1, 2])})
    return [c for c in cases if dc.psi_in_range(c) and not dc.degenerate_psi(c)
            and not (c.get("window") is not None and c["window"] < 1)]


CORPUS = [
    {"s1": [0, 0, 0], "s2": [1, 1, 1], "inner": "sq"},
    {"s1": [0, 0, 1, 2, 1, 0, 1], "s2": [0, 1, 2], "window": 2, "psi": 2, "inner": "sq"},
    {"s1": [0, 0], "s2": [5, 0, 0], "psi": [0, 0, 1, 0], "inner": "sq"},
]


def ub_valid(case):
    r, c = dc.npoints(case)
    return (not case.get("penalty") or r == c) and not case.get("max_step")


def c_direct(lib, case):
    return __import__("harness.props.c02", fromlist=["c_direct"]).c_direct(lib, case)


def run(ctx):
    res = Result()
    res.rule = ("every base case is evaluated unbounded, then with thresholds just below / just above / far from the "
                "true internal distance (odd half-lattice thresholds, never inside the rounding neighbourhood) and with "
                "use_pruning where the Euclidean distance is a valid bound, and with both at once; both engines, distance / "
                "warping_paths; distance matrices (lists and 2-D arrays) with use_pruning / max_dist / both; real-valued "
                "stream where pruning on/off must be bit-identical (window 1, shifted copies, random walks); "
                "non-trivial = threshold within 2 lattice steps of the distance or pruning actually skipped cells")
    lib = native.load("plain")
    bases = base_cases(ctx)
    ops = [dc.lean_op(c, engine="py") for c in bases]
    outs = ctx.driver.run(ops)
    derived = []
    for case, out in zip(bases, outs):
        T = out["spec"]
        places = []
        if T != "inf":
            for d in (-3, -1, 1, 3, 41):
                if T + d > 0:
                    places.append(T + d)
            places.append(max(1, (T // 4) * 2 + 1))
        else:
            places = [1, 7, 41]
        places = ctx.rng.sample(places, min(len(places), 3))
        for m in places:
            derived.append((dict(case, max_dist_I=m), T, "maxdist"))
        if ub_valid(case):
            derived.append((dict(case, use_pruning=True), T, "prune"))
            # both options at once: the user's threshold still decides
            derived.append((dict(case, use_pruning=True, max_dist_I=ctx.rng.choice(places)), T, "both"))
    ops = [dc.lean_op(c, engine="py") for c, _t, _k in derived] + [dc.lean_op(c, engine="c") for c, _t, _k in derived]
    outs = ctx.driver.run(ops)
    n = len(derived)
    for i, (case, T, kind) in enumerate(derived):
        outp, outc = outs[i], outs[n + i]
        res.evaluations += 1
        py = impl.py_distance(case, "numpy", fast=False)
        cy = impl.py_distance(case, "numpy", fast=True)
        # expected by the property
        if kind in ("maxdist", "both"):
            m = case["max_dist_I"]
            exp = dc.expected_from_internal(case, T) if (T != "inf" and T < m) else math.inf
            near = T != "inf" and abs(T - m) <= 3
        else:
            exp = dc.expected_from_internal(case, T)
            near = T != "inf" and T == outp["ed"]
        exp = impl.canon(exp)
        if near:
            res.nontrivial.add(dc.case_key(case))
            res.hit("near_threshold" if kind != "prune" else "dtw_eq_ed")
        res.hit(kind)
        res.sample({"case": case, "unbounded_internal": T, "python": py, "c": cy, "expected": exp})
        routes = [("python distance", py, outp), ("C distance_fast", cy, outc)]
        if i % 2 == 0:
            routes += [("python warping_paths", wps_distance(case, False), None),
                       ("C warping_paths_fast", wps_distance(case, True), None)]
        else:
            # the same routines asked for the internal representation, and the path routine that reports a distance
            if kind in ("maxdist", "both"):
                exp_int = float(T // dc.SCALE) if (T != "inf" and T < case["max_dist_I"]) else math.inf
            else:
                exp_int = float(T // dc.SCALE) if T != "inf" else math.inf
            for eng_c in (False, True):
                v_int = wps_distance(case, eng_c, keep_int=True)
                res.hit("route_keep_int_repr")
                if v_int != impl.canon(exp_int) and not c02_agree(v_int, impl.canon(exp_int)):
                    res.violations.append({"clause": "max_dist/use_pruning must give the unbounded distance or inf "
                                                     "(accumulated-cost matrix routine, internal representation)",
                                           "kind": kind, "engine": "C" if eng_c else "python", "case": case,
                                           "got": v_int, "expected_internal": impl.canon(exp_int),
                                           "kwargs": repr(dc.py_kwargs(case))})
                if exp != "inf":
                    v_p = path_distance(case, eng_c)
                    res.hit("route_warping_path_distance")
                    if v_p != exp and not c02_agree(v_p, exp):
                        res.violations.append({"clause": "warping_path(include_distance=True) under max_dist/use_pruning "
                                                         "reports the unbounded distance", "kind": kind,
                                               "engine": "C" if eng_c else "python", "case": case, "got": v_p,
                                               "expected": exp, "kwargs": repr(dc.py_kwargs(case))})
        for eng, val, out in routes:
            if out is None:
                res.hit("route_" + eng.split()[1])
                if val != exp and not c02_agree(val, exp):
                    res.violations.append({"clause": "max_dist/use_pruning must give the unbounded distance or inf "
                                                     "(accumulated-cost matrix routine)",
                                           "kind": kind, "engine": eng, "case": case, "unbounded_internal_x2": T,
                                           "got": val, "expected": exp, "kwargs": repr(dc.py_kwargs(case))})
                continue
            if val != exp and not c02_agree(val, exp):
                if classify_known(ctx, res, case, eng, val, exp, out):
                    continue
                res.violations.append({"clause": "max_dist/use_pruning must give the unbounded distance or inf",
                                       "kind": kind, "engine": eng, "case": case, "unbounded_internal_x2": T,
                                       "got": val, "expected": exp,
                                       "kwargs": repr(dc.py_kwargs(case))})
            else:
                mval = impl.canon(dc.expected_from_internal(case, out["model"]))
                if val != mval and not c02_agree(val, mval):
                    res.mismatches.append({"case": case, "engine": eng, "impl": val, "model": mval})
    matrix_routes(ctx, res)
    wrapper_routes(ctx, res)
    float_stream(ctx, res)
    return res


def path_distance(case, use_c):
    from dtaidistance import dtw, dtw_ndim
    nd = case.get("ndim", 1)
    kw = dc.py_kwargs(case)
    s1 = impl.to_container(case["s1"], "numpy", nd)
    s2 = impl.to_container(case["s2"], "numpy", nd)
    mod = dtw if nd == 1 else dtw_ndim
    try:
        r_ = mod.warping_path(s1, s2, include_distance=True, use_c=use_c, **kw)
        return impl.canon(r_[1])
    except BaseException as e:
        if isinstance(e, (KeyboardInterrupt, SystemExit)):
            raise
        return impl.exc_name(e)


def wps_distance(case, use_c, keep_int=False):
    from dtaidistance import dtw, dtw_ndim
    nd = case.get("ndim", 1)
    kw = dc.py_kwargs(case)
    if keep_int:
        kw["keep_int_repr"] = True
    s1 = impl.to_container(case["s1"], "numpy", nd)
    s2 = impl.to_container(case["s2"], "numpy", nd)
    mod = dtw if nd == 1 else dtw_ndim
    try:
        f = mod.warping_paths_fast if use_c else mod.warping_paths
        return impl.canon(f(s1, s2, **kw)[0])
    except BaseException as e:
        if isinstance(e, (KeyboardInterrupt, SystemExit)):
            raise
        return impl.exc_name(e)


def matrix_routes(ctx, res):
    """inside distance matrices: use_pruning leaves every entry unchanged, max_dist turns exactly the entries above it
    into inf; integer-lattice collections (thresholds on the half lattice), both engines, lists and 2-D arrays"""
    import numpy as np
    from dtaidistance import dtw
    rng = ctx.rng
    for it in range(400 if ctx.thorough else 60):
        n = rng.randint(2, 6)
        equal = rng.random() < 0.6
        ln = rng.randint(1, 8)
        series = [dc.rand_series(rng, ln if equal else rng.randint(1, 8)) for _ in range(n)]
        if rng.random() < 0.4:       # DTW == ED family: shifted copies
            d0 = rng.choice([1, 2, 3])
            series = [[x + d0 * k for x in series[0]] for k in range(n)]
            equal = True
        kw = {}
        if rng.random() < 0.6:
            kw["window"] = rng.choice([1, 1, 2, 3])
        if rng.random() < 0.3 and equal:
            kw["penalty"] = float(rng.choice([1, 2]))
        inner = rng.choice(["sq", "sq", "abs"])
        if inner == "abs":
            kw["inner_dist"] = "euclidean"
        arrs = [np.array(x, dtype=np.double) for x in series]
        cont = np.array(series, dtype=np.double) if (equal and rng.random() < 0.5) else arrs
        info = {"series": series, "kwargs": repr(kw), "container": "matrix" if isinstance(cont, np.ndarray) else "list"}
        for use_c in (False, True):
            res.evaluations += 1
            res.hit("matrix_" + ("c" if use_c else "py"))
            try:
                base = dtw.distance_matrix(cont, use_c=use_c, compact=True, **kw)
                pr = dtw.distance_matrix(cont, use_c=use_c, compact=True, use_pruning=True, **kw)
                fin = sorted(set(float(x) for x in base if not math.isinf(x)))
                m = None
                if fin:
                    v = rng.choice(fin)
                    internal = round(v * v) if inner == "sq" else round(v)
                    mi = max(0.5, internal + rng.choice([-0.5, 0.5]))
                    m = math.sqrt(mi) if inner == "sq" else mi
                    md = dtw.distance_matrix(cont, use_c=use_c, compact=True, max_dist=m, **kw)
                    both = dtw.distance_matrix(cont, use_c=use_c, compact=True, max_dist=m, use_pruning=True, **kw)
            except BaseException as e:
                if isinstance(e, (KeyboardInterrupt, SystemExit)):
                    raise
                res.violations.append(dict(info, clause="distance_matrix raised", engine="C" if use_c else "python",
                                           got=impl.exc_name(e) + ":" + str(e)[:100]))
                continue
            res.nontrivial.add(repr((series, sorted(kw.items()), use_c)))
            if not np.array_equal(np.asarray(base), np.asarray(pr)):
                res.violations.append(dict(info, clause="use_pruning inside a distance matrix gives exactly the entries "
                                                        "obtained with pruning disabled", engine="C" if use_c else "python",
                                           unpruned=[impl.canon(x) for x in base], pruned=[impl.canon(x) for x in pr]))
            if m is not None:
                want = [x if x < m else math.inf for x in base]
                for nm, got in (("max_dist", md), ("max_dist+use_pruning", both)):
                    if [impl.canon(x) for x in got] != [impl.canon(x) for x in want]:
                        res.violations.append(dict(info, clause="%s inside a distance matrix: entries below the threshold "
                                                                "unchanged, entries above it inf" % nm,
                                                   engine="C" if use_c else "python", max_dist=m,
                                                   unbounded=[impl.canon(x) for x in base],
                                                   got=[impl.canon(x) for x in got]))


def wrapper_routes(ctx, res):
    """max_dist alone (no pruning asked for) through the matrix routines and their `_fast` aliases, in configurations in
    which the Euclidean distance is NOT an upper bound (penalty with unequal lengths): entries below the threshold are
    the unbounded distances, entries above it inf — nothing may switch pruning on behind the caller's back"""
    import numpy as np
    from dtaidistance import dtw, dtw_ndim
    rng = ctx.rng
    for it in range(300 if ctx.thorough else 50):
        n = rng.randint(3, 6)
        nd = rng.choice([1, 1, 2])
        series = [dc.rand_series(rng, rng.randint(1, 8), nd) for _ in range(n)]
        arrs = [impl.to_container(x, "numpy", nd) for x in series]
        kw = {"penalty": float(rng.choice([1, 2, 3]))}
        if rng.random() < 0.4:
            kw["window"] = rng.choice([2, 3])
        mod = dtw if nd == 1 else dtw_ndim
        extra = {} if nd == 1 else {"ndim": nd}
        base = [float(x) for x in mod.distance_matrix(arrs, compact=True, **extra, **kw)]
        fin = sorted(set(x for x in base if not math.isinf(x)))
        if not fin:
            continue
        v = rng.choice(fin)
        mi = max(0.5, round(v * v) + rng.choice([-0.5, 0.5, 6.5]))
        m = math.sqrt(mi)
        want = [impl.canon(x if x < m else math.inf) for x in base]
        res.evaluations += 1
        res.hit("wrapper_routes_penalty_unequal_lengths")
        res.nontrivial.add(repr(("wrap", series, sorted(kw.items()), m)))
        routes = {"distance_matrix python": lambda: mod.distance_matrix(arrs, compact=True, max_dist=m, **extra, **kw),
                  "distance_matrix(use_c)": lambda: mod.distance_matrix(arrs, compact=True, max_dist=m, use_c=True, **extra, **kw),
                  "distance_matrix_fast": lambda: mod.distance_matrix_fast(arrs, compact=True, max_dist=m, parallel=False,
                                                                           **extra, **kw),
                  "distance_matrix_fast(parallel)": lambda: mod.distance_matrix_fast(arrs, compact=True, max_dist=m,
                                                                                      **extra, **kw)}
        for name, fn in routes.items():
            try:
                got = [impl.canon(float(x)) for x in fn()]
            except BaseException as e:
                if isinstance(e, (KeyboardInterrupt, SystemExit)):
                    raise
                res.violations.append({"clause": "distance matrix with max_dist raised", "route": name, "series": series,
                                       "kwargs": repr(kw), "got": impl.exc_name(e) + ":" + str(e)[:100]})
                continue
            if got != want and not (len(got) == len(want) and all(c02_agree(a, b) for a, b in zip(got, want))):
                res.violations.append({"clause": "max_dist inside a distance matrix: entries below the threshold unchanged, "
                                                 "entries above it inf (no pruning requested)", "route": name,
                                       "series": series, "ndim": nd, "kwargs": repr(kw), "max_dist": m,
                                       "unbounded": [impl.canon(x) for x in base], "got": got})


def float_stream(ctx, res):
    """real-valued series: use_pruning gives bit-identical results to pruning disabled in every routine of an engine,
    in particular where DTW coincides with the Euclidean distance (window=1 / shifted copies)"""
    import numpy as np
    from dtaidistance import dtw
    rng = ctx.rng
    for it in range(600 if ctx.thorough else 80):
        n = rng.randint(2, 6)
        ln = rng.randint(1, 12)
        fam = rng.choice(["rand", "shift", "walk"])
        if fam == "shift":
            b = [rng.uniform(-2, 2) for _ in range(ln)]
            series = [[x + 0.37 * k for x in b] for k in range(n)]
        elif fam == "walk":
            series = []
            for _ in range(n):
                x, row = 0.0, []
                for _ in range(ln):
                    x += rng.gauss(0, 1)
                    row.append(x)
                series.append(row)
        else:
            series = [[rng.uniform(-1, 1) for _ in range(ln)] for _ in range(n)]
        kw = {}
        w = rng.choice([None, 1, 1, 2])
        if w is not None:
            kw["window"] = w
        if rng.random() < 0.3:
            kw["inner_dist"] = "euclidean"
        cont = np.array(series, dtype=np.double)
        if rng.random() < 0.5:
            cont = [np.array(x, dtype=np.double) for x in series]
        info = {"series": series, "kwargs": repr(kw)}
        for use_c in (False, True):
            res.evaluations += 1
            res.hit("float_" + fam)
            eng = "C" if use_c else "python"
            try:
                base = np.asarray(dtw.distance_matrix(cont, use_c=use_c, compact=True, **kw))
                pr = np.asarray(dtw.distance_matrix(cont, use_c=use_c, compact=True, use_pruning=True, **kw))
                a, b = np.array(series[0]), np.array(series[-1])
                d0 = dtw.distance(a, b, use_c=use_c, **kw)
                d1 = dtw.distance(a, b, use_c=use_c, use_pruning=True, **kw)
                w0 = dtw.warping_paths(a, b, use_c=use_c, **kw)[0]
                w1 = dtw.warping_paths(a, b, use_c=use_c, use_pruning=True, **kw)[0]
            except BaseException as e:
                if isinstance(e, (KeyboardInterrupt, SystemExit)):
                    raise
                res.violations.append(dict(info, clause="raised", engine=eng, got=impl.exc_name(e) + ":" + str(e)[:100]))
                continue
            res.nontrivial.add(repr((series, sorted(kw.items()), use_c)))
            if not np.array_equal(base, pr):
                res.violations.append(dict(info, clause="use_pruning inside a distance matrix gives exactly the entries "
                                                        "obtained with pruning disabled (real-valued series)", engine=eng,
                                           unpruned=base.tolist(), pruned=[impl.canon(x) for x in pr]))
            if float(d0) != float(d1):
                res.violations.append(dict(info, clause="use_pruning gives exactly the distance obtained with pruning "
                                                        "disabled (real-valued pair)", engine=eng, unpruned=float(d0),
                                           pruned=impl.canon(d1)))
            if float(w0) != float(w1):
                res.violations.append(dict(info, clause="use_pruning gives exactly the distance obtained with pruning "
                                                        "disabled (warping_paths, real-valued pair)", engine=eng,
                                           unpruned=float(w0), pruned=impl.canon(w1)))


def c02_agree(a, b):
    from .c02 import agree
    return agree(a, b)


def classify_known(ctx, res, case, eng, val, exp, out):
    """known finding C03-PSI-PRUNE: pruning bookkeeping ignores the zero border cells of psi_1b / psi_2b"""
    p = dc.psi_tuple(case.get("psi"))
    mval = impl.canon(dc.expected_from_internal(case, out["model"]))
    if (p[0] > 0 or p[2] > 0) and val == mval:
        return ctx.known(res, "C03-PSI-PRUNE", case)
    return False


def replay(ctx, rep):
    v = rep.get("violation") or {}
    case = v.get("case")
    if case is None:
        print("no concrete input in replay:", rep.get("no_longer_checks"))
        return 0
    py = impl.py_distance(case, "numpy", fast=False)
    cy = impl.py_distance(case, "numpy", fast=True)
    print("case:", case, "\npython:", py, " C:", cy, " expected:", v.get("expected"))
    return 0 if (py == v.get("expected") and cy == v.get("expected")) else 1
