"""C13 — subsequence-alignment matching function = best DTW over all start points; k-best iterator invariants."""
import math

import numpy as np

from .. import dtwcases as dc
from .. import impl
from ..core import Result
from .c02 import agree
from . import c05


def run(ctx):
    from dtaidistance.subsequence.dtw import subsequence_alignment
    from dtaidistance import dtw
    res = Result()
    res.rule = ("random (query, series) pairs with 1 <= len(query), len(series), integer values, penalties, ndim 1..2, "
                "both engines: matching function vs the Lean model (free start/end columns) and vs the minimum over all "
                "start points of the plain DTW spec on series[b..e]; best match / k-best matches: segment and path "
                "re-validated, iterator invariants (distinct ends, non-decreasing values, length limits, non-overlap, "
                "<= k) on repeated and interleaved iteration; the range-factor and knee entry points of the iterator "
                "(best_matches, best_matches_knee and their _fast forms) yield a prefix of the unlimited iteration under the "
                "same limits; non-trivial = len(series) > len(query) > 1")
    rng = ctx.rng
    n = 700 if ctx.thorough else 120
    for k in range(n):
        nd = rng.choice([1, 1, 1, 2])
        lq = rng.randint(1, 5 if not ctx.thorough else 8)
        ls = rng.randint(1, 9 if not ctx.thorough else 18)
        q = [rng.randint(-2, 3) for _ in range(lq * nd)]
        s = [rng.randint(-2, 3) for _ in range(ls * nd)]
        pen = rng.choice([0, 0, 1, 2])
        res.evaluations += 1
        if ls > lq > 1:
            res.nontrivial.add(repr((q, s, pen, nd)))
        big = {"s1": q, "s2": s, "ndim": nd, "inner": "sq", "penalty": pen, "psi": [0, 0, ls, ls]}
        ops = [dc.lean_op(big, engine="py", want_mat=True)]
        # sub-problems query vs series[b..e]
        subs = []
        for e in range(ls):
            for b in range(e + 1):
                subs.append((b, e))
                ops.append(dc.lean_op({"s1": q, "s2": s[b * nd:(e + 1) * nd], "ndim": nd, "inner": "sq",
                                       "penalty": pen}, engine="py"))
        outs = ctx.driver.run(ops)
        mat = outs[0]["matU"]
        best_over_b = {}
        for (b, e), o in zip(subs, outs[1:]):
            v = o["spec"]
            if v != "inf":
                best_over_b[e] = min(best_over_b.get(e, v), v)
        # model-level sanity of the theorem on this input
        for e in range(ls):
            if mat[lq][e + 1] != best_over_b.get(e, "inf"):
                res.mismatches.append({"what": "model: D(r, e+1) with free start != min over starts of the sub-problem "
                                               "spec", "q": q, "s": s, "penalty": pen, "e": e})
        qa = impl.to_container(q, "numpy", nd)
        sa_ = impl.to_container(s, "numpy", nd)
        for use_c in (False, True):
            eng = "C" if use_c else "python"
            try:
                sa = subsequence_alignment(qa, sa_, penalty=float(pen), use_c=use_c)
                mf = np.array(sa.matching_function(), dtype=float)
            except BaseException as ex:
                if isinstance(ex, (KeyboardInterrupt, SystemExit)):
                    raise
                res.violations.append({"clause": "subsequence_alignment raised", "engine": eng, "q": q, "s": s,
                                       "penalty": pen, "got": impl.exc_name(ex) + ":" + str(ex)[:80]})
                continue
            if len(mf) != ls:
                res.violations.append({"clause": "matching function has one value per end position", "engine": eng,
                                       "q": q, "s": s, "len": len(mf)})
                continue
            bad = []
            for e in range(ls):
                want = math.sqrt(best_over_b[e] // dc.SCALE) / lq if e in best_over_b else math.inf
                if not agree(impl.canon(mf[e]), impl.canon(want)):
                    bad.append((e, float(mf[e]), want))
            if bad:
                res.violations.append({"clause": "matching[e] = min over starts b<=e of DTW(query, series[b..e]) / "
                                                 "len(query)", "engine": eng, "q": q, "s": s, "penalty": pen,
                                       "ndim": nd, "bad": bad[:5]})
                continue
            # best match realises its value
            try:
                bm = sa.best_match()
                seg, path = bm.segment, [(int(a), int(b)) for a, b in bm.path]
                check_match(res, eng, q, s, nd, pen, lq, bm.idx, seg, path, float(bm.value), float(bm.distance),
                            best_over_b)
            except BaseException as ex:
                if isinstance(ex, (KeyboardInterrupt, SystemExit)):
                    raise
                res.violations.append({"clause": "best_match raised", "engine": eng, "q": q, "s": s,
                                       "got": impl.exc_name(ex) + ":" + str(ex)[:80]})
            # k-best iterator, repeated and interleaved, several configurations per alignment object
            for _ in range(3):
                iter_check(ctx, res, sa, use_c, eng, q, s, nd, pen, lq, big, best_over_b,
                           rng.choice([1, 2, 3, None, None]), rng.choice([0, 0, 1, 2]),
                           rng.choice([1, 2, 2, 3, lq, lq + 1]), rng.choice([None, None, lq + 1, 2 * lq, max(2, lq - 1)]))
        res.sample({"query": q, "series": s, "penalty": pen, "ndim": nd}, limit=3)
    # ---- motif stream: longer series with planted (noisy, stretched) copies of the query, many iterator
    # configurations per alignment object; best_over_b is read from the model matrix (matching theorem)
    nm = 60 if ctx.thorough else 12
    for k in range(nm):
        nd = rng.choice([1, 1, 2])
        lq = rng.randint(3, 7)
        q = [rng.randint(-3, 3) for _ in range(lq * nd)]
        pts = []
        while len(pts) < rng.randint(20, 45 if ctx.thorough else 32):
            if rng.random() < 0.6:
                for i in range(lq):
                    for _rep in range(rng.choice([1, 1, 1, 2])):
                        pts.append([q[i * nd + d] + rng.choice([0, 0, 0, 1, -1]) for d in range(nd)])
            else:
                for _g in range(rng.randint(1, 4)):
                    pts.append([rng.randint(-3, 3) for d in range(nd)])
        s = [v for p in pts for v in p]
        ls = len(pts)
        pen = rng.choice([0, 0, 1])
        res.evaluations += 1
        res.nontrivial.add(repr((q, s, pen, nd)))
        big = {"s1": q, "s2": s, "ndim": nd, "inner": "sq", "penalty": pen, "psi": [0, 0, ls, ls]}
        mat = ctx.driver.run([dc.lean_op(big, engine="py", want_mat=True)])[0]["matU"]
        best_over_b = {e: mat[lq][e + 1] for e in range(ls) if mat[lq][e + 1] != "inf"}
        qa = impl.to_container(q, "numpy", nd)
        sa_ = impl.to_container(s, "numpy", nd)
        for use_c in (False, True):
            eng = "C" if use_c else "python"
            sa = subsequence_alignment(qa, sa_, penalty=float(pen), use_c=use_c)
            sa.matching_function()
            for _ in range(8):
                iter_check(ctx, res, sa, use_c, eng, q, s, nd, pen, lq, big, best_over_b,
                           rng.choice([None, None, 3, 5, 8]), rng.choice([0, 0, 0, 1, 3]),
                           rng.choice([1, 2, 3, lq, lq + 1, lq + 2]),
                           rng.choice([None, lq, lq + 1, lq + 2, 2 * lq, 3 * lq]))
            res.hit("motif_stream")
    return res


def iter_check(ctx, res, sa, use_c, eng, q, s, nd, pen, lq, big, best_over_b, kk, overlap, minlength, maxlength):
    """one k-best iterator configuration on an alignment object: repeated + interleaved iteration, model comparison
    (Python engine), invariants"""
    # k-best iterator, repeated and interleaved
    try:
        it1 = sa.kbest_matches(k=kk, overlap=overlap, minlength=minlength, maxlength=maxlength)
        it2 = sa.kbest_matches(k=kk, overlap=overlap, minlength=minlength, maxlength=maxlength)
        l1, l2 = [], []
        alive1 = alive2 = True
        while alive1 or alive2:     # interleave the two iterators over the same alignment object
            if alive1:
                try:
                    l1.append(next(it1))
                except StopIteration:
                    alive1 = False
            if alive2:
                try:
                    l2.append(next(it2))
                except StopIteration:
                    alive2 = False
        d1 = [(m.idx, tuple(m.segment), float(m.value)) for m in l1]
        d2 = [(m.idx, tuple(m.segment), float(m.value)) for m in l2]
    except BaseException as ex:
        if isinstance(ex, (KeyboardInterrupt, SystemExit)):
            raise
        res.violations.append({"clause": "kbest_matches raised", "engine": eng, "q": q, "s": s,
                               "got": impl.exc_name(ex) + ":" + str(ex)[:80]})
        return
    info = {"engine": eng, "q": q, "s": s, "penalty": pen, "k": kk, "overlap": overlap,
            "minlength": minlength, "maxlength": maxlength, "matches": d1}
    fnum, fden, factor_m = (169, 100, 1.3) if (kk or 0) % 2 else (289, 100, 1.7)
    model_ranged = None
    if not use_c:
        op = dict(dc.lean_op(big, engine="py"), op="subseq", overlap=overlap, rangeFactorSq=[fnum, fden])
        if kk is not None:
            op["k"] = kk
        if minlength is not None:
            op["minlength"] = minlength
        if maxlength is not None:
            op["maxlength"] = maxlength
        mo = ctx.driver.run([op])[0]
        model_y = [tuple(x) for x in mo["yielded"]]
        if [m[1] for m in d1] != model_y:
            res.mismatches.append(dict(info, what="k-best iterator differs from the Lean model", model=model_y))
        res.hit("iterator_compared_with_model")
        # the range-factor rule is modelled exactly on the squared values; equality c_l * den = c_f * num needs a value
        # that is a multiple of 100, so below that the float comparison of the implementation cannot sit on a tie
        if all(x == "inf" or x < 100 for x in mo["matching"]):
            model_ranged = [tuple(x) for x in mo["ranged"]]
    if d1 != d2:
        res.violations.append(dict(info, clause="interleaved iteration over the same alignment object gives "
                                                "the same matches", second=d2))
    if kk is not None and len(d1) > kk:
        res.violations.append(dict(info, clause="at most k matches"))
    ends = [m[0] for m in d1]
    if len(set(ends)) != len(ends):
        res.violations.append(dict(info, clause="distinct end points"))
    vals = [m[2] for m in d1]
    if any(vals[i] > vals[i + 1] + 1e-12 for i in range(len(vals) - 1)):
        res.violations.append(dict(info, clause="non-decreasing value order"))
    for (idx, (b, e), v) in d1:
        ln = e - b + 1
        if (minlength is not None and ln < minlength) or (maxlength is not None and ln > maxlength):
            res.violations.append(dict(info, clause="segment respects the length limits"))
        if e != idx:
            res.violations.append(dict(info, clause="segment ends in the match's end position"))
    if overlap == 0:
        for i in range(len(d1)):
            for j in range(i + 1, len(d1)):
                b1, e1 = d1[i][1]; b2, e2 = d1[j][1]
                shared = len(set(range(b1, e1 + 1)) & set(range(b2, e2 + 1)))
                if shared > 1:
                    res.violations.append(dict(info, clause="without overlap two matches share at most a single "
                                                            "boundary sample", pair=[d1[i], d1[j]]))
    # the other entry points of the same iterator (stop on a range factor / on a knee in the values): they run the
    # same loop with an extra stopping rule, so they yield a prefix of the k=None sequence with the same limits
    try:
        full = [(m.idx, tuple(m.segment), float(m.value)) for m in
                sa.kbest_matches(k=None, overlap=overlap, minlength=minlength, maxlength=maxlength)]
        factor = factor_m
        alpha = 0.1 * ((kk or 3) % 7 + 1)
        variants = [("best_matches(max_rangefactor=%s)" % factor,
                     (sa.best_matches_fast if use_c else sa.best_matches)(max_rangefactor=factor, overlap=overlap,
                                                                          minlength=minlength, maxlength=maxlength)),
                    ("best_matches_knee(alpha=%s)" % alpha,
                     (sa.best_matches_knee_fast if use_c else sa.best_matches_knee)(alpha=alpha, overlap=overlap,
                                                                                    minlength=minlength,
                                                                                    maxlength=maxlength))]
        for name, gen in variants:
            got = [(m.idx, tuple(m.segment), float(m.value)) for m in gen]
            res.hit("variant_" + name.split("(")[0])
            if len(got) < len(full):
                res.hit("variant_stopped_early")
            for (idx, (b, e), v) in got:
                ln = e - b + 1
                if (minlength is not None and ln < minlength) or (maxlength is not None and ln > maxlength):
                    res.violations.append(dict(info, clause="segment respects the length limits (%s)" % name,
                                               variant=got))
                    break
            else:
                if got != full[:len(got)]:
                    res.violations.append(dict(info, clause="%s yields a prefix of the matches of the unlimited k-best "
                                                            "iterator with the same overlap and length limits" % name,
                                               variant=got, unlimited=full))
            if name.startswith("best_matches(") and model_ranged is not None and kk is None:
                res.hit("range_factor_compared_with_model")
                if [m[1] for m in got] != model_ranged:
                    res.mismatches.append(dict(info, what="best_matches(max_rangefactor) differs from the Lean model of the "
                                                          "stopping rule", factor=factor, variant=got, model=model_ranged))
            if name.startswith("best_matches(") and got and any(v > got[0][2] * factor for _, _, v in got):
                res.violations.append(dict(info, clause="best_matches: every value within max_rangefactor times the "
                                                        "first", variant=got))
    except BaseException as ex:
        if isinstance(ex, (KeyboardInterrupt, SystemExit)):
            raise
        res.violations.append(dict(info, clause="best_matches / best_matches_knee raised",
                                   got=impl.exc_name(ex) + ":" + str(ex)[:80]))
    for m in l1[:2]:
        check_match(res, eng, q, s, nd, pen, lq, m.idx, m.segment, [(int(a), int(b)) for a, b in m.path],
                    float(m.value), float(m.distance), best_over_b)


def check_match(res, eng, q, s, nd, pen, lq, idx, seg, path, value, distance, best_over_b):
    b, e = int(seg[0]), int(seg[1])
    case = {"s1": q, "s2": s, "ndim": nd, "inner": "sq", "penalty": pen}
    info = {"engine": eng, "q": q, "s": s, "penalty": pen, "idx": int(idx), "segment": [b, e], "path": path}
    if e != idx or not path or path[0][1] != b or path[-1] != (lq - 1, e) or path[0][0] != 0:
        res.violations.append(dict(info, clause="segment/path of a match: starts in query row 0 at the segment start, "
                                                "ends in the last query row at the end position"))
        return
    # path must be a valid warping path of query vs series[b..e] and cost the match's distance
    sub = {"s1": q, "s2": s[b * nd:(e + 1) * nd], "ndim": nd, "inner": "sq", "penalty": pen}
    ok, why, cost = c05.check_path(sub, [(i, j - b) for i, j in path])
    want = best_over_b.get(e)
    if not ok or want is None or cost != want // dc.SCALE:
        res.violations.append(dict(info, clause="the match's path realises its value (valid path of query vs "
                                                "series[b..e] whose cost is the matching value)", why=why, cost=cost,
                                   want=None if want is None else want // dc.SCALE))
        return
    if not agree(impl.canon(distance), impl.canon(math.sqrt(cost))) or \
            not agree(impl.canon(value), impl.canon(math.sqrt(cost) / lq)):
        res.violations.append(dict(info, clause="value = distance / len(query) = sqrt(path cost) / len(query)",
                                   value=value, distance=distance, cost=cost))


def replay(ctx, rep):
    print(rep.get("violation"))
    return 1 if rep.get("violation") else 0
