"""C14 — k-NN subsequence search is exact despite lower bounds and early abandoning."""
import math

import numpy as np

from .. import dtwcases as dc
from .. import impl
from ..core import Result
from .c02 import agree


def gen(rng, thorough):
    nd = rng.choice([1, 1, 1, 2])
    lq = rng.randint(1, 6)
    n = rng.randint(1, 8 if not thorough else 20)
    q = [rng.randint(-2, 2) for _ in range(lq * nd)]
    cands = []
    stretch = rng.random() < 0.3      # near-copies of the query with a repeated or a dropped sample
    for _ in range(n):
        if cands and rng.random() < 0.25:
            cands.append(list(rng.choice(cands)))        # duplicates -> ties
        elif stretch and rng.random() < 0.6 and lq >= 2:
            pts = [q[i * nd:(i + 1) * nd] for i in range(lq)]
            j = rng.randrange(lq)
            pts = pts[:j] + [pts[j]] * rng.choice([2, 2, 3]) + pts[j + 1:] if rng.random() < 0.6 else pts[:j] + pts[j + 1:]
            cands.append([v for pt in pts for v in pt])
        else:
            l = lq if rng.random() < 0.6 else rng.randint(1, 7)
            cands.append([rng.randint(-2, 2) for _ in range(l * nd)])
    opts = {}
    if rng.random() < 0.5:
        opts["window"] = rng.choice([1, 2, 3])
    if rng.random() < 0.4:
        opts["penalty"] = float(rng.choice([1, 2]))
    elif stretch or rng.random() < 0.15:
        opts["penalty"] = rng.choice([0.1, 0.25, 0.5])      # below 1: the squared penalty is smaller than the penalty
    if rng.random() < 0.3:
        opts["psi"] = rng.choice([1, (1, 0, 1, 0), (0, 1, 0, 1), (0, 1, 0, 0), (0, 2, 0, 0), (1, 0, 0, 0), (0, 0, 1, 1)])
        p_ = opts["psi"]
        if isinstance(p_, tuple) and p_[1] > 0 and lq > p_[1] + 1 and rng.random() < 0.7:
            # a query whose tail only matches when it is skipped: the full-query lower bound is far above the relaxed
            # distance of the candidates that lack that tail
            for j in range(1, p_[1] + 1):
                for d_ in range(nd):
                    q[(lq - j) * nd + d_] += 5
        elif isinstance(p_, tuple) and p_[0] > 0 and lq > p_[0] + 1 and rng.random() < 0.7:
            for j in range(p_[0]):
                for d_ in range(nd):
                    q[j * nd + d_] -= 5
    return nd, q, cands, opts


def run(ctx):
    from dtaidistance.subsequence.dtw import subsequence_search
    from dtaidistance import dtw, dtw_ndim
    res = Result()
    res.rule = ("random queries x candidate lists (1..N series, duplicates and ties) x k in 1..N+1 or None x "
                "window/penalty/psi x max_dist/max_value/max_dist inside dists_options (and their combinations) x use_lb x use_c x ndim; every answer compared with the "
                "exhaustive scan computed by the plain distance routine (and, at model level, the Lean k-NN fold); "
                "operation sequences of kbest_matches/best_match/align on one object vs fresh objects; "
                "non-trivial = more than one candidate")
    rng = ctx.rng
    runs = 1500 if ctx.thorough else 260
    for it in range(runs):
        nd, q, cands, opts = gen(rng, ctx.thorough)
        qa = impl.to_container(q, "numpy", nd)
        ca = [impl.to_container(c, "numpy", nd) for c in cands]
        if "psi" in opts:
            p = dc.psi_tuple(opts["psi"])
            if any(p[0] > len(qa) or p[1] > len(qa) or p[2] > len(c) or p[3] > len(c) for c in ca) or \
                    any(dc.degenerate_psi({"s1": q, "s2": c, "ndim": nd, "psi": opts["psi"]}) for c in cands):
                del opts["psi"]
        mod = dtw if nd == 1 else dtw_ndim
        exhaustive = [float(mod.distance(qa, c, **opts)) for c in ca]      # opts holds no threshold yet
        use_lb = rng.random() < 0.6
        use_c = rng.random() < 0.5
        md = None
        mv = None
        finite = sorted(d for d in exhaustive if not math.isinf(d))
        r0 = rng.random()
        small = [0.02, 0.05] if not float(opts.get("penalty", 0)).is_integer() else []     # just above a near-copy
        # thresholds exactly ON a candidate's distance (only distances that are integers: their square is exact, so the
        # comparison in the internal representation cannot round to the other side): such a candidate is admissible
        exact_d = [d for d in finite if float(d).is_integer() and d > 0]
        if finite and r0 < 0.3:
            md = rng.choice(finite) + rng.choice([0.25, -0.25, 3.0] + small + small)
            if md <= 0:
                md = None
            if exact_d and rng.random() < 0.4:
                md = float(rng.choice(exact_d))
                res.hit("threshold_exactly_on_a_distance")
        elif finite and r0 < (0.4 if not small else 0.6):
            mv = (rng.choice(finite) + rng.choice([0.25] + small + small)) / len(qa)
        # a threshold given through dists_options: used when the max_dist argument is absent, combined with max_value
        omd = None
        if finite and rng.random() < 0.25:
            omd = rng.choice(finite) + rng.choice([0.25, -0.25, 3.0])
            if omd <= 0:
                omd = None
            elif mv is None and rng.random() < 0.6:
                mv = (rng.choice(finite) + rng.choice([0.25, 3.0])) / len(qa)
        if omd is not None:
            opts = dict(opts, max_dist=omd)
            res.hit("max_dist_in_dists_options" + ("+max_value" if mv is not None else "") +
                    ("+max_dist" if md is not None else ""))
        bound = math.inf
        if md is not None:
            bound = md
        elif omd is not None:
            bound = omd
        if mv is not None:
            bound = min(bound, mv * len(qa))
        qualifying = sorted(d for d in exhaustive if d <= bound and not math.isinf(d))
        n = len(cands)
        res.evaluations += 1
        if n > 1:
            res.nontrivial.add(repr((q, cands, sorted(opts.items()), md, mv, use_lb, use_c)))

        def fresh():
            return subsequence_search(qa, ca, dists_options=dict(opts), use_lb=use_lb, max_dist=md, max_value=mv,
                                      use_c=use_c)

        def answer(ss, k):
            ms = ss.kbest_matches(k=k)
            got = [(float(m.distance), int(m.idx)) for m in ms]
            # the other ways of reading the same answer object: slicing, len(), indexing
            alt = [(float(m.distance), int(m.idx)) for m in ms[:]]
            if alt != got or len(ms) != len(got) or (got and (float(ms[0].distance), int(ms[0].idx)) != got[0]) or \
                    (got and (float(ms[-1].distance), int(ms[-1].idx)) != got[-1]):
                access_bad.append({"k": k, "iterated": got, "sliced": alt, "len": len(ms)})
            return got

        def expected(k):
            if k is None:
                return None
            return qualifying[:k]
        info = {"q": q, "cands": cands, "opts": repr(opts), "max_dist": md, "max_value": mv, "use_lb": use_lb,
                "use_c": use_c, "ndim": nd}
        access_bad = []
        # single queries on fresh objects
        ks = [1, n, n + 1, rng.randint(1, n + 1)]
        for k in ks:
            try:
                got = answer(fresh(), k)
            except BaseException as e:
                if isinstance(e, (KeyboardInterrupt, SystemExit)):
                    raise
                res.violations.append(dict(info, clause="kbest_matches raised", k=k,
                                           got=impl.exc_name(e) + ":" + str(e)[:80]))
                continue
            exp = expected(k)
            dists = [d for d, _ in got]
            if len(dists) != len(exp) or any(not agree(impl.canon(a), impl.canon(b)) for a, b in zip(dists, exp)):
                res.violations.append(dict(info, clause="the k best matches are the k smallest distances of the "
                                                        "exhaustive scan, ascending", k=k, got=got, expected=exp,
                                           exhaustive=exhaustive))
                continue
            for d, i in got:
                if not agree(impl.canon(d), impl.canon(exhaustive[i])):
                    res.violations.append(dict(info, clause="reported index carries the reported distance", k=k,
                                               got=got, exhaustive=exhaustive))
        # k = None: all distances, ascending (values above max_dist are reported as inf)
        if it % 4 == 0:
            try:
                got = answer(fresh(), None)
                dists = [d for d, _ in got]
                exp_all = sorted((d if d <= bound else math.inf) for d in exhaustive)
                if len(dists) != n or any(not agree(impl.canon(a), impl.canon(b)) for a, b in zip(dists, exp_all)):
                    res.violations.append(dict(info, clause="k=None returns all candidates in ascending order",
                                               got=got, expected=exp_all))
            except BaseException as e:
                if isinstance(e, (KeyboardInterrupt, SystemExit)):
                    raise
                res.violations.append(dict(info, clause="kbest_matches(k=None) raised",
                                           got=impl.exc_name(e) + ":" + str(e)[:80]))
        # correspondence with the Lean model (exact internal distances and lower bounds; univariate, no psi)
        if nd == 1 and "psi" not in opts and md is None and mv is None and omd is None and \
                float(opts.get("penalty", 0)).is_integer():
            base = {"ndim": 1, "inner": "sq", "window": opts.get("window"),
                    "penalty": int(opts["penalty"]) if "penalty" in opts else None}
            dops = [dc.lean_op(dict(base, s1=q, s2=c), engine="py") for c in cands] + \
                   [dict(dc.lean_op(dict(base, s1=q, s2=c), engine="py"), op="bounds") for c in cands]
            douts = ctx.driver.run(dops)
            dists = [o["spec"] for o in douts[:n]]
            lbs = [o["lb"] for o in douts[n:]]
            kseq = [rng.choice([0, rng.randint(1, n + 1), rng.randint(1, n + 1)]) for _ in range(4)]   # 0 = None
            mo = ctx.driver.run([{"op": "knn", "dists": dists, "lbs": lbs, "useLb": use_lb, "ks": kseq}])[0]
            ss_m = fresh()
            for k, ans in zip(kseq, mo["answers"]):
                got = answer(ss_m, k if k else None)
                model_d = [math.inf if a[0] == "inf" else math.sqrt(a[0] // dc.SCALE) for a in ans]
                if k == 0:
                    res.hit("model_k_none")
                if [d for d, _ in got] != model_d:
                    res.mismatches.append(dict(info, what="k-NN scan differs from the Lean model", ks=kseq, k=k,
                                               got=got, model=ans))
                    break
            res.hit("compared_with_model")
        # histories on one object vs fresh objects
        ss = fresh()
        seq = [rng.choice([1, 2, 3, n, n + 1, "best", None, ("fast", 1), ("fast", 2), ("fast", n), ("align_fast", 2)])
               for _ in range(rng.randint(2, 6 if not ctx.thorough else 12))]
        for op in seq:
            try:
                if op == "best":
                    m = ss.best_match()
                    got = [(float(m.distance), int(m.idx))]
                    m2 = fresh().best_match()
                    ref = [(float(m2.distance), int(m2.idx))]
                elif isinstance(op, tuple) and op[0] == "fast":
                    # the `_fast` alias of the same question (answers are engine-independent)
                    ms_ = ss.kbest_matches_fast(k=op[1])
                    got = [(float(m_.distance), int(m_.idx)) for m_ in ms_]
                    if len(ms_) != len(got) or [(float(m_.distance), int(m_.idx)) for m_ in ms_[:]] != got:
                        access_bad.append({"k": op, "iterated": got, "len": len(ms_)})
                    ref = answer(fresh(), op[1])
                    res.hit("history_with_fast_alias")
                elif isinstance(op, tuple) and op[0] == "align_fast":
                    got = [(float(d_), int(i_)) for d_, i_ in ss.align_fast(k=op[1])]
                    ref = [(float(d_), int(i_)) for d_, i_ in fresh().align(k=op[1])]
                else:
                    got = answer(ss, op)
                    ref = answer(fresh(), op)
            except BaseException as e:
                if isinstance(e, (KeyboardInterrupt, SystemExit)):
                    raise
                if op == "best" and not qualifying:
                    continue   # no match at all: best_match has nothing to return
                res.violations.append(dict(info, clause="history raised", ops=seq, op=op,
                                           got=impl.exc_name(e) + ":" + str(e)[:80]))
                break
            if [d for d, _ in got] != [d for d, _ in ref]:
                res.violations.append(dict(info, clause="repeated queries on one object answer like a fresh object",
                                           ops=seq, op=op, got=got, fresh=ref))
                break
        if access_bad:
            res.violations.append(dict(info, clause="iterating, slicing, indexing and len() of the returned matches give the "
                                                    "same k best matches", first=access_bad[0]))
        # align_fast on an object created without use_c: same distances as align
        if it % 5 == 0 and nd == 1:
            try:
                from dtaidistance.subsequence.dtw import subsequence_search as _ss
                o1 = _ss(qa, ca, dists_options=dict(opts), use_lb=use_lb, max_dist=md, max_value=mv)
                o2 = _ss(qa, ca, dists_options=dict(opts), use_lb=use_lb, max_dist=md, max_value=mv)
                kk = rng.randint(1, n)
                a1 = [impl.canon(float(d)) for d, _ in o1.align_fast(k=kk)]
                a2 = [impl.canon(float(d)) for d, _ in o2.align(k=kk)]
                res.hit("align_fast")
                if len(a1) != len(a2) or any(not agree(x, y) for x, y in zip(a1, a2)):
                    res.violations.append(dict(info, clause="align_fast gives the distances of align", k=kk, fast=a1, plain=a2))
            except BaseException as e:
                if isinstance(e, (KeyboardInterrupt, SystemExit)):
                    raise
                res.violations.append(dict(info, clause="align_fast raised", got=impl.exc_name(e) + ":" + str(e)[:80]))
        res.sample(dict(info, exhaustive=exhaustive), limit=3)
    return res


def replay(ctx, rep):
    print(rep.get("violation"))
    return 1 if rep.get("violation") else 0
