"""C08 — the C engine stays within its buffers and executes no undefined behaviour."""
import json
import os
import subprocess
import sys
import tempfile

from .. import common, native
from ..core import Result
from . import c04


def run_battery(seed, tier, variant_env=None):
    native.build("asan")
    fd, progress = tempfile.mkstemp(prefix="dv_asan_", suffix=".log")
    os.close(fd)
    env = dict(os.environ)
    env["LD_PRELOAD"] = native.asan_preload()
    env["ASAN_OPTIONS"] = "detect_leaks=0:halt_on_error=1:abort_on_error=0:allocator_may_return_null=1"
    env["UBSAN_OPTIONS"] = "halt_on_error=1:print_stacktrace=1"
    env["PYTHONPATH"] = common.VERIF
    env["PYTHONMALLOC"] = "malloc"
    r = subprocess.run([sys.executable, "-m", "harness.asan_battery", str(seed), tier, progress],
                       capture_output=True, text=True, env=env, cwd=common.VERIF, timeout=3000)
    lines = [json.loads(l) for l in open(progress) if l.strip()]
    os.unlink(progress)
    return r, lines


def glue_stage(ctx, res):
    from .. import impl
    from . import c06
    rng = ctx.rng
    jobs = []
    for k in range(120 if ctx.thorough else 40):
        n = rng.randint(1, 6)
        ndim = rng.choice([1, 2, 3])
        series = c06.make_series(rng, n, ndim, rng.random() < 0.5, tagged=False)
        b = rng.choice(list(c06.all_blocks(n)))
        kw = {"window": 2} if k % 3 == 0 else {}
        jobs.append([[[list(map(float, s)) for s in series], ndim, None if b is None else list(b), kw], {}])
    env = {"PYTHONMALLOC": "debug"}
    w = impl.run_worker("glue_matrix", jobs, env_extra=env, timeout=900)
    res.hit("glue_matrix_worker")
    if w["crashed"]:
        # find the first call that brings the worker down
        first = None
        for job in jobs:
            w1 = impl.run_worker("glue_matrix", [job], env_extra=env, timeout=300)
            if w1["crashed"]:
                first = (job, w1)
                break
        job, w1 = first if first else (None, w)
        res.violations.append({"clause": "the wrapper hands the C routine a buffer of the advertised size (heap guard "
                                         "bytes intact, no crash)", "call": "dtw_cc(.omp).distance_matrix(_ndim)",
                               "input": None if job is None else {"series": job[0][0], "ndim": job[0][1],
                                                                  "block": job[0][2], "kwargs": job[0][3]},
                               "rc": w1.get("rc"), "stderr": (w1.get("stderr") or "")[-600:]})
        return
    # converted copies of long series must outlive the C call (released memory is overwritten at once in this worker)
    cjobs = []
    for k in range(6 if ctx.thorough else 3):
        L = rng.choice([160, 300, 500])
        series = [[float(rng.randint(-9, 9)) for _ in range(L)] for _ in range(rng.randint(3, 5))]
        cjobs.append([[series, ("int", "strided")[k % 2]], {}])
    wc = impl.run_worker("glue_converted", cjobs, env_extra={"MALLOC_PERTURB_": "85", "PYTHONMALLOC": "malloc"}, timeout=900)
    res.hit("glue_converted_worker")
    if wc["crashed"]:
        res.violations.append({"clause": "the converted copies of the series stay alive while the C code reads them "
                                         "(worker crashed)", "rc": wc.get("rc"), "stderr": (wc.get("stderr") or "")[-600:]})
    else:
        for job, out in zip(cjobs, wc["results"]):
            res.evaluations += 1
            for name, (a, b) in out.items():
                if json.dumps(a) != json.dumps(b):
                    res.violations.append({"clause": "the converted copies of the series stay alive while the C code reads "
                                                     "them: same result as on plain float64 copies", "routine": name,
                                           "kind": job[0][1], "length": len(job[0][0][0]),
                                           "converted": str(a)[:300], "plain": str(b)[:300]})
    for job, out in zip(jobs, w["results"]):
        res.evaluations += 1
        res.nontrivial.add(json.dumps(job[0][1:3]) + str(len(job[0][0])))
        for name, ln in out["got"].items():
            if ln != out["want"]:
                res.violations.append({"clause": "the returned buffer has one slot per selected pair", "wrapper": name,
                                       "input": {"series": job[0][0], "ndim": job[0][1], "block": job[0][2]},
                                       "length": ln, "selected_pairs": out["want"]})


def run(ctx):
    res = Result()
    res.rule = ("battery of direct calls of the exported C routines (distance x4, bounds, warping paths into a compact "
                "buffer of exactly the advertised size, expansion and slices, best path / custom start into index arrays "
                "of length l1+l2, warping_path, distance matrices serial+parallel, DBA ptrs/matrix) under ASan+UBSan with "
                "exact-size malloc'ed buffers; windows 0..max+1, psi 4-tuples, penalty/max_step/max_dist, pruning, "
                "ndim 1..3; plus red-zone canaries around caller buffers in the uninstrumented build; non-trivial = every "
                "distinct (routine, case)")
    r, lines = run_battery(ctx.seed, ctx.tier)
    done = lines and lines[-1].get("done")
    kinds = {}
    for l in lines:
        if "kind" in l:
            kinds[l["kind"]] = kinds.get(l["kind"], 0) + 1
            res.nontrivial.add(json.dumps(l, sort_keys=True))
    res.evaluations += sum(kinds.values())
    res.coverage["asan_calls_by_kind"] = kinds
    for l in lines[:3]:
        res.sample(l)
    if not done or r.returncode != 0:
        last = lines[-1] if lines else None
        report = (r.stderr or "")[-3000:]
        res.violations.append({"clause": "no out-of-bounds access / undefined behaviour (ASan+UBSan)",
                               "last_call": last, "sanitizer_report": report, "rc": r.returncode})
    # the Cython glue: buffers allocated by the dtw_cc / dtw_cc_omp wrappers, under PYTHONMALLOC=debug in a worker
    glue_stage(ctx, res)
    # red-zone canaries on the plain build (writes of the compact kernel / expansion / slices)
    lib = native.load("plain")
    from .. import dtwcases as dc
    cases = [c for c in c04.gen_cases(ctx)][: (1500 if ctx.thorough else 300)]
    outs = ctx.driver.run([dc.lean_op(c, engine="py", want_mat=True) for c in cases])
    sub = Result()
    c04.compact_part(ctx, sub, lib, cases, outs)
    res.evaluations += sub.evaluations
    for v in sub.violations:
        if "wrote outside" in v.get("clause", ""):
            res.violations.append(v)
    res.coverage["redzone_cases"] = sub.evaluations
    return res


def replay(ctx, rep):
    print(json.dumps(rep.get("violation"), indent=1)[:4000])
    return 1 if rep.get("violation") else 0
