"""C08 — the C engine stays within its buffers and executes no undefined behaviour."""
import json
import os
import subprocess
import sys
import tempfile

from .. import common, native
from ..core import Result
from . import c04


def run_battery(seed, tier, variant_env=None):
    native.build("asan")
    fd, progress = tempfile.mkstemp(prefix="dv_asan_", suffix=".log")
    os.close(fd)
    env = dict(os.environ)
    env["LD_PRELOAD"] = native.asan_preload()
    env["ASAN_OPTIONS"] = "detect_leaks=0:halt_on_error=1:abort_on_error=0:allocator_may_return_null=1"
    env["UBSAN_OPTIONS"] = "halt_on_error=1:print_stacktrace=1"
    env["PYTHONPATH"] = common.VERIF
    env["PYTHONMALLOC"] = "malloc"
    r = subprocess.run([sys.executable, "-m", "harness.asan_battery", str(seed), tier, progress],
                       capture_output=True, text=True, env=env, cwd=common.VERIF, timeout=3000)
    lines = [json.loads(l) for l in open(progress) if l.strip()]
    os.unlink(progress)
    return r, lines


def run(ctx):
    res = Result()
    res.rule = ("battery of direct calls of the exported C routines (distance x4, bounds, warping paths into a compact "
                "buffer of exactly the advertised size, expansion and slices, best path / custom start into index arrays "
                "of length l1+l2, warping_path, distance matrices serial+parallel, DBA ptrs/matrix) under ASan+UBSan with "
                "exact-size malloc'ed buffers; windows 0..max+1, psi 4-tuples, penalty/max_step/max_dist, pruning, "
                "ndim 1..3; plus red-zone canaries around caller buffers in the uninstrumented build; non-trivial = every "
                "distinct (routine, case)")
    r, lines = run_battery(ctx.seed, ctx.tier)
    done = lines and lines[-1].get("done")
    kinds = {}
    for l in lines:
        if "kind" in l:
            kinds[l["kind"]] = kinds.get(l["kind"], 0) + 1
            res.nontrivial.add(json.dumps(l, sort_keys=True))
    res.evaluations += sum(kinds.values())
    res.coverage["asan_calls_by_kind"] = kinds
    for l in lines[:3]:
        res.sample(l)
    if not done or r.returncode != 0:
        last = lines[-1] if lines else None
        report = (r.stderr or "")[-3000:]
        res.violations.append({"clause": "no out-of-bounds access / undefined behaviour (ASan+UBSan)",
                               "last_call": last, "sanitizer_report": report, "rc": r.returncode})
    # red-zone canaries on the plain build (writes of the compact kernel / expansion / slices)
    lib = native.load("plain")
    from .. import dtwcases as dc
    cases = [c for c in c04.gen_cases(ctx)][: (1500 if ctx.thorough else 300)]
    outs = ctx.driver.run([dc.lean_op(c, engine="py", want_mat=True) for c in cases])
    sub = Result()
    c04.compact_part(ctx, sub, lib, cases, outs)
    res.evaluations += sub.evaluations
    for v in sub.violations:
        if "wrote outside" in v.get("clause", ""):
            res.violations.append(v)
    res.coverage["redzone_cases"] = sub.evaluations
    return res


def replay(ctx, rep):
    print(json.dumps(rep.get("violation"), indent=1)[:4000])
    return 1 if rep.get("violation") else 0
