"""C04 — accumulated-cost matrix: cell-wise optimal, identical across engines."""
import ctypes as C
import math

import numpy as np

from .. import dtwcases as dc
from .. import impl, native
from ..core import Result
from . import c01

INF = math.inf


def gen_cases(ctx):
    rng = ctx.rng
    cases = list(CORPUS)
    for c in dc.exhaustive_cases(4, rng=rng, limit_values=1):
        cases.append(c)
    n_rand = 6000 if ctx.thorough else 700
    maxlen = 24 if ctx.thorough else 9
    for k in range(n_rand):
        ndim = rng.choice([1, 1, 1, 2])
        c = dc.rand_case(rng, maxlen if k % 3 else 5, ndim=ndim, allow_mld=False)
        if ndim > 1:
            c["inner"] = "sq"
        k2 = rng.random()
        if k2 < 0.2:
            c["max_dist_I"] = 2 * rng.randint(0, 30) + 1
        elif k2 < 0.3 and (not c.get("penalty") or len(c["s1"]) == len(c["s2"])) and not c.get("max_step"):
            c["use_pruning"] = True
        c["psi_neg"] = rng.random() < 0.5
        c["keep_int_repr"] = rng.random() < 0.5
        cases.append(c)
    return [c for c in cases if dc.psi_in_range(c) and not dc.degenerate_psi(c)
            and not (c.get("window") is not None and c["window"] < 1)]


CORPUS = [
    {"s1": [0, 1], "s2": [2, 0], "window": 1, "inner": "sq"},
    {"s1": [0, 1, 2, 1], "s2": [1, 0, 2, 1], "window": 2, "inner": "sq"},
    {"s1": [0, 1, 2, 1, 0], "s2": [1, 0, 2, 1, 0, 1], "window": 3, "inner": "sq"},
    {"s1": [0, 1, 2, 1, 0, 2, 1, 0], "s2": [1, 0, 2, 1, 0, 1, 2, 2], "window": 2, "inner": "sq", "psi": 2,
     "psi_neg": True},
]


def to_val(case, n, keep_int):
    """model cell (scaled internal) -> float the implementation must hold"""
    if n == "inf":
        return INF
    v = n // dc.SCALE
    if keep_int or case.get("inner", "sq") != "sq":
        return float(v)
    return math.sqrt(v)


def expected_matrix(case, out, keep_int, psi_neg):
    mat = [[to_val(case, x, keep_int) for x in row] for row in out["matP"]]
    if psi_neg:
        for (i, j) in out["neg"]:
            mat[i][j] = -1.0
    return mat


def expected_d(case, out, keep_int):
    n = out["wpsD"]
    m = case.get("max_dist_I")
    if keep_int:
        # `if s.adj_max_dist and d > s.adj_max_dist` (also under use_pruning, where adj = ED)
        thr = m if m is not None else (out["ed"] if case.get("use_pruning") else None)
        if thr is not None and thr != 0 and (n == "inf" or n > thr):
            return INF
        return to_val(case, n, True)
    # `if s.max_dist and d > s.max_dist` on the transformed value, user max_dist only
    if m is not None and (n == "inf" or n > m):
        return INF
    return to_val(case, n, False)


def call_py(case, fast=False, compact=False, via_use_c=False):
    from dtaidistance import dtw, dtw_ndim
    nd = case.get("ndim", 1)
    kw = dc.py_kwargs(case)
    s1 = impl.to_container(case["s1"], "numpy", nd)
    s2 = impl.to_container(case["s2"], "numpy", nd)
    mod = dtw if nd == 1 else dtw_ndim
    extra = {"psi_neg": bool(case.get("psi_neg", True)), "keep_int_repr": bool(case.get("keep_int_repr", False))}
    try:
        if via_use_c:
            r = mod.warping_paths(s1, s2, use_c=True, **extra, **kw)     # the generic entry point handing over to C
        elif fast:
            r = mod.warping_paths_fast(s1, s2, compact=compact, **extra, **kw)
        else:
            r = mod.warping_paths(s1, s2, **extra, **kw)
        d, m = r
        return impl.canon(d), np.array(m, dtype=float)
    except BaseException as e:
        if isinstance(e, (KeyboardInterrupt, SystemExit)):
            raise
        return impl.exc_name(e), None


def mat_equal(a, b):
    a = np.asarray(a, dtype=float)
    b = np.asarray(b, dtype=float)
    if a.shape != b.shape:
        return False
    return bool(np.all((a == b) | (np.isnan(a) & np.isnan(b))))


def property_cells(case, out, mat, keep_int, psi_neg, d_ret=None):
    """evaluate the property itself on an implementation matrix; returns list of offending cells"""
    r, c = dc.npoints(case)
    bad = []
    if mat.shape != (r + 1, c + 1):
        return [("shape", mat.shape)]
    m = case.get("max_dist_I")
    if m is None and case.get("use_pruning"):
        m = out["ed"]
    neg = set(map(tuple, out["neg"])) if psi_neg else set()
    for I in range(r + 1):
        for J in range(c + 1):
            d_true = out["matU"][I][J]
            got = mat[I, J]
            if got == -1.0:
                # marking is only allowed on relaxed end cells; when no admissible end exists at all
                # (true or thresholded distance infinite) "the cells skipped by the relaxation" is undefined, so any
                # marking inside the last row / last column is tolerated
                lastline = (I == r or J == c)
                if not psi_neg or not (end_region(case, I, J) or ((out["spec"] == "inf" or d_ret in ("inf", INF)) and lastline)):
                    bad.append((I, J, got, "unexpected -1"))
                continue
            want = to_val(case, d_true, keep_int)
            if got == want:
                continue
            above = m is not None and (d_true == "inf" or d_true > m)
            if above and d_true != "inf":
                thr = to_val(case, m, keep_int) if m % dc.SCALE == 0 else to_val_real(case, m, keep_int)
                if got == INF or got > thr:
                    continue
            bad.append((I, J, got, want))
    return bad


def to_val_real(case, n, keep_int):
    v = n / dc.SCALE
    if keep_int or case.get("inner", "sq") != "sq":
        return float(v)
    return math.sqrt(v)


def end_region(case, I, J):
    r, c = dc.npoints(case)
    p = dc.psi_tuple(case.get("psi"))
    return (J == c and r - p[1] <= I <= r) or (I == r and c - p[3] <= J <= c)


def run(ctx):
    res = Result()
    res.rule = ("corpus + exhaustive small + random cases (window, psi, penalty, max_step, max_dist, pruning, ndim, "
                "keep_int_repr, psi_neg); every matrix compared cell by cell; non-trivial = clipped band, psi, "
                "threshold or -1 marking involved")
    cases = gen_cases(ctx)
    ops = [dc.lean_op(c, engine="py", want_mat=True) for c in cases]
    outs = ctx.driver.run(ops)
    for case, out in zip(cases, outs):
        if "error" in out:
            raise RuntimeError("driver: %s" % out["error"])
        keep_int = bool(case.get("keep_int_repr", False))
        psi_neg = bool(case.get("psi_neg", True))
        exp_m = expected_matrix(case, out, keep_int, psi_neg)
        exp_d = impl.canon(expected_d(case, out, keep_int))
        tags = c01.nontrivial(case) + (["maxdist"] if case.get("max_dist_I") else []) + \
            (["prune"] if case.get("use_pruning") else []) + (["neg"] if (psi_neg and out["neg"]) else [])
        for t in tags:
            res.hit(t)
        if tags:
            res.nontrivial.add(dc.case_key(case))
        for route, (d, mat) in (("python warping_paths", call_py(case)),
                                ("C warping_paths_fast", call_py(case, fast=True)),
                                ("C warping_paths(use_c=True)", call_py(case, via_use_c=True))):
            res.evaluations += 1
            if mat is None:
                res.violations.append({"clause": "routine raised", "route": route, "case": case, "got": d})
                continue
            bad = property_cells(case, out, mat, keep_int, psi_neg, d)
            dist_only = impl.py_distance({k: v for k, v in case.items() if k not in ("psi_neg", "keep_int_repr")},
                                         "numpy", fast=route.startswith("C"))
            d_cmp = d
            if keep_int and case.get("inner", "sq") == "sq" and not isinstance(d, str):
                d_cmp = impl.canon(math.sqrt(d)) if d != INF else "inf"
            if isinstance(d_cmp, float) and math.isinf(d_cmp):
                d_cmp = "inf"
            if bad:
                res.violations.append({"clause": "cell-wise optimal / inf outside band / freedom above max_dist",
                                       "route": route, "case": case, "bad_cells": bad[:6],
                                       "kwargs": repr(dc.py_kwargs(case))})
            elif not same(d_cmp, dist_only):
                res.violations.append({"clause": "returned distance equals the distance-only routine",
                                       "route": route, "case": case, "d": d, "distance_only": dist_only,
                                       "kwargs": repr(dc.py_kwargs(case))})
            elif route.startswith("python") and (not mat_equal(mat, exp_m) or d != exp_d):
                res.mismatches.append({"route": route, "case": case, "d": d, "model_d": exp_d,
                                       "matrix_equal": mat_equal(mat, exp_m)})
        res.sample({"case": case, "model_d": exp_d, "neg": out["neg"]}, limit=4)
    lib = native.load("plain")
    layout_part(ctx, res, lib)
    compact_part(ctx, res, lib, cases, outs)
    float_stream(ctx, res)
    return res


def float_stream(ctx, res):
    """real-valued, small-amplitude series (accumulated costs below 1) with thresholds in (0, 1): the configuration in
    which a threshold and its square differ the other way round; matrices of the three C forms and of the Python
    engine against an unpruned floating-point evaluation of the recurrence (tolerance 1e-9, cells within 1e-9 of the
    threshold skipped)"""
    import numpy as np
    from dtaidistance import dtw, dtw_cc
    rng = ctx.rng
    tol = 1e-9
    for _ in range(1500 if ctx.thorough else 150):
        l1, l2 = rng.randint(1, 7), rng.randint(1, 7)
        amp = rng.choice([0.05, 0.1, 1.0])
        s1 = np.array([amp * rng.randint(-4, 4) for _ in range(l1)])
        s2 = np.array([amp * rng.randint(-4, 4) for _ in range(l2)])
        inner = rng.choice(["squared euclidean", "euclidean", "euclidean"])
        window = rng.choice([None, None, 1, 2, 3])
        penalty = rng.choice([None, 0.05, 0.5])
        md = rng.choice([None, 0.35, 0.8, 3.0])
        kw = {"inner_dist": inner}
        if window: kw["window"] = window
        if penalty: kw["penalty"] = penalty
        if md: kw["max_dist"] = md
        sq = inner == "squared euclidean"
        w = window or max(l1, l2)
        pen = (penalty or 0.0) ** (2 if sq else 1)
        R = np.full((l1 + 1, l2 + 1), math.inf)
        R[0, 0] = 0.0
        band = np.zeros((l1 + 1, l2 + 1), dtype=bool)
        for i in range(l1):
            for j in range(max(0, i - max(0, l1 - l2) - w + 1), min(l2, i + max(0, l2 - l1) + w)):
                band[i + 1, j + 1] = True
                d = (s1[i] - s2[j]) ** 2 if sq else abs(s1[i] - s2[j])
                R[i + 1, j + 1] = d + min(R[i, j], R[i, j + 1] + pen, R[i + 1, j] + pen)
        Ru = np.sqrt(R) if sq else R
        res.evaluations += 1
        res.hit("float_stream")
        res.nontrivial.add(repr(("float", s1.tolist(), s2.tolist(), sorted(kw.items()))))

        def compact():
            d, mk = dtw.warping_paths_fast(s1, s2, compact=True, **kw)
            st = dtw_cc.DTWSettings(**{k: v for k, v in dtw.DTWSettings(**kw).c_kwargs().items()})
            full = np.empty((l1 + 1, l2 + 1))
            dtw_cc.wps_expand_slice(mk, full, l1, l2, 0, l1 + 1, 0, l2 + 1, st)
            return d, full
        for route, fn in (("python warping_paths", lambda: dtw.warping_paths(s1, s2, **kw)),
                          ("C warping_paths_fast", lambda: dtw.warping_paths_fast(s1, s2, **kw)),
                          ("C compact + expansion", compact)):
            try:
                d, m = fn()
                m = np.array(m, dtype=float)
            except BaseException as ex:
                if isinstance(ex, (KeyboardInterrupt, SystemExit)):
                    raise
                if route.startswith("C compact"):
                    continue        # affinity-style expansion entry point may reject plain settings; covered elsewhere
                res.violations.append({"clause": "routine raised", "route": route, "s1": s1.tolist(), "s2": s2.tolist(),
                                       "kw": kw, "got": type(ex).__name__ + ":" + str(ex)[:100]})
                continue
            bad = []
            for i in range(l1 + 1):
                for j in range(l2 + 1):
                    ref, v = Ru[i, j], m[i, j]
                    if i == 0 or j == 0 or not band[i, j]:
                        if not (math.isinf(v) or (i == 0 and j == 0 and v == 0)):
                            bad.append((i, j, v, "outside the band / border"))
                        continue
                    if md and abs(ref - md) < tol:
                        continue
                    if md and ref > md:
                        if not (math.isinf(v) or v > md - tol):
                            bad.append((i, j, v, ref))
                    elif not (abs(v - ref) <= tol * max(1.0, abs(ref))):
                        bad.append((i, j, v, ref))
            if bad:
                res.violations.append({"clause": "cell-wise optimal / inf outside band / freedom above max_dist "
                                                 "(real-valued data)", "route": route, "s1": s1.tolist(),
                                       "s2": s2.tolist(), "kw": kw, "bad_cells": bad[:6]})


def layout_part(ctx, res, lib):
    """exhaustive comparison of the compact-layout arithmetic (dtw_wps_parts / loc / loc_columns / width / length)"""
    maxl = 16 if ctx.thorough else 9
    combos = [(l1, l2, w) for l1 in range(1, maxl + 1) for l2 in range(1, maxl + 1)
              for w in range(0, max(l1, l2) + 2)]
    outs = ctx.driver.run([{"op": "parts", "l1": a, "l2": b, "window": w} for a, b, w in combos])
    cells = 0
    for (l1, l2, w), out in zip(combos, outs):
        s = lib.dtw_settings_default()
        s.window = w
        p = lib.dtw_wps_parts(l1, l2, C.byref(s))
        got = {k: getattr(p, k) for k in ("ldiff", "ldiffr", "ldiffc", "window", "width", "length", "ri1", "ri2", "ri3")}
        got["ol"], got["or"] = p.overlap_left_ri, p.overlap_right_ri
        exp = {k: out[k] for k in got}
        res.evaluations += 1
        key = ("layout", l1, l2, w)
        if w and w < max(l1, l2):
            res.nontrivial.add(repr(key))
        bad = None
        if got != exp:
            bad = {"what": "dtw_wps_parts", "impl": got, "model": exp}
        elif lib.dtw_settings_wps_width(l1, l2, C.byref(s)) != exp["width"] or \
                lib.dtw_settings_wps_length(l1, l2, C.byref(s)) != exp["length"]:
            bad = {"what": "dtw_settings_wps_width/length"}
        else:
            for r in range(1, l1 + 1):
                cb, ce = native.idx_t(-7), native.idx_t(-7)
                base = lib.dtw_wps_loc_columns(C.byref(p), r, C.byref(cb), C.byref(ce), l1, l2)
                mb, mcb, mce = out["rows"][r - 1]
                if (base, cb.value, ce.value) != (mb, mcb, mce):
                    bad = {"what": "dtw_wps_loc_columns", "row": r, "impl": [base, cb.value, ce.value], "model": [mb, mcb, mce]}
                    break
                # stored cells stay inside their own compact row and inside the buffer
                hi = min(mce, l2 + 1)
                if not (r * exp["width"] <= mb and mb + (hi - mcb) <= (r + 1) * exp["width"]):
                    res.violations.append({"clause": "compact row exceeds its row of the advertised buffer",
                                           "l1": l1, "l2": l2, "window": w, "row": r, "loc_columns": [mb, mcb, mce]})
                for c in range(mcb, hi):
                    cells += 1
                    if lib.dtw_wps_loc(C.byref(p), r, c, l1, l2) != mb + (c - mcb):
                        bad = {"what": "dtw_wps_loc", "cell": [r, c]}
                        break
                if bad:
                    break
        if bad:
            res.mismatches.append(dict(bad, l1=l1, l2=l2, window=w))
    res.coverage["layout_combos"] = len(combos)
    res.coverage["layout_cells"] = cells
    res.coverage["layout_exhaustive_upto"] = maxl


def compact_part(ctx, res, lib, cases, outs):
    """C kernel into an exactly sized compact buffer with red zones -> model expansion / C expansion / slices"""
    rng = ctx.rng
    RZ = 16
    SENT = -12345.25
    ops, meta = [], []
    for case, out in zip(cases, outs):
        if case.get("ndim", 1) != 1:
            continue
        r, c = dc.npoints(case)
        s = native.settings_from_case(case)
        length = lib.dtw_settings_wps_length(r, c, C.byref(s))
        buf = np.full(length + 2 * RZ, SENT)
        a = native.darr(case["s1"]); b = native.darr(case["s2"])
        wps_ptr = buf[RZ:].ctypes.data_as(C.POINTER(C.c_double))
        fn = lib.dtw_warping_paths_euclidean if case.get("inner") == "abs" else lib.dtw_warping_paths
        fn(wps_ptr, a, r, b, c, True, True, False, C.byref(s))
        res.evaluations += 1
        if not (np.all(buf[:RZ] == SENT) and np.all(buf[RZ + length:] == SENT)):
            res.violations.append({"clause": "C kernel wrote outside the compact buffer of the advertised size",
                                   "case": case, "length": int(length)})
            continue
        comp = buf[RZ:RZ + length]
        # full matrix through C expansion
        full = np.full((r + 1) * (c + 1) + 2 * RZ, SENT)
        lib.dtw_expand_wps(wps_ptr, full[RZ:].ctypes.data_as(C.POINTER(C.c_double)), r, c, C.byref(s))
        if not (np.all(full[:RZ] == SENT) and np.all(full[RZ + (r + 1) * (c + 1):] == SENT)):
            res.violations.append({"clause": "dtw_expand_wps wrote outside the full matrix", "case": case})
            continue
        fullm = full[RZ:RZ + (r + 1) * (c + 1)].reshape((r + 1, c + 1))
        bad = property_cells(case, out, fullm, True, False, None)
        if bad:
            res.violations.append({"clause": "compact kernel + dtw_expand_wps: cell-wise optimal", "case": case,
                                   "bad_cells": bad[:6]})
            continue
        # a few slices through C, compared with the sub-matrix
        for _ in range(3):
            rb = rng.randint(0, r); re_ = rng.randint(rb + 1, r + 1)
            cb = rng.randint(0, c); ce = rng.randint(cb + 1, c + 1)
            n = (re_ - rb) * (ce - cb)
            sl = np.full(n + 2 * RZ, SENT)
            lib.dtw_expand_wps_slice(wps_ptr, sl[RZ:].ctypes.data_as(C.POINTER(C.c_double)), r, c, rb, re_, cb, ce,
                                     C.byref(s))
            res.evaluations += 1
            if not (np.all(sl[:RZ] == SENT) and np.all(sl[RZ + n:] == SENT)):
                res.violations.append({"clause": "dtw_expand_wps_slice wrote outside the slice buffer",
                                       "case": case, "slice": [rb, re_, cb, ce]})
                break
            got = sl[RZ:RZ + n].reshape((re_ - rb, ce - cb))
            if not mat_equal(got, fullm[rb:re_, cb:ce]):
                res.violations.append({"clause": "slice expansion equals the sub-matrix of the full expansion",
                                       "case": case, "slice": [rb, re_, cb, ce]})
                break
            if rb > 0:
                res.hit("slice_rb>0")
        # model expansion of the implementation's compact buffer
        p = dc.psi_tuple(case.get("psi"))
        ops.append({"op": "expand", "l1": r, "l2": c, "window": case.get("window") or 0, "psi1b": p[0], "psi2b": p[2],
                    "wps": [("inf" if math.isinf(x) else int(x)) for x in comp], "slice": [0, r + 1, 0, c + 1]})
        meta.append((case, fullm))
    for (case, fullm), o in zip(meta, ctx.driver.run(ops)):
        m = np.array([[INF if x == "inf" else float(x) for x in row] for row in o["mat"]])
        if not mat_equal(m, fullm):
            res.mismatches.append({"what": "model expandSlice vs dtw_expand_wps", "case": case})
    res.coverage["compact_cases"] = len(meta)


def same(a, b):
    from .c02 import agree
    return agree(a, b)


def replay(ctx, rep):
    v = rep.get("violation") or {}
    case = v.get("case")
    if case is None:
        print("no concrete input:", rep.get("no_longer_checks"))
        return 0
    out = ctx.driver.run([dc.lean_op(case, engine="py", want_mat=True)])[0]
    for fast in (False, True):
        d, mat = call_py(case, fast=fast)
        print("fast=%s d=%s\n%s" % (fast, d, mat))
    print("spec matrix (x%d, internal):" % dc.SCALE, out["matU"])
    return 1
