"""C06 — distance matrix = pairwise distances in the documented layout, any block."""
import ctypes as C
import math

import numpy as np

from .. import dtwcases as dc
from .. import impl, native
from ..core import Result

INF = math.inf


def all_blocks(n):
    yield None
    for rb in range(0, n):
        for re_ in range(rb + 1, n + 1):
            for cb in range(0, n):
                for ce in range(cb + 1, n + 1):
                    yield (rb, re_, cb, ce, True)
                    yield (rb, re_, cb, ce, False)


def block_arg(b):
    if b is None:
        return None
    rb, re_, cb, ce, triu = b
    return ((rb, re_), (cb, ce)) if triu else ((rb, re_), (cb, ce), False)


def block_op(n, b):
    op = {"op": "matrixplan", "n": n}
    if b is not None:
        op["block"] = list(b[:4])
        op["triu"] = bool(b[4])
    return op


def make_series(rng, n, ndim, equal_len, tagged):
    out = []
    L = rng.randint(1, 4)
    for i in range(n):
        ln = L if equal_len else rng.randint(1, 5)
        if tagged:
            # constant series with value 3^i: the distance identifies the unordered pair
            vals = [3 ** i] * (ln * ndim)
        else:
            vals = [rng.randint(-3, 3) for _ in range(ln * ndim)]
        out.append(vals)
    return out


def container(series, ndim, kind):
    arrs = [np.array(s, dtype=np.double).reshape((-1, ndim)) if ndim > 1 else np.array(s, dtype=np.double)
            for s in series]
    if kind == "list":
        return arrs
    if kind == "list_views":
        # the same numbers as views into wider / longer recordings: the first channels of a wider array, every second
        # sample of a longer one (inner stride one item, but not contiguous), or every second item of a 1-D buffer
        out = []
        for k_, a in enumerate(arrs):
            if a.ndim == 1:
                big = np.full(2 * len(a), 91.0)
                big[::2] = a
                out.append(big[::2])
            elif k_ % 2 == 0:
                wide = np.full((a.shape[0], a.shape[1] + 2), -37.0)
                wide[:, :a.shape[1]] = a
                out.append(wide[:, :a.shape[1]])
            else:
                long_ = np.full((2 * a.shape[0], a.shape[1]), 53.0)
                long_[::2] = a
                out.append(long_[::2])
        return out
    if kind == "matrix":
        return np.array(arrs)
    raise ValueError(kind)


def pair_case(series, ndim, r, c, settings):
    case = {"s1": series[r], "s2": series[c], "ndim": ndim}
    case.update(settings)
    return case


def run(ctx):
    from dtaidistance import dtw, dtw_ndim, dtw_cc
    res = Result()
    res.rule = ("every block ((rb,re),(cb,ce)[,triu]) on n series (incl. blocks selecting no pair) x {compact, square, "
                "only_triu} x {Python serial, C serial, direct C} x {list of arrays, 2-D/3-D matrix} x ndim 1..3 with "
                "tagged series (value 3^i) so the produced order is observable, plus random series/settings compared "
                "with single-pair distances; non-trivial = a proper sub-block or a non-default setting")
    lib = native.load("plain")
    rng = ctx.rng
    nmax = 7 if ctx.thorough else 5
    configs = []
    for n in range(1, nmax + 1):
        blocks = list(all_blocks(n))
        if n >= 5 and not ctx.thorough:
            blocks = [None] + rng.sample(blocks[1:], 120)
        for b in blocks:
            configs.append((n, b))
    outs = ctx.driver.run([block_op(n, b) for n, b in configs])
    for k, ((n, b), plan) in enumerate(zip(configs, outs)):
        if "error" in plan:
            raise RuntimeError(plan["error"])
        pairs = [tuple(p) for p in plan["pairs"]]
        res.evaluations += 1
        if b is not None and len(pairs) != n * (n - 1) // 2:
            res.nontrivial.add(repr((n, b)))
        # ---- lengths
        barg = block_arg(b)
        try:
            lp = dtw._distance_matrix_length(barg, n)
        except BaseException as e:
            lp = impl.exc_name(e)
        cblk = native.DTWBlock(*(b[:4] if b else (0, 0, 0, 0)), b[4] if b else True)
        lc = lib.dtw_distances_length(C.byref(cblk), n, n)
        if b is not None:
            lcy = dtw_cc.distance_matrix_length(dtw_cc.DTWBlock(b[0], b[1], b[2], b[3], triu=b[4]), n)
        else:
            lcy = dtw_cc.distance_matrix_length(dtw_cc.DTWBlock(0, 0, 0, 0), n)
        if not (lp == lc == lcy == len(pairs)):
            res.violations.append({"clause": "advertised length == number of selected pairs (Python, C, Cython)",
                                   "n": n, "block": b, "python": lp, "c": int(lc), "cython": int(lcy),
                                   "pairs": len(pairs)})
            continue
        if lp != plan["lengthPy"] or lc != plan["lengthC"]:
            res.mismatches.append({"what": "length model", "n": n, "block": b, "impl": [lp, int(lc)],
                                   "model": [plan["lengthPy"], plan["lengthC"]]})
        # ---- condensed index helper
        if b is None:
            for a, bb, i1, i2 in plan["condensed"]:
                if pairs[i1] != (a, bb) or i1 != i2:
                    res.mismatches.append({"what": "model condensedIndex", "n": n, "a": a, "b": bb})
                got = [dtw.distance_array_index(a, bb, n), dtw.distance_array_index(bb, a, n)]
                if got != [i1, i1]:
                    res.violations.append({"clause": "condensed-index helper addresses the pair's element",
                                           "n": n, "a": a, "b": bb, "got": got, "expected": i1})
        # ---- values / order with tagged series
        ndim = (1, 1, 2, 3)[k % 4]
        equal_len = (k % 3 != 0)
        kind = "matrix" if (equal_len and k % 2) else ("list", "list_views")[k % 5 == 0]
        series = make_series(rng, n, ndim, equal_len, tagged=True)
        data = container(series, ndim, kind)
        if ndim == 1:
            exp = [abs(3 ** r - 3 ** c) * math.sqrt(max(len(series[r]), len(series[c]))) for r, c in pairs]
        else:
            exp = [abs(3 ** r - 3 ** c) * math.sqrt(ndim * max(len(series[r]), len(series[c])) // ndim)
                   for r, c in pairs]
        mod = dtw if ndim == 1 else dtw_ndim
        for eng, kw in (("python", {"use_c": False}), ("c", {"use_c": True})):
            res.evaluations += 1
            extra = {} if ndim == 1 else {"ndim": ndim}
            try:
                ctx.crumb(call="%s.distance_matrix(compact=True, parallel=False)" % mod.__name__, engine=eng, block=b,
                          ndim=ndim, container=kind, series=series)
                got = list(mod.distance_matrix(data, block=barg, compact=True, parallel=False, **extra, **kw))
            except BaseException as e:
                if isinstance(e, (KeyboardInterrupt, SystemExit)):
                    raise
                res.violations.append({"clause": "compact result", "engine": eng, "n": n, "block": b, "ndim": ndim,
                                       "container": kind, "got": impl.exc_name(e) + ": " + str(e)[:100]})
                continue
            if len(got) != len(pairs) or any(not close(g, e) for g, e in zip(got, exp)):
                res.violations.append({"clause": "compact result lists the pairwise distances in row-major order of "
                                                 "the selected pairs", "engine": eng, "n": n, "block": b,
                                       "ndim": ndim, "container": kind, "got": got, "expected": exp,
                                       "pairs": pairs})
                continue
            # square forms (not allowed for triu=False blocks)
            if b is None or b[4]:
                for only_triu in (False, True):
                    try:
                        sq = np.array(mod.distance_matrix(data, block=barg, compact=False, parallel=False,
                                                          only_triu=only_triu, **extra, **kw))
                    except BaseException as e:
                        if isinstance(e, (KeyboardInterrupt, SystemExit)):
                            raise
                        res.violations.append({"clause": "square form", "engine": eng, "n": n, "block": b,
                                               "got": impl.exc_name(e)})
                        continue
                    if len(pairs) == 0 and b is not None and isinstance(sq, np.ndarray) and sq.size == 0:
                        continue   # documented: an empty block returns []
                    want = np.full((n, n), INF)
                    for (r, c), v in zip(pairs, exp):
                        want[r, c] = v
                        if not only_triu:
                            want[c, r] = v
                    if not only_triu:
                        np.fill_diagonal(want, 0)
                    if sq.shape != want.shape or not np.all(np.isclose(sq, want) | ((sq == INF) & (want == INF))):
                        res.violations.append({"clause": "square form = compact data mirrored around a zero diagonal "
                                                         "(upper triangle only when requested), inf outside the block",
                                               "engine": eng, "n": n, "block": b, "only_triu": only_triu,
                                               "got": sq.tolist(), "expected": want.tolist()})
        if k % 50 == 0:
            res.sample({"n": n, "block": b, "pairs": pairs[:8], "length": len(pairs), "ndim": ndim, "container": kind})
    res.coverage["blocks"] = len(configs)
    res.coverage["exhaustive"] = False
    random_part(ctx, res, lib)
    return res


def close(a, b):
    return a == b or abs(a - b) <= 4 * math.ulp(max(abs(a), abs(b)))


def random_part(ctx, res, lib):
    """random series + random DTW settings: every entry equals the single-pair distance of the same engine and
    the two engines agree (the kernel itself is C01/C02's business)"""
    from dtaidistance import dtw, dtw_ndim
    rng = ctx.rng
    nruns = 300 if ctx.thorough else 50
    for _ in range(nruns):
        n = rng.randint(2, 6)
        ndim = rng.choice([1, 1, 2])
        equal_len = rng.random() < 0.5
        series = make_series(rng, n, ndim, equal_len, tagged=False)
        kind = "matrix" if (equal_len and rng.random() < 0.5) else rng.choice(["list", "list_views"])
        data = container(series, ndim, kind)
        settings = {"window": rng.choice([None, 1, 2, 3]), "penalty": rng.choice([None, 1]),
                    "psi": rng.choice([None, 1, (1, 0, 0, 1), (0, 1, 1, 0), (2, 0, 0, 0), (0, 0, 0, 2)]), "inner": "sq",
                    "max_length_diff": rng.choice([None, None, 1, 2])}
        if settings["psi"]:
            # per-series psi entries (asymmetric tuples) must be admissible for every ordered pair
            ok = True
            for a in series:
                for b_ in series:
                    cs = {"s1": a, "s2": b_, "ndim": ndim, "psi": settings["psi"]}
                    if not dc.psi_in_range(cs) or dc.degenerate_psi(cs):
                        ok = False
            if not ok:
                settings["psi"] = None
        if isinstance(settings["psi"], tuple):
            res.hit("asymmetric_psi")
        blocks = list(all_blocks(n))
        b = rng.choice(blocks)
        plan = ctx.driver.run([block_op(n, b)])[0]
        pairs = [tuple(p) for p in plan["pairs"]]
        kw = dc.py_kwargs(settings)
        mod = dtw if ndim == 1 else dtw_ndim
        extra = {} if ndim == 1 else {"ndim": ndim}
        res.evaluations += 1
        res.nontrivial.add(repr((n, b, tuple(map(tuple, series)))))
        got = {}
        for eng, use_c in (("python", False), ("c", True), ("c_fast_wrapper", "fast")):
            try:
                ctx.crumb(call="%s.distance_matrix(compact=True, parallel=False)" % mod.__name__, engine=eng, block=b,
                          ndim=ndim, container=kind, series=series, settings=settings)
                if use_c == "fast":
                    got[eng] = list(mod.distance_matrix_fast(data, block=block_arg(b), compact=True, parallel=False,
                                                             **extra, **kw))
                else:
                    got[eng] = list(mod.distance_matrix(data, block=block_arg(b), compact=True, parallel=False,
                                                        use_c=use_c, **extra, **kw))
            except BaseException as e:
                if isinstance(e, (KeyboardInterrupt, SystemExit)):
                    raise
                res.violations.append({"clause": "compact result", "engine": eng, "n": n, "block": b,
                                       "got": impl.exc_name(e) + ": " + str(e)[:100], "settings": settings})
                got[eng] = None
        single = [impl.py_distance(pair_case(series, ndim, r, c, settings), "numpy") for r, c in pairs]
        for eng in ("python", "c", "c_fast_wrapper"):
            if got[eng] is None:
                continue
            g = [impl.canon(x) for x in got[eng]]
            if len(g) != len(single) or any(not (a == b or (isinstance(a, float) and isinstance(b, float) and close(a, b)))
                                            for a, b in zip(g, single)):
                res.violations.append({"clause": "entry k is the distance of the k-th selected pair", "engine": eng,
                                       "n": n, "block": b, "series": series, "settings": settings, "got": g,
                                       "single_pair": single, "pairs": pairs})


def replay(ctx, rep):
    print(rep.get("violation"))
    return 1 if rep.get("violation") else 0
