"""C11 — multivariate DTW is DTW with vector point distances, in both engines."""
import math

import numpy as np

from .. import dtwcases as dc
from .. import impl
from ..core import Result
from .c02 import agree
from . import c04, c05


def ref_dtw(case, inner):
    """independent float reference (full-matrix DP) for the vector point distance"""
    nd = case["ndim"]
    a = np.array(case["s1"], dtype=float).reshape((-1, nd))
    b = np.array(case["s2"], dtype=float).reshape((-1, nd))
    r, c = len(a), len(b)
    w = case.get("window") or max(r, c)
    pen = float(case.get("penalty") or 0)
    if inner == "sq":
        pen = pen * pen
    p1b, p1e, p2b, p2e = dc.psi_tuple(case.get("psi"))
    ms = case.get("max_step")
    if ms is not None:
        ms = float(ms) ** 2 if inner == "sq" else float(ms)
    D = np.full((r + 1, c + 1), math.inf)
    D[0, :p2b + 1] = 0
    D[:p1b + 1, 0] = 0
    for i in range(r):
        js = max(0, i - max(0, r - c) - w + 1)
        je = min(c, i + max(0, c - r) + w)
        for j in range(js, je):
            d = float(np.sum((a[i] - b[j]) ** 2))
            if inner == "abs":
                d = math.sqrt(d)
            if ms is not None and d > ms:
                continue
            D[i + 1, j + 1] = d + min(D[i, j], D[i, j + 1] + pen, D[i + 1, j] + pen)
    best = min(min(D[r, c - p2e:c + 1]), min(D[r - p1e:r + 1, c]))
    return math.sqrt(best) if inner == "sq" else best


def run(ctx):
    from dtaidistance import dtw, dtw_ndim, ed
    from dtaidistance import dtw_cc
    res = Result()
    res.rule = ("random pairs of (length x d) series, d in 1..4, all DTW settings, both inner distances, list-of-2-D and "
                "3-D containers: distance / warping_paths / warping_path / distance_matrix / ub_euclidean of both engines "
                "vs the Lean model at the vector cost (exact, squared inner distance), vs an independent float DP "
                "(Euclidean inner distance, sqrt per point) and, for d = 1, vs the univariate routines; "
                "non-trivial = d > 1 with some option active")
    rng = ctx.rng
    n = 2500 if ctx.thorough else 400
    maxlen = 16 if ctx.thorough else 7
    cases = []
    for k in range(n):
        nd = rng.choice([1, 2, 2, 3, 4])
        c = dc.rand_case(rng, maxlen if k % 3 else 4, ndim=nd, allow_mld=False, allow_maxstep=(k % 6 == 0))
        c["inner"] = "sq" if k % 3 else "abs"
        if not dc.psi_in_range(c) or dc.degenerate_psi(c):
            continue
        if c.get("window") is not None and c["window"] < 1:
            continue
        if c["inner"] == "abs":
            # half-integer bounds never coincide with a point distance sqrt(integer): no tie at the threshold
            c["max_step"] = rng.choice([None, None, 1.5, 2.5, 3.5]) if nd > 1 else None
        if k % 3 == 1 and (not c.get("penalty") or dc.npoints(c)[0] == dc.npoints(c)[1]) and not c.get("max_step") \
                and c["inner"] == "sq":
            c["use_pruning"] = True
        cases.append(c)
    sq_cases = [c for c in cases if c["inner"] == "sq"]
    outs = {dc.case_key(c): o for c, o in zip(sq_cases, ctx.driver.run(
        [dc.lean_op(c, engine="py", want_mat=True) for c in sq_cases]))}
    for case in cases:
        nd = case["ndim"]
        kw = dc.py_kwargs(case)
        s1 = impl.to_container(case["s1"], "numpy", nd) if nd > 1 else np.array(case["s1"], dtype=float).reshape((-1, 1))
        s2 = impl.to_container(case["s2"], "numpy", nd) if nd > 1 else np.array(case["s2"], dtype=float).reshape((-1, 1))
        res.evaluations += 1
        if nd > 1:
            res.nontrivial.add(dc.case_key(case))
        res.hit("d=%d" % nd)

        def call(fn):
            try:
                return fn()
            except BaseException as e:
                if isinstance(e, (KeyboardInterrupt, SystemExit)):
                    raise
                return impl.exc_name(e) + ":" + str(e)[:80]
        d_py = call(lambda: impl.canon(dtw_ndim.distance(s1, s2, **kw)))
        d_c = call(lambda: impl.canon(dtw_ndim.distance_fast(s1, s2, **kw)))
        if case["inner"] == "sq":
            out = outs[dc.case_key(case)]
            exp = impl.canon(dc.expected_from_internal(case, out["specFull"]))
            for eng, d in (("python", d_py), ("C", d_c)):
                if not agree(d, exp):
                    res.violations.append({"clause": "ndim distance == DTW with squared Euclidean vector distance",
                                           "engine": eng, "case": case, "got": d, "expected": exp})
            # the flat-buffer entry point of the C wrapper: a view on the first len*d values of a larger buffer whose
            # tail holds other numbers must give the same distance
            if not case.get("use_pruning") and "inner_dist" not in kw:
                big1 = np.concatenate([np.ascontiguousarray(s1).ravel(), np.full(3 * s1.size + 4, 97.0)])
                big2 = np.concatenate([np.ascontiguousarray(s2).ravel(), np.full(3 * s2.size + 4, -55.0)])
                d_flat = call(lambda: impl.canon(dtw_cc.distance_ndim_assinglearray(big1[:s1.size], big2[:s2.size], nd, **kw)))
                res.hit("flat_buffer_wrapper")
                if not agree(d_flat, exp):
                    res.violations.append({"clause": "ndim distance through the flat-buffer C wrapper "
                                                     "(dtw_cc.distance_ndim_assinglearray)", "case": case, "got": d_flat,
                                           "expected": exp})
            # cost matrix and path (no thresholds)
            if not case.get("use_pruning"):
                for eng, fn in (("python", dtw_ndim.warping_paths), ("C", dtw_ndim.warping_paths_fast)):
                    r_ = call(lambda: fn(s1, s2, keep_int_repr=True, psi_neg=False, **kw))
                    if isinstance(r_, str):
                        res.violations.append({"clause": "ndim warping_paths raised", "engine": eng, "case": case,
                                               "got": r_})
                        continue
                    bad = c04.property_cells(dict(case), out, np.array(r_[1], dtype=float), True, False, None)
                    if bad:
                        res.violations.append({"clause": "ndim cost matrix cell-wise optimal", "engine": eng,
                                               "case": case, "bad_cells": bad[:5]})
                # the wrappers called with their DEFAULT arguments (psi_neg): same marks as the univariate / generic routes
                if any(dc.psi_tuple(case.get("psi"))) and not case.get("max_dist_I"):
                    mats = {}
                    for nm_, fn_ in (("dtw_ndim.warping_paths", lambda: dtw_ndim.warping_paths(s1, s2, keep_int_repr=True, **kw)),
                                     ("dtw_ndim.warping_paths_fast", lambda: dtw_ndim.warping_paths_fast(s1, s2, keep_int_repr=True, **kw)),
                                     ("dtw.warping_paths_fast(use_ndim)", lambda: dtw.warping_paths_fast(s1, s2, keep_int_repr=True, use_ndim=True, **kw))):
                        r_ = call(fn_)
                        mats[nm_] = None if isinstance(r_, str) else np.array(r_[1], dtype=float)
                    res.hit("default_psi_neg_marks")
                    ref_ = mats["dtw.warping_paths_fast(use_ndim)"]
                    for nm_, m_ in mats.items():
                        if m_ is None or ref_ is None:
                            continue
                        if out["spec"] != "inf" and ((m_ == -1) != (ref_ == -1)).any():
                            res.violations.append({"clause": "ndim cost matrix: cells skipped by the end relaxation are "
                                                             "marked -1 by default, as in the generic routine", "route": nm_,
                                                   "case": case, "marks": np.argwhere(m_ == -1).tolist(),
                                                   "marks_reference": np.argwhere(ref_ == -1).tolist()})
                if out["spec"] != "inf":
                    pth = call(lambda: dtw_ndim.warping_path(s1, s2, **kw))
                    if isinstance(pth, str):
                        res.violations.append({"clause": "ndim warping_path raised", "case": case, "got": pth})
                    else:
                        ok, why, cost = c05.check_path(case, [(int(a), int(b)) for a, b in pth])
                        if not ok or cost != out["spec"] // dc.SCALE:
                            res.violations.append({"clause": "ndim warping_path valid and optimal", "case": case,
                                                   "why": why, "cost": cost, "path": pth})
            # upper bound
            ub = call(lambda: impl.canon(dtw_ndim.ub_euclidean(s1, s2)))
            exp_ub = impl.canon(dc.expected_from_internal(case, out["ed"]))
            if not agree(ub, exp_ub):
                res.violations.append({"clause": "ndim Euclidean bound", "case": case, "got": ub, "expected": exp_ub})
            # the C engine's bound: exported routine and `only_ub` (no psi: the bound ignores relaxation)
            ub_c = call(lambda: impl.canon(dtw_cc.ub_euclidean_ndim(np.ascontiguousarray(s1), np.ascontiguousarray(s2))))
            if not agree(ub_c, exp_ub):
                res.violations.append({"clause": "ndim Euclidean bound (C engine)", "case": case, "got": ub_c,
                                       "expected": exp_ub})
            ub_o = [call(lambda: impl.canon(dtw_ndim.distance(s1, s2, only_ub=True))),
                    call(lambda: impl.canon(dtw_ndim.distance_fast(s1, s2, only_ub=True)))]
            for eng, u in zip(("python", "C"), ub_o):
                if not agree(u, exp_ub):
                    res.violations.append({"clause": "ndim distance(only_ub=True) is the Euclidean bound", "engine": eng,
                                           "case": case, "got": u, "expected": exp_ub})
            res.hit("ub_unequal_lengths" if dc.npoints(case)[0] != dc.npoints(case)[1] else "ub_equal_lengths")
        else:
            exp = impl.canon(ref_dtw(case, "abs"))
            for eng, d in (("python", d_py), ("C", d_c)):
                ok = (d == exp) or (isinstance(d, float) and isinstance(exp, float) and
                                    abs(d - exp) <= 1e-9 * max(1.0, abs(exp)))
                if not ok:
                    res.violations.append({"clause": "ndim distance == DTW with Euclidean vector distance",
                                           "engine": eng, "case": case, "got": d, "expected": exp})
            if isinstance(d_py, float) and isinstance(d_c, float) and not (
                    d_py == d_c or abs(d_py - d_c) <= 64 * math.ulp(max(abs(d_py), abs(d_c)))):
                res.violations.append({"clause": "engines agree (ndim, Euclidean inner distance)", "case": case,
                                       "python": d_py, "c": d_c})
        # d = 1: coincide with the univariate routines on the flattened series
        if nd == 1:
            flat = dict(case)
            u_py = impl.py_distance(flat, "numpy", fast=False)
            u_c = impl.py_distance(flat, "numpy", fast=True)
            if not agree(d_py, u_py) or not agree(d_c, u_c):
                res.violations.append({"clause": "d = 1 coincides with the univariate result", "case": case,
                                       "ndim": [d_py, d_c], "univariate": [u_py, u_c]})
        res.sample({"case": case, "python": d_py, "c": d_c}, limit=4)
    # distance matrices on 3-D / list containers
    for k in range(40 if ctx.thorough else 12):
        nser = rng.randint(2, 5)
        nd = rng.choice([1, 2, 3])
        L = rng.randint(1, 5)
        series = [[rng.randint(-3, 3) for _ in range(L * nd)] for _ in range(nser)]
        data3 = np.array(series, dtype=float).reshape((nser, L, nd))
        datal = [np.array(s, dtype=float).reshape((L, nd)) for s in series]
        kw = {"window": rng.choice([None, 2]), "penalty": rng.choice([None, 1.0])}
        kw = {a: b for a, b in kw.items() if b is not None}
        res.evaluations += 1
        res.nontrivial.add(repr(("dm", series, sorted(kw.items()))))
        try:
            datalF = [np.asfortranarray(x) for x in datal]       # list members in Fortran order (transposed recordings)
            ms = [list(dtw_ndim.distance_matrix(d_, ndim=nd, compact=True, use_c=uc, parallel=False, **kw))
                  for d_ in (data3, datal, datalF) for uc in (False, True)]
        except BaseException as e:
            if isinstance(e, (KeyboardInterrupt, SystemExit)):
                raise
            res.violations.append({"clause": "ndim distance matrix raised", "series": series, "ndim": nd,
                                   "got": impl.exc_name(e) + ":" + str(e)[:80]})
            continue
        single = [float(dtw_ndim.distance(datal[r], datal[c], **kw)) for r in range(nser) for c in range(r + 1, nser)]
        for m in ms:
            if len(m) != len(single) or any(not agree(impl.canon(a), impl.canon(b)) for a, b in zip(m, single)):
                res.violations.append({"clause": "ndim distance matrix == pairwise ndim distances (both containers, "
                                                 "both engines)", "series": series, "ndim": nd, "got": list(m),
                                       "expected": single})
                break
    # every option reaches the per-pair routine through every matrix entry point (unequal lengths, all options)
    for k in range(200 if ctx.thorough else 70):
        nser = rng.randint(2, 5)
        nd = rng.choice([1, 2, 3])
        series = [[rng.randint(-3, 3) for _ in range(rng.randint(1, 7) * nd)] for _ in range(nser)]
        datal = [np.array(s, dtype=float).reshape((-1, nd)) for s in series]
        kw = {}
        if rng.random() < 0.5:
            kw["window"] = rng.choice([1, 2, 3])
        if rng.random() < 0.4:
            kw["penalty"] = rng.choice([0.5, 1.0, 2.0, 4.0])
        if rng.random() < 0.5:
            kw["max_length_diff"] = rng.choice([1, 2, 3])
        if rng.random() < 0.3:
            kw["max_step"] = rng.choice([2.5, 4.5])
        if rng.random() < 0.3:
            kw["max_dist"] = rng.choice([2.25, 4.25, 6.25])
        if rng.random() < 0.25:
            kw["psi"] = 1 if min(len(x) for x in datal) > 1 else 0
        if rng.random() < 0.3:
            kw["inner_dist"] = "euclidean"
        res.evaluations += 1
        res.nontrivial.add(repr(("dm-options", series, sorted(kw.items()))))
        res.hit("matrix_option_forwarding")
        single = [impl.canon(float(dtw_ndim.distance(datal[r], datal[c], **kw)))
                  for r in range(nser) for c in range(r + 1, nser)]
        routes = {"distance_matrix python": lambda: dtw_ndim.distance_matrix(datal, ndim=nd, compact=True, **kw),
                  "distance_matrix(use_c)": lambda: dtw_ndim.distance_matrix(datal, ndim=nd, compact=True, use_c=True, **kw),
                  "distance_matrix_fast": lambda: dtw_ndim.distance_matrix_fast(datal, ndim=nd, compact=True, **kw),
                  "distance_matrix_fast(parallel)": lambda: dtw_ndim.distance_matrix_fast(datal, ndim=nd, compact=True,
                                                                                          parallel=True, **kw)}
        for name, fn in routes.items():
            try:
                m = [impl.canon(float(x)) for x in fn()]
            except BaseException as e:
                if isinstance(e, (KeyboardInterrupt, SystemExit)):
                    raise
                res.violations.append({"clause": "ndim distance matrix raised", "route": name, "series": series, "ndim": nd,
                                       "kwargs": repr(kw), "got": impl.exc_name(e) + ":" + str(e)[:80]})
                continue
            if len(m) != len(single) or any(not agree(a, b) for a, b in zip(m, single)):
                res.violations.append({"clause": "ndim distance matrix == pairwise ndim distances under the same options",
                                       "route": name, "series": series, "ndim": nd, "kwargs": repr(kw), "got": m,
                                       "expected": single})
    return res


def replay(ctx, rep):
    print(rep.get("violation"))
    return 1 if rep.get("violation") else 0
