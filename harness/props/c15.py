"""C15 — hierarchical clustering: a partition built from monotone, bounded merges; tree / SciPy variants."""
import copy
import math

import numpy as np

from ..core import Result

SC = 2      # model costs are 2 * entry, so that a half-integer max_dist is an odd integer


def make_matrix(rng, n, thorough):
    """upper-triangular matrix with small integer entries (many ties), optionally with infinite entries"""
    hi = rng.choice([1, 2, 3, 6, 12])
    inf_rate = rng.choice([0, 0, 0, 0.15, 0.5])
    # near-ties: large values that differ by a few units (relative difference ~1e-6) are different distances
    near = rng.random() < 0.2
    m = np.full((n, n), np.inf)
    for r in range(n):
        for c in range(r + 1, n):
            if rng.random() >= inf_rate:
                m[r, c] = float(rng.randint(0, hi))
                if near:
                    m[r, c] = float(rng.randint(1, max(1, min(hi, 3))) * 1000000 + rng.randint(0, 6))
    return m


def recording(inner, rec):
    def hook(frm, to, d):
        out = inner(frm, to, d) if inner is not None else None
        rec.append((int(frm), int(to), float(d), None if not out else (int(out[0]), int(out[1]))))
        return out
    return hook


def check_fit(res, info, n, m0, max_dist, clusters, rec):
    """the property's clauses on one fit: partition keyed by members, monotone bounded merges of live prototypes at
    their original distance, stop condition"""
    ok = True

    def bad(clause, **kw):
        nonlocal ok
        ok = False
        res.violations.append(dict(info, clause=clause, **kw))

    allidx = sorted(i for v in clusters.values() for i in v)
    if allidx != list(range(n)):
        bad("clusters partition all series indices", clusters={int(k): sorted(map(int, v)) for k, v in clusters.items()})
    for k, v in clusters.items():
        if k not in v:
            bad("each cluster is keyed by a prototype it contains", key=int(k), members=sorted(map(int, v)))
    live = set(range(n))
    member = {i: {i} for i in range(n)}
    prev = -math.inf
    for (frm, to, d, out) in rec:
        i1, i2 = out if out else (to, frm)
        if i1 == i2 or i1 not in live or i2 not in live:
            bad("a merge joins two distinct live prototypes", merge=[i1, i2, d])
            return False
        orig = m0[min(i1, i2), max(i1, i2)]
        if d != orig:
            bad("a merge happens at the original distance of the two prototypes", merge=[i1, i2, d], original=float(orig))
        if d < prev:
            bad("merges happen in non-decreasing distance order", merge=[i1, i2, d], previous=prev)
        if d > max_dist or math.isinf(d):
            bad("no merge above max_dist / at infinite distance", merge=[i1, i2, d], max_dist=max_dist)
        prev = d
        live.discard(i2)
        member[i1] |= member.pop(i2)
    want = {k: v for k, v in member.items()}
    got = {int(k): set(map(int, v)) for k, v in clusters.items()}
    if got != want:
        bad("the returned clusters are the ones produced by the recorded merges",
            got={k: sorted(v) for k, v in got.items()}, want={k: sorted(v) for k, v in want.items()})
    keys = sorted(got)
    if len(keys) > 1:
        for a in range(len(keys)):
            for b in range(a + 1, len(keys)):
                d = m0[keys[a], keys[b]]
                if d <= max_dist and not math.isinf(d):
                    bad("merging stops only when no two remaining prototypes are within max_dist",
                        pair=[keys[a], keys[b]], dist=float(d), max_dist=max_dist)
    return ok


def check_tree(res, info, n, linkage, all_finite):
    def bad(clause, **kw):
        res.violations.append(dict(info, clause=clause, linkage=[[None if a is None else int(a), None if b is None else int(b),
                                                                 float(d)] for a, b, d, _ in linkage], **kw))
    ch = []
    for i, (a, b, d, _) in enumerate(linkage):
        if a is None or b is None or not (0 <= a < n + i) or not (0 <= b < n + i):
            bad("a linkage row refers only to leaves and earlier rows", row=i)
            return
        ch += [int(a), int(b)]
    if len(set(ch)) != len(ch):
        bad("no node is a child twice")
    if all_finite:
        if len(linkage) != n - 1:
            bad("exactly n-1 merges are recorded", n=n)
        elif sorted(ch) != list(range(2 * n - 2)):
            bad("every node except the root is a child exactly once", n=n)


def run(ctx):
    from dtaidistance.clustering.hierarchical import Hierarchical, HierarchicalTree, LinkageTree, Hooks
    from dtaidistance import dtw
    from scipy.cluster.hierarchy import linkage as sp_linkage
    res = Result()
    res.rule = ("random upper-triangular distance matrices over 2..N series (small integer entries: ties, zeros, "
                "infinite entries) handed in through dists_fun x max_dist (inf, integer, half-integer) x hooks (none, "
                "weight hook, order hook, both); every fit: partition / keyed-by-member / merges of live prototypes at "
                "their original distance in non-decreasing order <= max_dist / stop condition; hook-free fits compared "
                "exactly (merges, clusters, linkage, condensed vector) with the Lean model; repeated fits on one object; "
                "HierarchicalTree linkage well-formedness; LinkageTree vs scipy.linkage on the same condensed "
                "distances; plus real series through dtw.distance_matrix / distance_matrix_fast, including histories in which "
                "the same model object (all three variants) was first fitted on a different collection of the same size; "
                "non-trivial = n >= 3")
    rng = ctx.rng
    runs = 4000 if ctx.thorough else 250
    nmax = 12 if ctx.thorough else 8
    for it in range(runs):
        n = rng.randint(2, nmax)
        m0 = make_matrix(rng, n, ctx.thorough)
        series = [np.array([float(rng.randint(-2, 2)) for _ in range(rng.randint(1, 5))]) for _ in range(n)]
        kind = rng.random()
        if kind < 0.4:
            max_dist = math.inf
        elif kind < 0.7:
            max_dist = float(rng.randint(0, 8))
        else:
            max_dist = rng.randint(0, 8) + 0.5
        fin_ = [x for x in m0.flatten().tolist() if not math.isinf(x)]
        if fin_ and max(fin_) > 1000 and not math.isinf(max_dist):
            max_dist = rng.choice(fin_) + rng.choice([0.0, 0.5, 2.5, -1.5])       # between two near-ties
            res.hit("near_ties_with_max_dist")
        if fin_ and max(fin_) > 1000:
            res.hit("near_ties")
        calls = []

        def dists_fun(s, **opts):
            calls.append(dict(opts))
            return m0.copy()

        hooks = rng.choice(["none", "none", "weight", "order", "both"])
        res.evaluations += 1
        if n >= 3:
            res.nontrivial.add(repr((m0.tolist(), max_dist, hooks)))
        info = {"n": n, "matrix": [[None if math.isinf(x) else x for x in row] for row in m0.tolist()],
                "max_dist": None if math.isinf(max_dist) else max_dist, "hooks": hooks,
                "lens": [len(s) for s in series]}
        res.hit("hooks_" + hooks)
        res.hit("max_dist_" + ("inf" if math.isinf(max_dist) else "finite"))

        def build(rec):
            weights = {i: rng.choice([1, 1, 2]) for i in range(n)}
            mh = Hooks.create_weighthook(weights, series) if hooks in ("weight", "both") else None
            oh = Hooks.create_orderhook(weights) if hooks in ("order", "both") else None
            return Hierarchical(dists_fun, {}, max_dist=max_dist, merge_hook=recording(mh, rec), order_hook=oh,
                                show_progress=False)
        try:
            rec = []
            model = build(rec)
            cl = model.fit(series)
        except BaseException as ex:
            if isinstance(ex, (KeyboardInterrupt, SystemExit)):
                raise
            res.violations.append(dict(info, clause="Hierarchical.fit raised", got=type(ex).__name__ + ":" + str(ex)[:100]))
            continue
        if not calls or calls[-1].get("only_triu") is not True:
            res.violations.append(dict(info, clause="the distance-matrix function is asked for the upper triangle"))
        ok = check_fit(res, info, n, m0, max_dist, cl, rec)
        # ---- hook-free: exact comparison with the Lean model
        if hooks == "none" and ok:
            flat = [None if math.isinf(x) else int(SC * x) for x in m0.flatten().tolist()]
            op = {"op": "hier", "n": n, "flat": flat}
            if not math.isinf(max_dist):
                op["maxDistI"] = int(round(SC * max_dist))
            mo = ctx.driver.run([op])[0]
            impl_merges = [[to, frm, int(SC * d)] for (frm, to, d, _) in rec]
            if impl_merges != mo["merges"]:
                res.mismatches.append(dict(info, what="merge sequence differs from the Lean model", impl=impl_merges,
                                           model=mo["merges"]))
            rep = mo["rep"]
            want = {}
            for x, p in enumerate(rep):
                want.setdefault(p, set()).add(x)
            if {int(k): set(map(int, v)) for k, v in cl.items()} != want:
                res.mismatches.append(dict(info, what="clusters differ from the Lean model", model_rep=rep))
            res.hit("compared_with_model")
            # repeated fit on the same object
            rec2 = []
            model.merge_hook = recording(None, rec2)
            cl2 = model.fit(series)
            if {int(k): set(map(int, v)) for k, v in cl2.items()} != {int(k): set(map(int, v)) for k, v in cl.items()} \
                    or [r[:3] for r in rec2] != [r[:3] for r in rec]:
                res.violations.append(dict(info, clause="a repeated fit on the same model object gives the same result"))
            # ---- tree variant over the same matrix
            all_finite = all(not math.isinf(m0[r, c]) for r in range(n) for c in range(r + 1, n))
            try:
                tree = HierarchicalTree(dists_fun=dists_fun, dists_options={}, max_dist=max_dist, show_progress=False)
                tcl = tree.fit(series)
                link1 = list(tree.linkage)
                tree.fit(series)
                link2 = list(tree.linkage)
            except BaseException as ex:
                if isinstance(ex, (KeyboardInterrupt, SystemExit)):
                    raise
                res.violations.append(dict(info, clause="HierarchicalTree.fit raised",
                                           got=type(ex).__name__ + ":" + str(ex)[:100]))
                continue
            check_tree(res, info, n, link1, all_finite)
            # history with a fit that raises in the distance-matrix function, followed by a normal fit
            boom = {"on": True}

            def flaky(s_, **opts):
                if boom["on"]:
                    boom["on"] = False
                    raise ValueError("transient failure of the distance-matrix function")
                return m0.copy()
            tree3 = HierarchicalTree(dists_fun=flaky, dists_options={}, max_dist=max_dist, show_progress=False)
            try:
                tree3.fit(series)
            except ValueError:
                pass
            try:
                tree3.fit(series)
                link3 = list(tree3.linkage)
            except BaseException as ex:
                if isinstance(ex, (KeyboardInterrupt, SystemExit)):
                    raise
                link3 = "raised " + type(ex).__name__ + ":" + str(ex)[:80]
            if link3 != link1:
                res.violations.append(dict(info, clause="a fit after a failed fit on the same tree object gives the "
                                                        "linkage of a fresh object", got=str(link3)[:300]))
            res.hit("failed_fit_history")
            if link1 != link2:
                res.violations.append(dict(info, clause="a repeated fit of the tree gives the same linkage"))
            if sorted(i for v in tcl.values() for i in v) != list(range(n)):
                res.violations.append(dict(info, clause="tree fit returns a partition"))
            op2 = {"op": "hier", "n": n, "flat": flat}          # tree resets max_dist to infinity
            mo2 = ctx.driver.run([op2])[0]
            if any(a is None or b is None for a, b, _, _ in link1):
                continue        # already reported by check_tree
            if [[int(a), int(b)] for a, b, _, _ in link1] != mo2["linkage"] or \
                    [int(SC * d) for _, _, d, _ in link1] != [x[2] for x in mo2["merges"]]:
                res.mismatches.append(dict(info, what="tree linkage differs from the Lean model",
                                           impl=[[int(a), int(b), d] for a, b, d, _ in link1], model=mo2["linkage"]))
            res.hit("tree_compared_with_model")
            # ---- SciPy variant (finite matrices only: scipy rejects infinite distances)
            if all_finite:
                sym = np.zeros((n, n))
                for r in range(n):
                    for c in range(r + 1, n):
                        sym[r, c] = sym[c, r] = m0[r, c]
                cond = [sym[r, c] for r in range(n) for c in range(r + 1, n)]
                if [int(SC * x) for x in cond] != mo["condensed"]:
                    res.mismatches.append(dict(info, what="harness condensed vector differs from the Lean model"))
                for method in ("complete", "single", "average"):
                    lt = LinkageTree(dists_fun, {}, method=method)
                    z = lt.fit(series)
                    zz = sp_linkage(np.array(cond), method=method, metric="euclidean")
                    if z.shape != zz.shape or not np.array_equal(z, zz):
                        res.violations.append(dict(info, clause="LinkageTree equals scipy's linkage of the same "
                                                                "condensed distances", method=method,
                                                   got=z.tolist(), want=zz.tolist()))
                    lt.fit(series)
                    if not np.array_equal(lt.linkage, zz):
                        res.violations.append(dict(info, clause="repeated LinkageTree.fit", method=method))
                res.hit("scipy_compared")
        elif ok:
            # hooks: tree wrapper around a hooked model
            try:
                rec3 = []
                tree = HierarchicalTree(build(rec3))
                tcl = tree.fit(series)
                all_finite = all(not math.isinf(m0[r, c]) for r in range(n) for c in range(r + 1, n))
                check_tree(res, info, n, list(tree.linkage), all_finite)
                # the tree's own hook returns nothing, so a swap proposed by the wrapped hook is not applied
                check_fit(res, dict(info, via="HierarchicalTree"), n, m0, math.inf, tcl,
                          [(f, t, d, None) for (f, t, d, _) in rec3])
            except BaseException as ex:
                if isinstance(ex, (KeyboardInterrupt, SystemExit)):
                    raise
                res.violations.append(dict(info, clause="HierarchicalTree(model with hooks).fit raised",
                                           got=type(ex).__name__ + ":" + str(ex)[:100]))
        res.sample(info, limit=3)
    # ---- real series through the library's own distance-matrix functions
    nreal = 120 if ctx.thorough else 25
    for it in range(nreal):
        n = rng.randint(2, 7)
        L = rng.randint(1, 6)
        series = []
        for _ in range(n):
            if series and rng.random() < 0.3:
                series.append(series[rng.randrange(len(series))].copy())      # duplicates -> zero distances, ties
            else:
                series.append(np.array([float(rng.randint(-2, 2)) for _ in range(L if rng.random() < 0.6 else rng.randint(1, 6))]))
        opts = {}
        if rng.random() < 0.5:
            opts["window"] = rng.choice([1, 2, 3])
        max_dist = rng.choice([math.inf, 1.0, 2.5, 4.0])
        results = {}
        for fname in ("distance_matrix", "distance_matrix_fast"):
            fn = getattr(dtw, fname)
            res.evaluations += 1
            info = {"series": [s.tolist() for s in series], "opts": opts, "dists_fun": fname,
                    "max_dist": None if math.isinf(max_dist) else max_dist}
            m0 = np.array(fn(series, only_triu=True, **opts), dtype=float)
            rec = []
            try:
                model = Hierarchical(fn, dict(opts), max_dist=max_dist, merge_hook=recording(None, rec), show_progress=False)
                cl = model.fit(series)
                rec1 = list(rec)
                cl_b = model.fit(series)
            except BaseException as ex:
                if isinstance(ex, (KeyboardInterrupt, SystemExit)):
                    raise
                res.violations.append(dict(info, clause="Hierarchical.fit raised", got=type(ex).__name__ + ":" + str(ex)[:100]))
                continue
            check_fit(res, info, n, m0, max_dist, cl, rec1)
            if {int(k): set(v) for k, v in cl.items()} != {int(k): set(v) for k, v in cl_b.items()}:
                res.violations.append(dict(info, clause="a repeated fit on the same model object gives the same result"))
            results[fname] = ({int(k): sorted(map(int, v)) for k, v in cl.items()}, m0)
            tree = HierarchicalTree(dists_fun=fn, dists_options=dict(opts), show_progress=False)
            tree.fit(series)
            check_tree(res, info, n, list(tree.linkage), True)
            res.hit("real_" + fname)
            # histories over DIFFERENT collections of the same size: a model object that was fitted on other data
            # answers like a fresh object
            other = [np.array([float(rng.randint(-3, 3)) for _ in range(len(x))]) for x in series]
            makers = [("Hierarchical", lambda: Hierarchical(fn, dict(opts), max_dist=max_dist, show_progress=False),
                       lambda o, r: {int(k): sorted(map(int, v)) for k, v in r.items()}),
                      ("HierarchicalTree", lambda: HierarchicalTree(dists_fun=fn, dists_options=dict(opts),
                                                                    show_progress=False),
                       lambda o, r: [[int(a), int(b), float(d), int(c)] for a, b, d, c in o.linkage])]
            for method in ("complete", "single", "average"):
                makers.append(("LinkageTree(%s)" % method, (lambda mt: (lambda: LinkageTree(fn, dict(opts), method=mt)))(method),
                               lambda o, r: np.asarray(o.linkage).tolist()))
            for name, make, view in makers:
                try:
                    used = make()
                    used.fit(other)
                    got = view(used, used.fit(series))
                    fresh_o = make()
                    want_r = view(fresh_o, fresh_o.fit(series))
                except BaseException as ex:
                    if isinstance(ex, (KeyboardInterrupt, SystemExit)):
                        raise
                    res.violations.append(dict(info, clause="%s: fit after a fit on other data raised" % name,
                                               got=type(ex).__name__ + ":" + str(ex)[:100]))
                    continue
                res.hit("cross_data_history")
                if got != want_r:
                    res.violations.append(dict(info, clause="%s: a model object fitted earlier on a different collection "
                                                            "of the same size gives the clustering of the collection it is "
                                                            "fitted on now" % name, other=[x.tolist() for x in other],
                                               got=got, fresh=want_r))
        if len(results) == 2 and np.array_equal(results["distance_matrix"][1], results["distance_matrix_fast"][1]) and \
                results["distance_matrix"][0] != results["distance_matrix_fast"][0]:
            res.violations.append({"clause": "Python and C distance-matrix functions give the same clustering",
                                   "series": [s.tolist() for s in series], "opts": opts})
    return res


def replay(ctx, rep):
    print(rep.get("violation"))
    return 1 if rep.get("violation") else 0
