"""C20 — calls are pure: inputs untouched, container- and history-independent."""
import array
import copy
import math

import numpy as np

from ..core import Result
from .. import impl

REJECT = (TypeError, ValueError, AttributeError, Exception)


def canon(x):
    """canonical, exactly comparable form of a routine's result"""
    if isinstance(x, tuple):
        return tuple(canon(v) for v in x)
    if isinstance(x, dict):
        return {canon(k): canon(v) for k, v in sorted(x.items(), key=lambda kv: repr(kv[0]))}
    if isinstance(x, (set, frozenset)):
        return sorted(canon(v) for v in x)
    if isinstance(x, np.ndarray):
        return ("nd", x.shape, [canon(v) for v in x.flatten().tolist()])
    if isinstance(x, (list, array.array)):
        return [canon(v) for v in x]
    if isinstance(x, (float, np.floating)):
        x = float(x)
        return "nan" if math.isnan(x) else x
    if isinstance(x, (int, np.integer)):
        return int(x)
    return x


def snapshot(obj):
    """(type name, content, base-buffer content) of an input object, recursively for collections"""
    if isinstance(obj, np.ndarray):
        base = obj.base if isinstance(obj.base, np.ndarray) else None
        return ("nd", obj.shape, obj.strides, obj.tolist(), None if base is None else base.tolist())
    if isinstance(obj, array.array):
        return ("array", obj.tolist())
    if isinstance(obj, (list, tuple)):
        return (type(obj).__name__, [snapshot(o) for o in obj], [id(o) for o in obj])
    return ("other", repr(obj))


# ------------------------------------------------------------------------------------------------ representations
def reps_1d(vals, rng):
    vals = [float(v) for v in vals]
    n = len(vals)
    inter = np.zeros(2 * n)
    inter[::2] = vals
    inter[1::2] = [rng.random() * 9 for _ in range(n)]
    two = np.zeros((n, 2))
    two[:, 0] = vals
    two[:, 1] = [rng.random() * 9 for _ in range(n)]
    return {"nd": np.array(vals), "list": list(vals), "tuple": tuple(vals), "array": array.array("d", vals),
            "strided": inter[::2], "reversed": np.array(vals[::-1])[::-1], "column": two[:, 0]}


def reps_nd(points, rng):
    a = np.array(points, dtype=float)
    n, d = a.shape
    big = np.zeros((2 * n, d))
    big[::2] = a
    big[1::2] = 7.5
    wide = np.full((n, d + 2), -3.25)
    wide[:, 1:1 + d] = a
    return {"nd": a.copy(), "F": np.asfortranarray(a), "T": np.array(a.T.tolist()).T, "rowstrided": big[::2],
            "colslice": wide[:, 1:1 + d], "nested": [list(map(float, p)) for p in points]}


class _ListSub(list):
    """a user's own list type"""


def reps_collection(series, rng):
    """series: list of lists of floats (1-D)"""
    out = {"list_nd": [np.array(s, dtype=float) for s in series], "tuple_nd": tuple(np.array(s, dtype=float) for s in series),
           "list_array": [array.array("d", s) for s in series], "list_list": [list(map(float, s)) for s in series],
           "list_strided": [reps_1d(s, rng)["strided"] for s in series],
           # other element types holding the same numbers (halves are exact in float32)
           "list_f32": [np.array(s, dtype=np.float32) for s in series],
           "list_array_f": [array.array("f", s) for s in series],
           # float64 in the other byte order (data read from a file written on another platform)
           "list_byteswapped": [np.array(s, dtype=np.dtype(np.double).newbyteorder()) for s in series]}
    if all(float(v).is_integer() for s in series for v in s):
        out["list_int"] = [np.array(s, dtype=np.int64) for s in series]
        out["listsubclass_int"] = _ListSub(np.array(s, dtype=np.int64) for s in series)
    out["listsubclass_strided"] = _ListSub(reps_1d(s, rng)["strided"] for s in series)
    if len({len(s) for s in series}) == 1:
        m = np.array(series, dtype=float)
        big = np.zeros((2 * m.shape[0], m.shape[1]))
        big[::2] = m
        out["matrix"] = m.copy()
        out["matrix_F"] = np.asfortranarray(m)
        out["matrix_strided"] = big[::2]
    return out


def run(ctx):
    from dtaidistance import dtw, dtw_ndim, ed, dtw_barycenter
    from dtaidistance.util import SeriesContainer
    from dtaidistance.util_numpy import verify_np_array
    from dtaidistance.subsequence.dtw import subsequence_alignment, subsequence_search
    from dtaidistance.clustering.hierarchical import Hierarchical
    res = Result()
    res.rule = ("random inputs x container representations (list, tuple, array.array, ndarray C / strided / reversed / "
                "column view; n-D: C, Fortran, transposed, row-strided, column-sliced, nested lists; collections: list / "
                "tuple of arrays, list of array.array, list of lists, list of strided views, 2-D matrix C / F / strided, "
                "SeriesContainer) x engines x routines (distance, warping_paths, warping_path, lb_keogh, ed, ub, n-D "
                "variants, distance matrices, dba, subsequence alignment / search, hierarchical clustering): result of "
                "every representation == result of the canonical ndarray (exact), or an explicit rejection of plain "
                "Python sequences by the C engine; inputs bit-identical afterwards (values, strides, base buffer, list "
                "identity); repeated and interleaved calls; search objects asked several questions in a row vs fresh objects; "
                "shared settings dictionaries unchanged; NumPy-absent worker "
                "for the routines that do not need NumPy; contiguity guards vs the Lean view model on random strided "
                "views; non-trivial = a non-canonical representation")
    rng = ctx.rng

    def evaluate(label, fn, rep_objs, engine_c, canonical="nd", shared=None):
        """fn(obj) -> result; rep_objs: name -> argument tuple"""
        ref = None
        for name, args in rep_objs.items():
            res.evaluations += 1
            if name != canonical:
                res.nontrivial.add(repr((label, name, res.evaluations)))
            res.hit("rep_" + name)
            before = [snapshot(a) for a in args]
            shared_before = copy.deepcopy(shared) if shared is not None else None
            try:
                r1 = canon(fn(*args))
                r2 = canon(fn(*args))
            except BaseException as ex:
                if isinstance(ex, (KeyboardInterrupt, SystemExit)):
                    raise
                plain = name in ("list", "tuple", "nested", "list_list", "tuple_nd")
                if engine_c and plain and isinstance(ex, REJECT):
                    res.hit("rejected_by_c_" + name)
                    continue
                if (not engine_c) and name == "nested" and isinstance(ex, TypeError) and \
                        ctx.known(res, "C20-NDIM-NESTED-LISTS", {"routine": label}):
                    continue
                res.violations.append({"clause": "the result does not depend on the container representation "
                                                 "(a supported representation raised)", "routine": label,
                                       "representation": name, "got": type(ex).__name__ + ":" + str(ex)[:120]})
                continue
            after = [snapshot(a) for a in args]
            if after != before:
                res.violations.append({"clause": "the routine does not modify its inputs", "routine": label,
                                       "representation": name})
            if shared is not None and shared != shared_before:
                res.violations.append({"clause": "a shared settings dictionary is not modified", "routine": label,
                                       "representation": name, "before": repr(shared_before), "after": repr(shared)})
                shared.clear(); shared.update(shared_before)
            if r1 != r2:
                res.violations.append({"clause": "repeating a call returns the same result", "routine": label,
                                       "representation": name})
            if name == canonical:
                ref = r1
            elif ref is not None and r1 != ref:
                res.violations.append({"clause": "the result depends only on the numeric content, not on the container",
                                       "routine": label, "representation": name, "got": repr(r1)[:300],
                                       "canonical": repr(ref)[:300]})
        return ref

    rounds = 120 if ctx.thorough else 8
    for it in range(rounds):
        l1, l2 = rng.randint(1, 7), rng.randint(1, 7)
        v1 = [rng.randint(-3, 3) + rng.choice([0.0, 0.5]) for _ in range(l1)]
        v2 = [rng.randint(-3, 3) + rng.choice([0.0, 0.5]) for _ in range(l2)]
        kw = {}
        if rng.random() < 0.5:
            kw["window"] = rng.choice([1, 2, 3])
        if rng.random() < 0.3:
            kw["penalty"] = 0.5
        if rng.random() < 0.3 and min(l1, l2) > 1:
            kw["psi"] = 1
        r1, r2 = reps_1d(v1, rng), reps_1d(v2, rng)
        pairs = {k: (r1[k], r2[k]) for k in r1}
        refs = {}
        for label, fn, c in (
                ("dtw.distance", lambda a, b: dtw.distance(a, b, **kw), False),
                ("dtw.distance(use_c)", lambda a, b: dtw.distance(a, b, use_c=True, **kw), True),
                ("dtw.distance_fast", lambda a, b: dtw.distance_fast(a, b, **kw), True),
                ("dtw.warping_paths", lambda a, b: dtw.warping_paths(a, b, **kw), False),
                ("dtw.warping_paths_fast", lambda a, b: dtw.warping_paths_fast(a, b, **kw), True),
                ("dtw.warping_path", lambda a, b: dtw.warping_path(a, b, **kw), False),
                ("dtw.lb_keogh", lambda a, b: dtw.lb_keogh(a, b, window=kw.get("window")), False),
                ("dtw.lb_keogh(use_c)", lambda a, b: dtw.lb_keogh(a, b, window=kw.get("window"), use_c=True), True),
                ("ed.distance", lambda a, b: ed.distance(a, b), False),
                ("ed.distance_fast", lambda a, b: ed.distance_fast(a, b), True),
                ("dtw.ub_euclidean", lambda a, b: dtw.ub_euclidean(a, b), False)):
            refs[label] = evaluate(label, fn, pairs, c)
        # real-valued pair of equal length >= 8 whose optimal alignment is the diagonal (window 1): with use_pruning the
        # threshold is the Euclidean bound, i.e. the distance itself — the way that bound is summed must not depend on
        # the container (pairwise vs sequential summation differ in the last bit)
        Lr = rng.randint(8, 16)
        w1 = [rng.uniform(-3, 3) for _ in range(Lr)]
        w2 = [rng.uniform(-3, 3) for _ in range(Lr)]
        rr1, rr2 = reps_1d(w1, rng), reps_1d(w2, rng)
        rpairs = {k: (rr1[k], rr2[k]) for k in rr1}
        for label, fn, c in (
                ("dtw.distance(use_pruning, window=1)", lambda a, b: dtw.distance(a, b, use_pruning=True, window=1), False),
                ("dtw.warping_paths(use_pruning, window=1)",
                 lambda a, b: dtw.warping_paths(a, b, use_pruning=True, window=1)[0], False),
                ("dtw.distance_fast(use_pruning, window=1)",
                 lambda a, b: dtw.distance_fast(a, b, use_pruning=True, window=1), True)):
            evaluate(label, fn, rpairs, c)
        # interleaving: the same objects used by other routines in between
        a, b = r1["strided"], r2["array"]
        x1 = canon(dtw.distance(a, np.array(v2), **kw))
        dtw.warping_paths(a, np.array(v2), **kw); dtw.lb_keogh(a, np.array(v2)); dtw.distance_fast(a, np.array(v2), **kw)
        x2 = canon(dtw.distance(a, np.array(v2), **kw))
        if x1 != x2:
            res.violations.append({"clause": "interleaving other calls on the same objects does not change a result",
                                   "routine": "dtw.distance", "s1": v1, "s2": v2, "kw": kw})
        # engines agree on the reference (C02) is not re-checked here; n-D pairs
        d = rng.choice([1, 2, 3])
        p1 = [[rng.randint(-3, 3) + rng.choice([0.0, 0.5]) for _ in range(d)] for _ in range(l1)]
        p2 = [[rng.randint(-3, 3) + rng.choice([0.0, 0.5]) for _ in range(d)] for _ in range(l2)]
        q1, q2 = reps_nd(p1, rng), reps_nd(p2, rng)
        npairs = {k: (q1[k], q2[k]) for k in q1}
        kwn = {k: v for k, v in kw.items() if k != "psi"}
        for label, fn, c in (
                ("dtw_ndim.distance", lambda a, b: dtw_ndim.distance(a, b, **kwn), False),
                ("dtw_ndim.distance_fast", lambda a, b: dtw_ndim.distance_fast(a, b, **kwn), True),
                ("dtw_ndim.warping_paths", lambda a, b: dtw_ndim.warping_paths(a, b, **kwn), False),
                ("dtw_ndim.warping_paths_fast", lambda a, b: dtw_ndim.warping_paths_fast(a, b, **kwn), True),
                ("ed.distance(ndim)", lambda a, b: ed.distance(a, b, use_ndim=True), False),
                ("dtw_ndim.ub_euclidean", lambda a, b: dtw_ndim.ub_euclidean(a, b), False)):
            evaluate(label, fn, npairs, c)
        # collections
        ns = rng.randint(2, 5)
        equal = rng.random() < 0.5
        L = rng.randint(2, 6)
        half = rng.choice([0.5, 0.5, 0.0])
        series = [[rng.randint(-3, 3) + rng.choice([0.0, half]) for _ in range(L if equal else rng.randint(1, 6))]
                  for _ in range(ns)]
        cols = reps_collection(series, rng)
        cols["container"] = SeriesContainer.wrap([np.array(s, dtype=float) for s in series])
        cols["container_nested"] = SeriesContainer(SeriesContainer([np.array(s, dtype=float) for s in series]))
        colargs = {k: (v,) for k, v in cols.items()}
        opts = dict(kwn)
        for label, fn, c in (
                ("dtw.distance_matrix", lambda s: dtw.distance_matrix(s, compact=True, **opts), False),
                ("dtw.distance_matrix(use_c)", lambda s: dtw.distance_matrix(s, compact=True, use_c=True, **opts), True),
                ("dtw.distance_matrix_fast", lambda s: dtw.distance_matrix_fast(s, compact=True, **opts), True),
                ("dtw.distance_matrix(full)", lambda s: dtw.distance_matrix(s, **opts), False)):
            evaluate(label, fn, colargs, c, canonical="list_nd", shared=opts)
        if it % 6 == 3:
            mpargs = {k: colargs[k] for k in ("list_nd", "list_strided", "list_f32", "list_array", "list_int") if k in colargs}
            evaluate("dtw.distance_matrix(use_c, parallel, use_mp)",
                     lambda s: dtw.distance_matrix(s, compact=True, use_c=True, parallel=True, use_mp=True, **opts), mpargs,
                     True, canonical="list_nd", shared=opts)
        # barycenter averaging: the initial average must not be written to
        cvals = [float(rng.randint(-2, 2)) for _ in range(rng.randint(2, 5))]
        dargs = {k: (v, np.array(cvals)) for k, v in cols.items() if k in ("list_nd", "list_strided", "list_array", "matrix",
                                                                           "matrix_F", "matrix_strided", "container")}
        evaluate("dtw_barycenter.dba", lambda s, c0: dtw_barycenter.dba(s, c0), dargs, False, canonical="list_nd")
        evaluate("dtw_barycenter.dba(use_c)", lambda s, c0: dtw_barycenter.dba(s, c0, use_c=True), dargs, True,
                 canonical="list_nd")
        evaluate("dtw_barycenter.dba_loop(use_c)", lambda s, c0: dtw_barycenter.dba_loop(s, c0, max_it=3, use_c=True), dargs,
                 True, canonical="list_nd")
        # a start value chosen among ALL selected series (nb_initial_samples >= their number) involves no sampling: the
        # call is repeatable whatever the state of the global random generator (duplicates -> ties between candidates)
        # (two different series always tie: both row sums are their mutual distance)
        dup = [list(x) for x in series[:2]] if it % 2 else [list(series[0])] + [list(x) for x in series[:rng.randint(1, len(series))]]
        dupd = [np.array(x, dtype=float) for x in dup]
        for uc_ in (False, True):
            res.evaluations += 1
            res.hit("dba_all_candidates_repeatable")
            try:
                outs_ = []
                for rep_ in range(6):
                    outs_.append(np.array(dtw_barycenter.dba_loop(dupd, None, max_it=1, thr=None, use_c=uc_,
                                                                  nb_initial_samples=len(dupd) + rep_ % 2), dtype=float))
                if any(o.shape != outs_[0].shape or not np.array_equal(o, outs_[0]) for o in outs_[1:]):
                    res.violations.append({"clause": "repeating a call returns the same result",
                                           "routine": "dba_loop(c=None, nb_initial_samples >= number of series, use_c=%s)" % uc_,
                                           "series": dup, "results": [o.tolist() for o in outs_]})
            except BaseException as ex:
                if isinstance(ex, (KeyboardInterrupt, SystemExit)):
                    raise
                if len({len(x) for x in dup}) == 1:
                    res.violations.append({"clause": "dba_loop(nb_initial_samples) raised", "series": dup,
                                           "got": type(ex).__name__ + ":" + str(ex)[:100]})
        # real-valued series (sums that are not exact in binary): the Python average must not depend on whether the
        # values arrive as Python floats (lists, array.array) or as numpy.float64 (arrays)
        rseries = [[rng.uniform(-9, 9) for _ in s_] for s_ in series]
        rcols = reps_collection(rseries, rng)
        rc0 = [rng.uniform(-3, 3) for _ in cvals]
        rargs = {k: (v, np.array(rc0)) for k, v in rcols.items() if k in ("list_nd", "list_strided", "list_array", "matrix")}
        rargs["list_array|c_array"] = (rcols["list_array"], array.array("d", rc0))
        evaluate("dtw_barycenter.dba(real-valued)", lambda s, c0: dtw_barycenter.dba(s, c0), rargs, False,
                 canonical="list_nd")
        # the loop without a convergence test, with and without an initial average (then the first series is the
        # start value and must not be written to either)
        for eng_c in (False, True):
            evaluate("dtw_barycenter.dba_loop(thr=None, use_c=%s)" % eng_c,
                     lambda s, c0: dtw_barycenter.dba_loop(s, c0, max_it=2, thr=None, use_c=eng_c), dargs, eng_c,
                     canonical="list_nd")
            nargs = {k: (v[0],) for k, v in dargs.items()}
            evaluate("dtw_barycenter.dba_loop(c=None, thr=None, use_c=%s)" % eng_c,
                     lambda s: dtw_barycenter.dba_loop(s, None, max_it=2, thr=None, use_c=eng_c), nargs, eng_c,
                     canonical="list_nd")
        # multivariate barycenter averaging: series and initial average in several memory layouts
        dd = rng.choice([2, 3])
        Ln = rng.randint(2, 5)
        nser = rng.randint(2, 4)
        pts = [[[float(rng.randint(-3, 3)) for _ in range(dd)] for _ in range(Ln)] for _ in range(nser)]
        c0 = [[float(rng.randint(-2, 2)) for _ in range(dd)] for _ in range(rng.randint(2, 4))]
        forms = {"list_nd": [np.array(p_) for p_ in pts], "list_F": [np.asfortranarray(np.array(p_)) for p_ in pts],
                 "list_T": [np.array(np.array(p_).T.tolist()).T for p_ in pts], "3d": np.array(pts),
                 "3d_F": np.asfortranarray(np.array(pts))}
        margs = {"list_nd": (forms["list_nd"], np.array(c0))}
        for cform, cobj in (("C", np.array(c0)), ("F", np.asfortranarray(np.array(c0))),
                            ("T", np.array(np.array(c0).T.tolist()).T)):
            for k_, v_ in forms.items():
                if not (k_ == "list_nd" and cform == "C"):
                    margs["%s|c_%s" % (k_, cform)] = (v_, cobj)
        for eng_c in (False, True):
            evaluate("dtw_barycenter.dba_loop(ndim, use_c=%s)" % eng_c,
                     lambda s, cc: dtw_barycenter.dba_loop(s, cc, max_it=2, use_c=eng_c), margs, eng_c,
                     canonical="list_nd")
        # multivariate distance matrices over the same layouts, plus containers of containers
        nforms = {k_: (v_,) for k_, v_ in forms.items()}
        nforms["container"] = (SeriesContainer(np.array(pts)),)
        nforms["container_nested"] = (SeriesContainer(SeriesContainer(np.array(pts))),)
        nforms["list_f32"] = ([np.array(p_, dtype=np.float32) for p_ in pts],)
        nforms["list_int"] = ([np.array(p_, dtype=np.int64) for p_ in pts],)
        for eng_c in (False, True):
            evaluate("dtw_ndim.distance_matrix(use_c=%s)" % eng_c,
                     lambda s: dtw_ndim.distance_matrix(s, use_c=eng_c, compact=True), nforms, eng_c, canonical="list_nd")
        if it % 6 == 0:
            mpforms = {k_: nforms[k_] for k_ in ("list_nd", "list_F", "list_T", "3d_F")}
            evaluate("dtw_ndim.distance_matrix(use_c, parallel, use_mp)",
                     lambda s: dtw_ndim.distance_matrix(s, use_c=True, parallel=True, use_mp=True, compact=True), mpforms,
                     True, canonical="list_nd")
        # subsequence alignment / search with a shared options dictionary
        sq = {k: (r1[k], r2[k]) for k in ("nd", "strided", "reversed", "column", "array", "list")}
        evaluate("subsequence_alignment", lambda a, b: subsequence_alignment(a, b).matching_function(), sq, False)
        sopts = dict(kwn)
        sargs = {k: (r1["nd"], v) for k, v in cols.items() if k in ("list_nd", "list_strided", "list_array")}
        # the query in other containers
        for qk in ("array", "tuple", "list", "strided"):
            sargs["query_" + qk] = (r1[qk], cols["list_nd"])
        evaluate("subsequence_search", lambda qv, s: [(m.idx, m.distance) for m in
                                                      subsequence_search(qv, s, dists_options=sopts).kbest_matches(2)],
                 sargs, False, canonical="list_nd", shared=sopts)
        # a search object answers each question like a fresh object, whatever it was asked before
        for use_c_ in (False, True, False, True):
            hist = rng.choice([(1, None), (2, 5, None), (None, 2, None), (3, 1, 4), (1, 3)])
            mk = lambda: subsequence_search(r1["nd"], cols["list_nd"], dists_options=dict(kwn), use_c=use_c_,
                                            use_lb=rng.random() < 0.5)
            res.evaluations += 1
            res.hit("search_object_history")
            try:
                used = mk()
                for kq in hist:
                    got = [(int(m.idx), canon(float(m.distance))) for m in used.kbest_matches(k=kq)]
                    want = [(int(m.idx), canon(float(m.distance))) for m in mk().kbest_matches(k=kq)]
                    # tied candidates may come back with either index (C14: "indices equal up to ties")
                    if sorted(d_ for _, d_ in got) != sorted(d_ for _, d_ in want):
                        res.violations.append({"clause": "results do not depend on earlier calls on the same object",
                                               "routine": "SubsequenceSearch.kbest_matches(use_c=%s)" % use_c_,
                                               "history": list(hist), "k": kq, "got": got, "fresh": want,
                                               "query": r1["nd"].tolist(), "series": [list(map(float, x)) for x in series]})
                        break
            except BaseException as ex:
                if isinstance(ex, (KeyboardInterrupt, SystemExit)):
                    raise
                res.violations.append({"clause": "SubsequenceSearch history raised", "history": list(hist),
                                       "got": type(ex).__name__ + ":" + str(ex)[:100]})
        hopts = dict(kwn)
        hargs = {k: (v,) for k, v in cols.items() if k in ("list_nd", "list_strided", "list_array", "list_list", "matrix",
                                                           "matrix_F")}
        evaluate("Hierarchical.fit", lambda s: Hierarchical(dtw.distance_matrix, hopts, show_progress=False).fit(s), hargs,
                 False, canonical="list_nd", shared=hopts)
        # k-means through fit_fast with a shared options dictionary
        if it % 4 == 0 and len(series) >= 3:
            from dtaidistance.clustering.kmeans import KMeans
            import contextlib, io
            kopts = dict(kwn)
            kbefore = dict(kopts)
            try:
                with contextlib.redirect_stdout(io.StringIO()):
                    np.random.seed(it); import random as _r; _r.seed(it)
                    KMeans(k=2, max_it=2, max_dba_it=2, dists_options=kopts, show_progress=False).fit_fast(cols["list_nd"])
            except BaseException as ex:
                if isinstance(ex, (KeyboardInterrupt, SystemExit)):
                    raise
                res.violations.append({"clause": "KMeans.fit_fast raised", "got": type(ex).__name__ + ":" + str(ex)[:100]})
            res.evaluations += 1
            res.hit("kmeans_fit_fast_shared_options")
            if kopts != kbefore:
                res.violations.append({"clause": "a shared settings dictionary is not modified", "routine": "KMeans.fit_fast",
                                       "before": repr(kbefore), "after": repr(kopts)})
        # local concurrences: reading the matrix between two searches does not change the second search
        from dtaidistance.subsequence.localconcurrences import LocalConcurrences
        sv = np.array([float(rng.randint(0, 2)) for _ in range(rng.randint(6, 12))])

        def lc_run(peek):
            lc = LocalConcurrences(sv, None, gamma=1.0, tau=0.5, delta=-1.0, delta_factor=0.5, penalty=0.0)
            lc.align()
            first = [[tuple(map(int, q)) for q in m.path] for m in lc.kbest_matches(k=1, minlen=1)]
            if peek:
                lc.wp_slice(positivize=True)
                lc.wp_slice()
            second = [[tuple(map(int, q)) for q in m.path] for m in lc.kbest_matches(k=2, minlen=1, restart=False)]
            return first, second
        res.evaluations += 1
        res.hit("lc_peek_between_searches")
        a_, b_ = lc_run(False), lc_run(True)
        if a_ != b_:
            res.violations.append({"clause": "interleaving other calls on the same objects does not change a result",
                                   "routine": "LocalConcurrences.kbest_matches with wp_slice(positivize=True) in between",
                                   "series": sv.tolist(), "without": a_, "with": b_})
        # a restarted search (restart=True is the default) repeats the first search, in every variant of the matrix
        for lc_c, lc_w in ((False, None), (False, 2), (True, None), (True, 2)):
            res.evaluations += 1
            res.hit("lc_repeat_restart")
            try:
                lc = LocalConcurrences(sv, None, gamma=1.0, tau=0.5, delta=-1.0, delta_factor=0.5, penalty=0.0,
                                       use_c=lc_c, window=lc_w)
                lc.align()
                runs_ = [[[tuple(map(int, q)) for q in m.path] for m in lc.kbest_matches(k=2, minlen=1)] for _ in range(2)]
            except BaseException as ex:
                if isinstance(ex, (KeyboardInterrupt, SystemExit)):
                    raise
                res.violations.append({"clause": "LocalConcurrences repeated search raised", "use_c": lc_c, "window": lc_w,
                                       "got": type(ex).__name__ + ":" + str(ex)[:100]})
                continue
            if runs_[0] != runs_[1]:
                res.violations.append({"clause": "repeating a call on the same object returns the same result",
                                       "routine": "LocalConcurrences.kbest_matches(k=2) twice (restart=True)",
                                       "use_c": lc_c, "window": lc_w, "series": sv.tolist(), "first": runs_[0],
                                       "second": runs_[1]})
        res.sample({"s1": v1, "s2": v2, "kw": kw, "series": series}, limit=2)
    # ---- contiguity guard vs the Lean view model on random strided views
    ops, views = [], []
    buf = np.arange(400, dtype=float)
    for _ in range(300 if ctx.thorough else 80):
        if rng.random() < 0.4:
            n = rng.randint(0, 6); s0 = rng.choice([1, 1, 2, 3, -1, 0])
            v = np.lib.stride_tricks.as_strided(buf[200:], shape=(n,), strides=(8 * s0,))
            ops.append({"op": "view", "n": n, "s0": s0})
        else:
            n, d = rng.randint(0, 5), rng.randint(0, 4)
            kind = rng.choice(["c", "f", "rand", "rand"])
            s0, s1 = (d, 1) if kind == "c" else ((1, n) if kind == "f" else (rng.choice([1, 2, d, n, 7, -1]), rng.choice([1, 2, d, n, 5])))
            v = np.lib.stride_tricks.as_strided(buf[200:], shape=(n, d), strides=(8 * s0, 8 * s1))
            ops.append({"op": "view", "n": n, "d": d, "s0": s0, "s1": s1})
        views.append(v)
    for _ in range(100 if ctx.thorough else 30):
        n, ln, d = rng.randint(1, 4), rng.randint(1, 4), rng.randint(1, 3)
        kind = rng.choice(["c", "rand", "rand"])
        st = (ln * d, d, 1) if kind == "c" else (rng.choice([ln * d, 1, 2 * ln * d, d]), rng.choice([d, 1, n, 2 * d]),
                                                  rng.choice([1, 1, 2, n * ln]))
        v = np.lib.stride_tricks.as_strided(buf[200:], shape=(n, ln, d), strides=tuple(8 * x for x in st))
        ops.append({"op": "view", "n": n, "len": ln, "d": d, "s0": st[0], "s1": st[1], "s2": st[2]})
        views.append(v)
    for op, v, mo in zip(ops, views, ctx.driver.run(ops)):
        res.evaluations += 1
        res.hit("view_model")
        if v.size == 0:
            continue        # NumPy reports every empty array as contiguous in both orders
        if v.ndim == 3:
            res.hit("view_model_3d")
        if bool(v.flags.c_contiguous) != mo["c"] or (v.ndim == 2 and bool(v.flags.f_contiguous) != mo["f"]):
            res.mismatches.append({"what": "contiguity flags of the Lean view model differ from NumPy", "view": op,
                                   "numpy": [bool(v.flags.c_contiguous), bool(v.flags.f_contiguous)], "model": mo})
            continue
        out = verify_np_array(v)
        if (out is v) != mo["keeps"] or not out.flags.c_contiguous or not np.array_equal(out, v):
            res.violations.append({"clause": "verify_np_array hands a C-contiguous buffer with the same content to the "
                                             "kernels (copying exactly when the view is not C-contiguous)", "view": op,
                                   "kept": out is v, "model_keeps": mo["keeps"]})
    # ---- NumPy absent: routines that do not need it give the same results on plain sequences
    jobs = []
    wcases = []
    for _ in range(30 if ctx.thorough else 10):
        a = [rng.randint(-3, 3) + rng.choice([0.0, 0.5]) for _ in range(rng.randint(1, 6))]
        b = [rng.randint(-3, 3) + rng.choice([0.0, 0.5]) for _ in range(rng.randint(1, 6))]
        w = rng.choice([None, 1, 2])
        wcases.append((a, b, w))
        jobs.append([[a, b, w], {}])
    wres = impl.run_worker("purity_nonumpy", jobs, env_extra={"DTAIDISTANCE_TESTWITHOUTNUMPY": "1"})
    if wres["crashed"]:
        res.mismatches.append({"what": "NumPy-absent worker crashed", "stderr": wres["stderr"][-300:]})
    else:
        for (a, b, w), got in zip(wcases, wres["results"]):
            res.evaluations += 1
            res.hit("numpy_absent")
            want = impl.purity_nonumpy(a, b, w)
            if got != want:
                res.violations.append({"clause": "results do not depend on whether NumPy is importable", "s1": a, "s2": b,
                                       "window": w, "without_numpy": got, "with_numpy": want})
    return res


def replay(ctx, rep):
    print(rep.get("violation"))
    return 1 if rep.get("violation") else 0
