"""C09 — LB_Keogh <= DTW <= Euclidean upper bound, same in both engines."""
import math

import numpy as np

from .. import dtwcases as dc
from .. import impl
from ..core import Result
from .c02 import agree


def gen_cases(ctx):
    rng = ctx.rng
    cases = list(CORPUS)
    n = 8000 if ctx.thorough else 1200
    maxlen = 30 if ctx.thorough else 10
    for k in range(n):
        ndim = rng.choice([1, 1, 1, 2, 3])
        c = dc.rand_case(rng, maxlen if k % 3 else 5, ndim=ndim, allow_psi=False, allow_maxstep=False, allow_mld=False)
        if ndim > 1:
            c["inner"] = "sq"
        cases.append(c)
    return [c for c in cases if not (c.get("window") is not None and c["window"] < 1)]


CORPUS = [
    {"s1": [-5, -1, -7], "s2": [-2, -3, -2], "window": 1, "inner": "sq"},
    {"s1": [-5, -6, -7, -8], "s2": [-2, -3], "inner": "abs"},
    {"s1": [0, 0, 0], "s2": [1, 1, 1], "inner": "sq"},
    {"s1": [1, 2, 3, 4, 5, 6], "s2": [1, 2], "ndim": 2, "inner": "sq"},
]


def call(fn):
    try:
        return impl.canon(fn())
    except BaseException as e:
        if isinstance(e, (KeyboardInterrupt, SystemExit)):
            raise
        return impl.exc_name(e) + ":" + str(e)[:60]


def run(ctx):
    from dtaidistance import dtw, dtw_ndim, ed, dtw_cc
    try:
        from dtaidistance import ed_cc
    except ImportError:
        ed_cc = None
    res = Result()
    res.rule = ("random series (all signs, constant, equal/unequal lengths, ndim 1..3) x window x inner distance x "
                "penalty; both bounds from both engines compared with the Lean model (exact on the integer lattice) and "
                "the sandwich LB <= DTW <= ED evaluated on the implementation; only_ub == ED; a real-valued stream (values "
                "inside (-1,1) and wider) compares every bound route with the definition evaluated by the harness; non-trivial = unequal "
                "lengths, clipped window, negative data or ndim > 1")
    cases = gen_cases(ctx)
    ops = [dict(dc.lean_op(c, engine="py"), op="bounds") for c in cases] + [dc.lean_op(c, engine="py") for c in cases]
    outs = ctx.driver.run(ops)
    n = len(cases)
    for i, case in enumerate(cases):
        ob, od = outs[i], outs[n + i]
        nd = case.get("ndim", 1)
        r, c = dc.npoints(case)
        s1 = impl.to_container(case["s1"], "numpy", nd)
        s2 = impl.to_container(case["s2"], "numpy", nd)
        inner = dc.inner_name(case)
        kw = dc.py_kwargs(case)
        exp_ed = impl.canon(dc.expected_from_internal(case, ob["ed"]))
        exp_lb = impl.canon(dc.expected_from_internal(case, ob["lb"]))
        res.evaluations += 1
        tags = []
        if r != c: tags.append("uneq")
        if case.get("window") and case["window"] < max(r, c): tags.append("band")
        if min(case["s1"] + case["s2"]) < 0: tags.append("neg")
        if nd > 1: tags.append("ndim")
        for t in tags:
            res.hit(t)
        if tags:
            res.nontrivial.add(dc.case_key(case))
        got = {}
        if nd == 1:
            got["ed.distance"] = call(lambda: ed.distance(s1, s2, inner_dist=inner))
            got["ed.distance_fast"] = call(lambda: ed.distance_fast(s1, s2, inner_dist=inner))
            got["dtw.ub_euclidean"] = call(lambda: dtw.ub_euclidean(s1, s2, inner_dist=inner))
            if case.get("inner", "sq") == "sq":
                got["dtw_cc.ub_euclidean"] = call(lambda: dtw_cc.ub_euclidean(s1, s2))
            got["distance(only_ub) python"] = call(lambda: dtw.distance(s1, s2, only_ub=True, **kw))
            got["distance(only_ub) C"] = call(lambda: dtw.distance_fast(s1, s2, only_ub=True, **kw))
            got["distance(use_c, only_ub)"] = call(lambda: dtw.distance(s1, s2, only_ub=True, use_c=True, **kw))
        else:
            got["ed.distance(ndim)"] = call(lambda: ed.distance(s1, s2, inner_dist=inner, use_ndim=True))
            got["dtw_ndim.ub_euclidean"] = call(lambda: dtw_ndim.ub_euclidean(s1, s2, inner_dist=inner))
            got["dtw_cc.ub_euclidean_ndim"] = call(lambda: dtw_cc.ub_euclidean_ndim(s1, s2))
            if ed_cc is not None:
                got["ed_cc.distance_ndim"] = call(lambda: ed_cc.distance_ndim(s1, s2, 0))
            got["distance(only_ub) python ndim"] = call(lambda: dtw_ndim.distance(s1, s2, only_ub=True, **kw))
            got["distance(only_ub) C ndim"] = call(lambda: dtw_ndim.distance_fast(s1, s2, only_ub=True, **kw))
            got["distance(use_c, only_ub) ndim"] = call(lambda: dtw_ndim.distance(s1, s2, only_ub=True, use_c=True, **kw))
        # asking for the bound only returns the Euclidean distance whatever other options are given along with it
        if isinstance(exp_ed, float) and exp_ed > 0:
            mod_ = dtw if nd == 1 else dtw_ndim
            okw = {k_: v_ for k_, v_ in kw.items() if k_ in ("window", "inner_dist", "penalty")}
            for extra_ in ({"use_pruning": True}, {"max_dist": exp_ed / 2}, {"use_pruning": True, "max_dist": exp_ed / 2},
                           {"use_pruning": True, "max_dist": exp_ed * 2}):
                for uc_ in (False, True):
                    got["distance(only_ub, %s, use_c=%s)" % (",".join("%s=%s" % kv_ for kv_ in sorted(extra_.items())), uc_)] = \
                        call(lambda: mod_.distance(s1, s2, only_ub=True, use_c=uc_, **extra_, **okw))
            res.hit("only_ub_with_other_options")
        if nd > 1:
            # multivariate Euclidean inner distance: sum over the points of the vector norms (floats; the harness'
            # own evaluation of the documented definition is the reference)
            a_ = np.array(case["s1"], dtype=float).reshape((-1, nd))
            b_ = np.array(case["s2"], dtype=float).reshape((-1, nd))
            nmin = min(len(a_), len(b_))
            ref = 0.0
            for t_ in range(max(len(a_), len(b_))):
                pa = a_[min(t_, len(a_) - 1)] if t_ >= nmin and len(a_) < len(b_) else a_[min(t_, len(a_) - 1)]
                pb = b_[min(t_, len(b_) - 1)]
                ref += math.sqrt(float(np.sum((pa - pb) ** 2)))
            routes = {"ed.distance(ndim, euclidean)": lambda: ed.distance(s1, s2, inner_dist="euclidean", use_ndim=True),
                      "dtw_ndim.ub_euclidean(euclidean)": lambda: dtw_ndim.ub_euclidean(s1, s2, inner_dist="euclidean"),
                      "distance(only_ub, euclidean) python ndim": lambda: dtw_ndim.distance(s1, s2, only_ub=True, inner_dist="euclidean"),
                      "distance(only_ub, euclidean) C ndim": lambda: dtw_ndim.distance_fast(s1, s2, only_ub=True, inner_dist="euclidean")}
            if ed_cc is not None:
                routes["ed_cc.distance_ndim(euclidean)"] = lambda: ed_cc.distance_ndim(s1, s2, 1)
            for name, fn in routes.items():
                v = call(fn)
                if not agree(v, impl.canon(ref), ulps=32):
                    res.violations.append({"clause": "multivariate Euclidean bound with the 'euclidean' inner distance: "
                                                     "engines agree / only_ub returns it", "route": name, "case": case,
                                           "got": v, "expected": ref})
            res.hit("ndim_euclidean_inner_bound")
        for name, v in got.items():
            if not agree(v, exp_ed):
                res.violations.append({"clause": "Euclidean bound: engines agree / only_ub returns it", "route": name,
                                       "case": case, "got": v, "expected": exp_ed})
        lbs = {}
        if nd == 1:
            wkw = {k: v for k, v in kw.items() if k in ("window", "inner_dist")}
            lbs["lb_keogh python"] = call(lambda: dtw.lb_keogh(s1, s2, **wkw))
            lbs["lb_keogh C"] = call(lambda: dtw.lb_keogh(s1, s2, use_c=True, **wkw))
            for name, v in lbs.items():
                if not agree(v, exp_lb):
                    res.violations.append({"clause": "LB_Keogh: engines agree", "route": name, "case": case,
                                           "got": v, "expected": exp_lb})
        # sandwich on the implementation
        d_py = impl.py_distance(case, "numpy", fast=False)
        d_c = impl.py_distance(case, "numpy", fast=True)
        for eng, d in (("python", d_py), ("C", d_c)):
            if isinstance(d, str) and d.startswith("exc"):
                continue
            dval = math.inf if d == "inf" else d
            tol = 4 * math.ulp(max(1.0, abs(dval) if dval != math.inf else 1.0))
            for name, v in lbs.items():
                if isinstance(v, float) and v > dval + tol:
                    res.violations.append({"clause": "LB_Keogh <= DTW", "engine": eng, "route": name, "case": case,
                                           "lb": v, "dtw": d})
            if not case.get("penalty") or r == c:
                e = got.get("ed.distance") or got.get("ed.distance(ndim)")
                if isinstance(e, float) and dval > e + 4 * math.ulp(max(1.0, e)):
                    res.violations.append({"clause": "DTW <= Euclidean distance", "engine": eng, "case": case,
                                           "dtw": d, "ed": e})
        # model-level: spec within the proven sandwich (sanity of the theorem's hypotheses on this input)
        if od["spec"] != "inf" and (not case.get("penalty") or r == c) and od["spec"] > ob["ed"]:
            res.mismatches.append({"what": "model spec above model ED", "case": case})
        res.sample({"case": case, "ed": exp_ed, "lb": exp_lb, "dtw_python": d_py}, limit=4)
    float_stream(ctx, res, ed_cc)
    return res


def float_stream(ctx, res, ed_cc):
    """real-valued series (values inside (-1,1) and wider, unequal lengths): every upper-bound route of both engines
    against the harness' own evaluation of the documented definition, LB_Keogh python == C, and the sandwich"""
    from dtaidistance import dtw, dtw_ndim, ed, dtw_cc
    rng = ctx.rng
    for it in range(2500 if ctx.thorough else 300):
        nd = rng.choice([1, 1, 1, 2, 3])
        amp = rng.choice([0.9, 0.9, 5.0])
        la, lb_ = rng.randint(1, 9), rng.randint(1, 9)
        if rng.random() < 0.3:
            lb_ = la
        a = np.array([[rng.uniform(-amp, amp) for _ in range(nd)] for _ in range(la)])
        b = np.array([[rng.uniform(-amp, amp) for _ in range(nd)] for _ in range(lb_)])
        s1, s2 = (a[:, 0].copy(), b[:, 0].copy()) if nd == 1 else (a, b)
        res.evaluations += 1
        res.hit("float_stream")
        res.nontrivial.add(repr((a.tolist(), b.tolist())))
        for inner in ("squared euclidean", "euclidean"):
            tot = 0.0
            for t_ in range(max(la, lb_)):
                diff = a[min(t_, la - 1)] - b[min(t_, lb_ - 1)]
                sq = float(np.sum(diff ** 2))
                tot += sq if inner == "squared euclidean" else math.sqrt(sq)
            ref = math.sqrt(tot) if inner == "squared euclidean" else tot
            if nd == 1:
                routes = {"ed.distance": lambda: ed.distance(s1, s2, inner_dist=inner),
                          "ed.distance_fast": lambda: ed.distance_fast(s1, s2, inner_dist=inner),
                          "dtw.ub_euclidean": lambda: dtw.ub_euclidean(s1, s2, inner_dist=inner),
                          "distance(only_ub) python": lambda: dtw.distance(s1, s2, only_ub=True, inner_dist=inner),
                          "distance(only_ub) C": lambda: dtw.distance_fast(s1, s2, only_ub=True, inner_dist=inner)}
                if inner == "squared euclidean":
                    routes["dtw_cc.ub_euclidean"] = lambda: dtw_cc.ub_euclidean(s1, s2)
            else:
                routes = {"ed.distance(ndim)": lambda: ed.distance(s1, s2, inner_dist=inner, use_ndim=True),
                          "dtw_ndim.ub_euclidean": lambda: dtw_ndim.ub_euclidean(s1, s2, inner_dist=inner),
                          "distance(only_ub) python ndim": lambda: dtw_ndim.distance(s1, s2, only_ub=True, inner_dist=inner),
                          "distance(only_ub) C ndim": lambda: dtw_ndim.distance_fast(s1, s2, only_ub=True, inner_dist=inner)}
                if ed_cc is not None:
                    routes["ed_cc.distance_ndim"] = lambda: ed_cc.distance_ndim(s1, s2, 0 if inner == "squared euclidean" else 1)
            info = {"s1": a.tolist(), "s2": b.tolist(), "inner": inner, "ndim": nd}
            for name, fn in routes.items():
                v = call(fn)
                if not agree(v, impl.canon(ref), ulps=64):
                    res.violations.append(dict(info, clause="Euclidean bound on real-valued series: engines agree with the "
                                                            "definition / only_ub returns it", route=name, got=v,
                                               expected=ref))
            w = rng.choice([None, 1, 2, 3])
            kw = {"inner_dist": inner}
            if w is not None:
                kw["window"] = w
            mod = dtw if nd == 1 else dtw_ndim
            d_py = call(lambda: mod.distance(s1, s2, **kw))
            d_c = call(lambda: mod.distance_fast(s1, s2, **kw))
            if not agree(d_py, d_c, ulps=64):
                res.violations.append(dict(info, clause="DTW: engines agree (real-valued)", python=d_py, c=d_c, window=w))
            for eng, d in (("python", d_py), ("C", d_c)):
                if isinstance(d, float) and d > ref * (1 + 1e-12) + 1e-300:
                    res.violations.append(dict(info, clause="DTW <= Euclidean distance (real-valued)", engine=eng, dtw=d,
                                               ed=ref, window=w))
            if nd == 1:
                l_py = call(lambda: dtw.lb_keogh(s1, s2, **kw))
                l_c = call(lambda: dtw.lb_keogh(s1, s2, use_c=True, **kw))
                if not agree(l_py, l_c, ulps=64):
                    res.violations.append(dict(info, clause="LB_Keogh: engines agree (real-valued)", python=l_py, c=l_c,
                                               window=w))
                for eng, d in (("python", d_py), ("C", d_c)):
                    for nm, l in (("python", l_py), ("C", l_c)):
                        if isinstance(d, float) and isinstance(l, float) and l > d * (1 + 1e-12) + 1e-300:
                            res.violations.append(dict(info, clause="LB_Keogh <= DTW (real-valued)", engine=eng, lb_engine=nm,
                                                       lb=l, dtw=d, window=w))


def replay(ctx, rep):
    print(rep.get("violation"))
    return 1 if rep.get("violation") else 0
