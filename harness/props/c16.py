"""C16 — DBA k-means returns k clusters covering all series, nearest mean each."""
import contextlib
import io
import math
import random as pyrandom

import numpy as np

from ..core import Result
from .c02 import agree
from .. import impl


def gen_data(rng, thorough):
    nd = rng.choice([1, 1, 2])
    groups = rng.randint(1, 4)
    L = rng.randint(2, 7)
    protos = [[[rng.randint(-4, 4) for _ in range(nd)] for _ in range(L)] for _ in range(groups)]
    n = rng.randint(3, 14 if thorough else 11)
    series = []
    equal_len = rng.random() < 0.6
    for i in range(n):
        r = rng.random()
        if series and r < 0.2:
            series.append([list(p) for p in rng.choice(series)])            # exact duplicate
            continue
        p = rng.choice(protos)
        s = [[v + rng.choice([0, 0, 0, 1, -1]) for v in pt] for pt in p]
        if not equal_len and rng.random() < 0.5:
            cut = rng.randint(1, len(s))
            s = s[:cut] if rng.random() < 0.5 else s + [list(s[-1])] * rng.randint(1, 2)
        if r > 0.9:                                                          # outlier
            off = rng.choice([15, -20, 40])
            s = [[v + off for v in pt] for pt in s]
        series.append(s)
    if equal_len:
        m = min(len(s) for s in series)
        series = [s[:m] for s in series]
    return nd, series, equal_len


def gen_outlier_data(rng):
    """well separated tight groups of 8..10 series, each with one moderate outlier that stays in its group: the
    situation in which drop_stddev really excludes instances from the mean computation"""
    nd = rng.choice([1, 1, 2])
    groups = rng.choice([1, 2, 2])
    L = rng.randint(3, 6)
    series = []
    for g in range(groups):
        proto = [[40 * g + rng.randint(-2, 2) for _ in range(nd)] for _ in range(L)]
        for _ in range(rng.randint(8, 10)):
            series.append([[v + rng.choice([0, 0, 1, -1]) for v in pt] for pt in proto])
        off = rng.choice([5, 6, 8, -6])
        series.append([[v + off for v in pt] for pt in proto])
    rng.shuffle(series)
    return nd, series, True, groups


def gen_dup_data(rng):
    """many exact copies of a few short small-integer prototypes: clusters whose members all lie at the same
    (irrational) distance from the mean, so that the spread of the distances inside a cluster is exactly zero"""
    nd = rng.choice([1, 1, 2])
    L = rng.randint(2, 3)
    protos = [[[rng.randint(0, 3) for _ in range(nd)] for _ in range(L)] for _ in range(rng.randint(2, 4))]
    n = rng.randint(6, 12)
    series = [[list(pt) for pt in rng.choice(protos)] for _ in range(n)]
    return nd, series, True


def gen_step_data(rng):
    """unequal lengths with a very short first series; the others are two kinds of long step functions whose steps sit
    at very different positions: distances (and the nearest mean) depend on warping far off the diagonal, so a band
    derived from one series of the collection gives other assignments than unrestricted DTW"""
    nd = rng.choice([1, 1, 2])
    series = [[[float(rng.choice([0, 5]))] * nd for _ in range(2)]]
    for _ in range(rng.randint(5, 9)):
        L = rng.randint(9, 14)
        a_ = rng.choice([1, 2, L - 3, L - 2])
        lo, hi = rng.choice([(0, 5), (0, 5), (5, 0)])
        series.append([[float(lo if t < a_ else hi)] * nd for t in range(L)])
    return nd, series, False


def containers(nd, series, equal_len, rng):
    if nd == 1:
        arrs = [np.array([pt[0] for pt in s], dtype=float) for s in series]
        if equal_len and rng.random() < 0.4:
            return "matrix", np.array(arrs)
        return "list", arrs
    arrs = [np.array(s, dtype=float) for s in series]
    if equal_len and rng.random() < 0.4:
        return "3d", np.array(arrs)
    return "list2d", arrs


def run(ctx):
    from dtaidistance.clustering.kmeans import KMeans
    from dtaidistance import dtw, dtw_ndim
    res = Result()
    res.rule = ("random data sets (n > k series, ndim 1..2, grouped patterns with noise, exact duplicates, outliers, "
                "a stream of many exact copies of few short prototypes with drop_stddev set, "
                "equal/unequal lengths, list / matrix / 3-D containers) x k x seeds x initialisation (k-means++, "
                "k-means++ with sample size, random) x drop_stddev x window/penalty x use_c x max_it/max_dba_it x "
                "serial (and a few parallel, fit_fast) runs, every third one on a model object that was fitted on other data before; every fit: keys 0..k-1, partition of all indices, k means, "
                "each series in the cluster of a nearest mean (distances recomputed with the same options), "
                "performed_it <= max_it + 1; the final assignment compared with the Lean nearest-mean model on the "
                "rank-transformed distance table; non-trivial = at least 2 distinct series and k >= 2")
    rng = ctx.rng
    runs = 900 if ctx.thorough else 140
    par_budget = 30 if ctx.thorough else 6
    dup_runs = 1500 if ctx.thorough else 320
    for it in range(runs + dup_runs):
        outlier_stream = it < runs and it % 4 == 3
        dup_stream = it >= runs
        step_stream = it < runs and it % 7 == 5
        if step_stream:
            nd, series, equal_len = gen_step_data(rng)
            n = len(series)
            k = 2
            res.hit("step_stream_short_first_series")
        elif dup_stream:
            nd, series, equal_len = gen_dup_data(rng)
            n = len(series)
            k = rng.randint(2, min(4, n - 1))
        elif outlier_stream:
            nd, series, equal_len, k = gen_outlier_data(rng)
            n = len(series)
        else:
            nd, series, equal_len = gen_data(rng, ctx.thorough)
            n = len(series)
            k = rng.randint(1, min(4, n - 1)) if rng.random() < 0.1 else rng.randint(2, max(2, min(4, n - 1)))
            if k >= n:
                k = n - 1
        cname, data = containers(nd, series, equal_len, rng)
        opts = {}
        if rng.random() < 0.5 and not step_stream:
            opts["window"] = rng.choice([1, 2, 3])
        if rng.random() < 0.3:
            opts["penalty"] = rng.choice([0.5, 1.0])
        use_c = rng.random() < 0.5
        if use_c:
            opts["use_c"] = True
        init = rng.choice(["kmeans++", "kmeans++", "sample", "random"])
        kw = {}
        if init == "sample":
            kw["initialize_sample_size"] = rng.randint(1, max(1, n - k)) if rng.random() < 0.7 else rng.randint(n - 1, n + 3)
        elif init == "random":
            kw["initialize_with_kmeanspp"] = False
        drop = rng.choice([None, None, 1, 2, 3])
        max_it = rng.choice([1, 2, 5, 10, 0])      # 0: only the final assignment to the initial means
        if outlier_stream:
            drop = rng.choice([1, 1, 2])
            max_it = 10
            res.hit("outlier_stream")
        if dup_stream:
            drop = rng.choice([1, 2, 3])
            max_it = rng.choice([5, 10])
            res.hit("duplicate_prototype_stream")
        max_dba_it = rng.choice([1, 3, 10, 10, 0])
        seed = rng.randint(0, 10 ** 6)
        mode = "serial"
        if par_budget > 0 and it % 20 == 7 and not dup_stream:
            mode = rng.choice(["parallel", "fit_fast"])
            par_budget -= 1
        info = {"ndim": nd, "series": series, "container": cname, "k": k, "opts": dict(opts), "init": init, "init_kw": kw,
                "drop_stddev": drop, "max_it": max_it, "max_dba_it": max_dba_it, "seed": seed, "mode": mode}
        res.evaluations += 1
        distinct = len({repr(s) for s in series})
        if distinct >= 2 and k >= 2:
            res.nontrivial.add(repr((series, k, sorted(opts.items()), init, drop, seed)))
        for tag in ("init_" + init, "drop_" + str(drop), "mode_" + mode, "container_" + cname, "c" if use_c else "py"):
            res.hit(tag)
        if distinct < n:
            res.hit("duplicates")
        np.random.seed(seed)
        pyrandom.seed(seed)
        before = [np.array(s, dtype=float).copy() for s in data]
        try:
          with contextlib.redirect_stdout(io.StringIO()):
            model = KMeans(k=k, max_it=max_it, max_dba_it=max_dba_it, drop_stddev=drop, dists_options=dict(opts),
                           show_progress=False, **kw)
            if it % 3 == 1 and mode == "serial":
                # history: the same model object was fitted before, on other data (possibly of another size) with
                # another seed; the fit checked below must not remember anything of it
                other = [np.array(s, dtype=float) + float(rng.choice([0, 1, 5])) for s in data]
                rng.shuffle(other)
                other = other + other[:rng.choice([0, 0, 2])] if rng.random() < 0.5 else other[:max(k + 1, len(other) - 2)]
                np.random.seed(seed + 1)
                pyrandom.seed(seed + 1)
                model.fit(other if cname.startswith("list") else np.array(other), use_parallel=False)
                np.random.seed(seed)
                pyrandom.seed(seed)
                res.hit("refit_history")
            mon = None
            if it % 5 == 2 and max_it >= 3:
                stop_at = rng.choice([None, 2, 2, 3])
                calls_ = {"n": 0}

                def mon(cd_, final_, _s=stop_at, _c=calls_):
                    _c["n"] += 1
                    return False if (_s is not None and not final_ and _c["n"] >= _s) else True
                res.hit("monitor_callback" + ("_stops" if stop_at else "_observes"))
            mkw = {} if mon is None else {"monitor_distances": mon}
            if mode == "fit_fast":
                cl, nit = model.fit_fast(data, **mkw)
            else:
                cl, nit = model.fit(data, use_parallel=(mode == "parallel"), **mkw)
        except BaseException as ex:
            if isinstance(ex, (KeyboardInterrupt, SystemExit)):
                raise
            res.violations.append(dict(info, clause="KMeans.fit raised", got=type(ex).__name__ + ":" + str(ex)[:120]))
            continue
        if sorted(cl.keys()) != list(range(k)):
            res.violations.append(dict(info, clause="exactly k index sets keyed 0..k-1", keys=sorted(map(int, cl.keys()))))
            continue
        allidx = sorted(int(i) for v in cl.values() for i in v)
        if allidx != list(range(n)):
            res.violations.append(dict(info, clause="the clusters partition all series",
                                       clusters={int(a): sorted(map(int, b)) for a, b in cl.items()}))
            continue
        if len(model.means) != k or any(m is None or len(m) == 0 for m in model.means):
            res.violations.append(dict(info, clause="k mean series are returned"))
            continue
        if nit > max_it + 1:
            res.violations.append(dict(info, clause="iteration count <= max_it + 1", performed_it=int(nit)))
        if any(not np.array_equal(a, np.array(b, dtype=float)) for a, b in zip(before, data)):
            res.violations.append(dict(info, clause="fit does not modify the series"))
        # nearest mean: recompute the distance table with the same options and engine
        eff_c = use_c or mode == "fit_fast"
        dopts = {a: b for a, b in opts.items() if a != "use_c"}
        mod = dtw if nd == 1 else dtw_ndim
        fn = mod.distance_fast if eff_c else mod.distance
        table = []
        for i in range(n):
            si = np.ascontiguousarray(np.array(data[i], dtype=float))
            table.append([float(fn(si, np.ascontiguousarray(np.array(m, dtype=float)), **dopts)) for m in model.means])
        assign = {}
        for c_, members in cl.items():
            for i in members:
                assign[int(i)] = int(c_)
        bad = []
        for i in range(n):
            best = min(table[i])
            if not agree(impl.canon(table[i][assign[i]]), impl.canon(best)):
                bad.append((i, assign[i], table[i]))
        if bad:
            res.violations.append(dict(info, clause="every series lies in the cluster of a mean nearest to it",
                                       bad=bad[:4], means=[np.array(m).tolist() for m in model.means]))
            continue
        # model comparison on the rank-transformed table (argmin-first only depends on the order)
        vals = sorted({v for row in table for v in row if not math.isinf(v)})
        rank = {v: r for r, v in enumerate(vals)}
        op = {"op": "nearest", "k": k, "table": [[None if math.isinf(v) else rank[v] for v in row] for row in table]}
        mo = ctx.driver.run([op])[0]
        if mo["assign"] != [assign[i] for i in range(n)]:
            res.mismatches.append(dict(info, what="final assignment differs from the Lean first-minimum model",
                                       impl=[assign[i] for i in range(n)], model=mo["assign"], table=table))
        if mo["clusters"] != [sorted(int(i) for i in cl[j]) for j in range(k)]:
            res.mismatches.append(dict(info, what="clusters differ from the Lean model", model=mo["clusters"]))
        res.sample(dict(info, clusters={int(a): sorted(map(int, b)) for a, b in cl.items()}, performed_it=int(nit)), limit=3)
    return res


def replay(ctx, rep):
    print(rep.get("violation"))
    return 1 if rep.get("violation") else 0
