"""C18 — affinity (local-concurrence) matrix follows its recurrence in both engines; matches are disjoint paths."""
import math
from fractions import Fraction

import numpy as np

from ..core import Result
from .. import impl

TOL = 1e-10


def rat(x):
    n, d = float(x).as_integer_ratio()
    return [n, d]


def gen_case(rng, thorough):
    lmax = 14 if thorough else 9
    self_cmp = rng.random() < 0.3
    l1 = rng.randint(1, lmax)
    l2 = l1 if self_cmp else rng.randint(1, lmax)
    region_c = (not self_cmp) and rng.random() < 0.25
    if region_c:
        # more rows than columns with a narrow window: the compact layout has shifted rows (region C)
        l1 = rng.randint(6, lmax + 3)
        l2 = rng.randint(max(2, l1 - 4), l1 - 1)
    step = rng.choice([1.0, 1.0, 0.5])
    s1 = [step * rng.randint(-3, 3) for _ in range(l1)]
    if self_cmp:
        # a series with repeated motifs, so that several matches exist
        motif = [step * rng.randint(-3, 3) for _ in range(rng.randint(2, 4))]
        s1 = []
        while len(s1) < l1:
            s1 += motif if rng.random() < 0.6 else [step * rng.randint(-3, 3)]
        s1 = s1[:l1]
    s2 = list(s1) if self_cmp else [step * rng.randint(-3, 3) for _ in range(l2)]
    gamma = rng.choice([1.0, 0.5, 2.0, 0.25])
    # affinities attained by the data: exp(-gamma * d^2) for the occurring differences d
    diffs = sorted({abs(a - b) for a in s1 for b in s2})
    att = sorted({float(np.exp(-gamma * d ** 2)) for d in diffs}, reverse=True)
    taus = [0.0, 0.0, 1.0]
    for a, b in zip(att, att[1:]):
        taus.append((a + b) / 2)           # robustly between two attained affinities
    tau = rng.choice(taus)
    delta = rng.choice([0.0, -0.5, -1.0, -2.0 * tau])
    delta_factor = rng.choice([1.0, 0.5, 0.9, 0.25])
    penalty = rng.choice([None, None, 0.0, 0.1, 0.5, 1.0, tau / 10])
    window = rng.choice([None, None, 1, 2, 3, 5])
    if region_c:
        window = rng.choice([1, 1, 2])
        penalty = rng.choice([None, 0.0])        # the compact search is compared with the model without penalty
    only_triu = True if self_cmp and rng.random() < 0.5 else (rng.random() < 0.2)
    calls = []
    if region_c:
        calls.append({"k": None, "minlen": rng.choice([1, 2]), "restart": True})
    for ci in range(0 if region_c else rng.randint(1, 3)):
        calls.append({"k": rng.choice([1, 2, 3, None]), "minlen": rng.choice([1, 2, 2, 3]),
                      "restart": True if ci == 0 else rng.random() < 0.5})
    slices = []
    for _ in range(3):
        rb = rng.randint(0, l1); re_ = rng.randint(rb + 1, l1 + 1)
        cb = rng.randint(0, l2); ce = rng.randint(cb + 1, l2 + 1)
        slices.append([rb, re_, cb, ce])
    return {"slices": slices, "s1": s1, "s2": s2, "self": self_cmp, "window": window, "only_triu": only_triu, "penalty": penalty,
            "gamma": gamma, "tau": tau, "delta": delta, "delta_factor": delta_factor, "calls": calls}


def unhex(m):
    return [[None if v is None else float.fromhex(v) for v in row] for row in m]


def compare_matrix(res, case, name, got, model):
    """exclusion pattern exactly, values within rounding of the exact recurrence"""
    if isinstance(got, dict):
        res.violations.append({"clause": "affinity matrix routine raised", "route": name, "case": case, "got": got["error"]})
        return False
    got = unhex(got)
    if len(got) != len(model) or any(len(a) != len(b) for a, b in zip(got, model)):
        res.violations.append({"clause": "affinity matrix shape", "route": name, "case": case})
        return False
    bad = []
    for i, (ra, rb) in enumerate(zip(got, model)):
        for j, (a, b) in enumerate(zip(ra, rb)):
            if (a is None) != (b is None):
                bad.append((i, j, a, None if b is None else float(b), "excluded cell" if b is None else "in-band cell"))
            elif a is not None:
                fb = float(b)
                if math.isnan(a) or abs(a - fb) > TOL * max(1.0, abs(fb)):
                    bad.append((i, j, a, fb, "value"))
    if bad:
        res.violations.append({"clause": "every in-band cell satisfies the affinity recurrence; cells outside the band "
                                         "(and below the diagonal with only_triu) are excluded", "route": name,
                               "case": case, "bad_cells": bad[:6]})
        return False
    return True


def check_matches(res, case, engine, lcres, compact):
    """clauses that do not need the hidden search state: contiguous monotone paths ending in the start cell, through
    cells that are positive in the matrix, no cell shared with an earlier match of the same epoch"""
    start = unhex(lcres["start"])
    used = set()
    ok = True
    exact_state = True
    if lcres.get("runaway"):
        res.violations.append({"clause": "matches never reuse a cell of an earlier match: the search yielded more matches "
                                         "than the matrix has cells (the same match is found again and again)",
                               "engine": engine, "case": case})
        return False
    for call, ms in zip(case["calls"], lcres["calls"]):
        if call["restart"]:
            used = set()            # a restarted search really starts again (the matrix is positivized)
            exact_state = True
        if call["minlen"] > 1:
            exact_state = False     # candidates shorter than minlen are negated without being reported
        if call["k"] is not None and len(ms) > call["k"]:
            res.violations.append({"clause": "at most k matches", "engine": engine, "case": case})
            ok = False
        for m in ms:
            p = [tuple(x) for x in m["path"]]
            info = {"engine": engine, "case": case, "match": m}
            if not p or p[-1] != (m["row"] - 1, m["col"] - 1):
                res.violations.append(dict(info, clause="the path of a match ends in the cell it was traced from"))
                ok = False
                continue
            if any((b[0] - a[0], b[1] - a[1]) not in ((1, 1), (1, 0), (0, 1)) for a, b in zip(p, p[1:])):
                res.violations.append(dict(info, clause="a match is a contiguous monotone path"))
                ok = False
            if len(p) < call["minlen"]:
                res.violations.append(dict(info, clause="matches are at least minlen long"))
                ok = False
            for (x, y) in p:
                v = start[x + 1][y + 1] if 0 <= x + 1 < len(start) and 0 <= y + 1 < len(start[0]) else None
                if v is None or not abs(v) > 0:
                    res.violations.append(dict(info, clause="a match runs through positive cells", cell=[x, y], value=v))
                    ok = False
                    break
            # traced from a maximum: exact when no candidate has been discarded as too short so far in this epoch
            # (then the negated cells are exactly the cells of the matches seen)
            if exact_state:
                best = max((v for i_, row in enumerate(start) for j_, v in enumerate(row)
                            if v is not None and i_ >= 1 and j_ >= 1 and (i_ - 1, j_ - 1) not in used), default=None)
                v0 = start[m["row"]][m["col"]] if m["row"] < len(start) and m["col"] < len(start[0]) else None
                if best is not None and (v0 is None or v0 < best):
                    res.violations.append(dict(info, clause="a match is traced from a maximum of the cells not used "
                                                            "so far", start_value=v0, maximum=best))
                    ok = False
            if used & set(p):
                res.violations.append(dict(info, clause="a match never reuses a cell of an earlier match",
                                           shared=sorted(used & set(p))[:5]))
                ok = False
            used |= set(p)
    return ok


def run(ctx):
    res = Result()
    res.rule = ("random pairs and self-comparisons (lengths 1..9/14, integer and half-integer values, repeated motifs) x "
                "gamma x tau (0, 1 = exact tie at equal values, midpoints between attained affinities) x delta x "
                "delta_factor x penalty (None, 0, values) x window x only_triu; Python, Python-via-use_c, C full and C "
                "compact (expanded) matrices compared with the exact rational evaluation of the recurrence by the Lean "
                "model (exclusion pattern exactly, values within 1e-10); LocalConcurrences in the three engine variants: "
                "sequences of kbest_matches calls (k, minlen, restart) - path clauses evaluated on every match and the "
                "whole sequence compared with the Lean search model run on the engine's own matrix; implementation "
                "calls run in a worker sub-process; non-trivial = both lengths >= 3")
    rng = ctx.rng
    n = 3000 if ctx.thorough else 130
    cases = [gen_case(rng, ctx.thorough) for _ in range(n)]
    w = impl.run_worker("affinity_eval", [[[c], {}] for c in cases], timeout=1800)
    if w["crashed"]:
        # find the case that kills the process
        for c in cases:
            w1 = impl.run_worker("affinity_eval", [[[c], {}]], timeout=300)
            if w1["crashed"]:
                res.violations.append({"clause": "affinity / local-concurrence routines crashed the interpreter",
                                       "case": c, "rc": w1["rc"], "stderr": w1["stderr"][-400:]})
                res.evaluations += 1
                return res
        res.mismatches.append({"what": "worker crashed on the batch but on no single case", "stderr": w["stderr"][-400:]})
        return res
    ops = []
    for c in cases:
        l1, l2 = len(c["s1"]), len(c["s2"])
        aff = [rat(np.exp(-c["gamma"] * (a - b) ** 2)) for a in c["s1"] for b in c["s2"]]
        ops.append({"op": "affinity", "r": l1, "c": l2, "window": c["window"] or 0, "onlyTriu": c["only_triu"],
                    "pen": rat(c["penalty"] or 0.0), "tau": rat(c["tau"]), "delta": rat(c["delta"]),
                    "deltaFactor": rat(c["delta_factor"]), "aff": aff})
    mouts = ctx.driver.run(ops)
    lc_ops, lc_meta = [], []
    for c, out, mo in zip(cases, w["results"], mouts):
        res.evaluations += 1
        l1, l2 = len(c["s1"]), len(c["s2"])
        if l1 >= 3 and l2 >= 3:
            res.nontrivial.add(repr(sorted((k, repr(v)) for k, v in c.items())))
        for tag in ("self" if c["self"] else "pair", "triu" if c["only_triu"] else "full",
                    "window" if c["window"] else "nowindow", "penalty_%s" % ("none" if c["penalty"] is None else "set"),
                    "tau_tie" if c["tau"] == 1.0 else ("tau0" if c["tau"] == 0 else "tau_mid")):
            res.hit(tag)
        model = [[None if v is None else Fraction(v[0], v[1]) for v in row] for row in mo["matrix"]]
        good = True
        for name in ("py", "py_use_c", "c_full", "c_compact"):
            good = compare_matrix(res, c, name, out[name], model) and good
        if not good:
            continue
        # slices of the compact matrix (what LocalConcurrences.wp_slice returns) against the same block of the model
        for (rb, re_, cb, ce), sl in zip(c["slices"], out.get("c_compact_slices", [])):
            sub = [row[cb:ce] for row in model[rb:re_]]
            res.hit("compact_slice")
            good = compare_matrix(res, c, "c_compact slice [%d:%d, %d:%d]" % (rb, re_, cb, ce), sl, sub) and good
        if not good:
            continue
        for engine in ("py", "c_full", "c_compact"):
            lcres = out["lc_" + engine]
            if "error" in lcres:
                res.violations.append({"clause": "LocalConcurrences raised", "engine": engine, "case": c,
                                       "got": lcres["error"]})
                continue
            compact = engine == "c_compact"
            # the matrix the LocalConcurrences object built from its own arguments (self-comparison, only_triu, window,
            # penalty are passed through its constructor) is the matrix of the recurrence for the REQUESTED options
            if not compare_matrix(res, c, "LocalConcurrences(%s) matrix" % engine, lcres["start"], model):
                continue
            res.hit("lc_matrix_compared")
            sp, sq = lcres.get("store_plain"), lcres.get("store_progress")
            if sp is not None and sq is not None:
                res.hit("store_history_with_progress_callable")
                if sp != sq:
                    res.violations.append({"clause": "kbest_matches_store gives the same matches with and without a progress "
                                                     "callable", "engine": engine, "case": c, "plain": sp, "with_progress": sq})
                for nm_, hist_ in (("plain", sp), ("with progress callable", sq)):
                    first = {tuple(x) for m_ in hist_[0] for x in m_}
                    later = [tuple(x) for m_ in hist_[1] for x in m_]
                    if any(x in first for x in later):
                        res.violations.append({"clause": "a search continued without restart never reuses a cell of an earlier "
                                                         "match (kbest_matches_store, %s)" % nm_, "engine": engine, "case": c,
                                               "first_call": hist_[0], "second_call": hist_[1]})
            if lcres.get("positivized_equals_start") is False:
                res.violations.append({"clause": "the positivized view of the matrix (marks of earlier matches removed) is "
                                                 "the matrix of the recurrence: excluded cells stay excluded", "engine": engine,
                                       "case": c})
            if not check_matches(res, c, engine, lcres, compact):
                continue
            if compact and c["penalty"]:
                res.hit("compact_invariants_only")
                continue        # the C walk adds the penalty in floating point: sequence compared only without penalty
            start = unhex(lcres["start"])
            masked = lcres.get("masked")
            wp = [[None if (v is None or (masked and masked[i][j])) else rat(v) for j, v in enumerate(row)]
                  for i, row in enumerate(start)]
            lc_ops.append({"op": "lc", "wp": wp, "resetPositivizes": True, "cRule": compact, "pen": rat(0.0),
                           "calls": [{"k": cl["k"], "minlen": cl["minlen"], "restart": cl["restart"]} if cl["k"] is not None
                                     else {"minlen": cl["minlen"], "restart": cl["restart"]} for cl in c["calls"]]})
            lc_meta.append((c, engine, lcres))
        res.sample({"case": c}, limit=3)
    for (c, engine, lcres), mo in zip(lc_meta, ctx.driver.run(lc_ops)):
        got = [[(m["row"], m["col"], [tuple(x) for x in m["path"]]) for m in ms] for ms in lcres["calls"]]
        want = [[(m["row"], m["col"], [tuple(x) for x in m["path"]]) for m in ms] for ms in mo["calls"]]
        res.hit("lc_compared_" + engine)
        if got != want:
            res.mismatches.append({"what": "kbest_matches sequence differs from the Lean search model", "engine": engine,
                                   "case": c, "impl": got, "model": want})
    return res


def replay(ctx, rep):
    print(rep.get("violation"))
    return 1 if rep.get("violation") else 0
