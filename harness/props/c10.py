"""C10 — identity, non-negativity, symmetry and option monotonicity."""
import math

from .. import dtwcases as dc
from .. import impl
from ..core import Result
from .c02 import agree


def val(x):
    return math.inf if x == "inf" else x


def run(ctx):
    res = Result()
    res.rule = ("random base cases (equal/unequal lengths, ndim 1..2, both inner distances) and, for each, the related "
                "calls: self-distance, swapped series with swapped psi, window w vs w+1 / None, psi p vs p+1, penalty "
                "p vs p', max_step m vs m', window=1 on equal lengths vs ED; both engines and the distance matrix; "
                "laws evaluated on the implementation and the implementation compared with the Lean spec; "
                "non-trivial = every related pair whose two distances differ or whose options are active")
    rng = ctx.rng
    n = 3000 if ctx.thorough else 450
    maxlen = 24 if ctx.thorough else 9
    checks = []     # (law, caseA, caseB, relation)  relation: "eq" | "le" (A <= B)
    for k in range(n):
        ndim = rng.choice([1, 1, 1, 2])
        c = dc.rand_case(rng, maxlen if k % 3 else 5, ndim=ndim, allow_mld=False)
        if ndim > 1:
            c["inner"] = "sq"
        if not dc.psi_in_range(c) or dc.degenerate_psi(c):
            continue
        if c.get("window") is not None and c["window"] < 1:
            continue
        r, cc = dc.npoints(c)
        # identity
        self_case = dict(c, s2=list(c["s1"]))
        if dc.psi_in_range(self_case) and not dc.degenerate_psi(self_case) and not c.get("max_step"):
            checks.append(("self-distance is zero", self_case, None, "zero"))
        # symmetry
        p = dc.psi_tuple(c.get("psi"))
        sw = dict(c, s1=list(c["s2"]), s2=list(c["s1"]), psi=[p[2], p[3], p[0], p[1]])
        if len(checks) % 2 and not isinstance(c.get("psi"), int) and c.get("psi") is not None:
            # the 4 entries given as a list instead of a tuple (both are accepted)
            checks.append(("symmetry (series and per-series psi swapped; psi as a list)", dict(c, psi_list=True),
                           dict(sw, psi_list=True), "eq"))
        checks.append(("symmetry (series and per-series psi swapped)", c, sw, "eq"))
        # window
        w = c.get("window")
        if w is not None:
            checks.append(("window w+1 <= window w", dict(c, window=w + 1), c, "le"))
            checks.append(("window None <= window w", dict(c, window=None), c, "le"))
        # psi
        p2 = [min(r, p[0] + rng.randint(0, 1)), min(r, p[1] + rng.randint(0, 1)),
              min(cc, p[2] + rng.randint(0, 1)), min(cc, p[3] + rng.randint(0, 1))]
        big = dict(c, psi=p2)
        if not dc.degenerate_psi(big):
            checks.append(("more psi-relaxation never increases", big, c, "le"))
        # penalty
        pen = c.get("penalty") or 0
        checks.append(("larger penalty never decreases", c, dict(c, penalty=pen + rng.randint(1, 2)), "le"))
        # max_step
        ms = c.get("max_step")
        if ms:
            checks.append(("relaxed max_step never increases", dict(c, max_step=ms + rng.randint(1, 3)), c, "le"))
            checks.append(("max_step off never increases", dict(c, max_step=None), c, "le"))
        # window 1 on equal lengths == ED
        if r == cc:
            w1 = dict(c, window=1, psi=None, max_step=None)
            checks.append(("window 1 on equal lengths equals ED", w1, None, "ed"))
    allcases = []
    for law, a, b, rel in checks:
        allcases.append(a)
        if b is not None:
            allcases.append(b)
    outs = ctx.driver.run([dc.lean_op(c, engine="py") for c in allcases])
    spec = {dc.case_key(c): o for c, o in zip(allcases, outs)}
    cache = {}

    def wrap_distance(case):
        """the same distance through the multivariate matrix convenience wrapper (every option is forwarded by it)"""
        import numpy as np
        from dtaidistance import dtw_ndim
        nd = case.get("ndim", 1)
        kw = dc.py_kwargs(case)
        a_ = np.array(case["s1"], dtype=float).reshape((-1, nd))
        b_ = np.array(case["s2"], dtype=float).reshape((-1, nd))
        try:
            return impl.canon(dtw_ndim.distance_matrix_fast([a_, b_], compact=True, parallel=False, **kw)[0])
        except BaseException as e:
            if isinstance(e, (KeyboardInterrupt, SystemExit)):
                raise
            return impl.exc_name(e)

    def dist(case, fast):
        key = (dc.case_key(case), fast)
        if key not in cache:
            cache[key] = wrap_distance(case) if fast == "wrap" else impl.py_distance(case, "numpy", fast=fast)
        return cache[key]

    for ci_, (law, a, b, rel) in enumerate(checks):
        for fast in ((False, True, "wrap") if ci_ % 3 == 0 else (False, True)):
            eng = "dtw_ndim.distance_matrix_fast" if fast == "wrap" else ("C" if fast else "python")
            res.evaluations += 1
            da = dist(a, fast)
            sa = impl.canon(dc.expected_from_internal(a, spec[dc.case_key(a)]["spec"]))
            if not agree(da, sa):
                res.mismatches.append({"what": "implementation vs Lean spec", "engine": eng, "case": a, "impl": da,
                                       "spec": sa})
            if isinstance(da, str) and da.startswith("exc"):
                res.violations.append({"clause": law, "engine": eng, "case": a, "got": da})
                continue
            if isinstance(da, float) and da < 0:
                res.violations.append({"clause": "non-negativity", "engine": eng, "case": a, "got": da})
            if rel == "zero":
                if da != 0.0:
                    res.violations.append({"clause": law, "engine": eng, "case": a, "got": da})
                res.nontrivial.add(dc.case_key(a))
                continue
            if rel == "ed":
                e = impl.canon(dc.expected_from_internal(a, spec[dc.case_key(a)]["ed"]))
                if not agree(da, e):
                    res.violations.append({"clause": law, "engine": eng, "case": a, "dtw": da, "ed": e})
                res.nontrivial.add(dc.case_key(a))
                continue
            db = dist(b, fast)
            if isinstance(db, str) and db.startswith("exc"):
                res.violations.append({"clause": law, "engine": eng, "case": b, "got": db})
                continue
            va, vb = val(da), val(db)
            tol = 0.0 if (math.isinf(va) or math.isinf(vb)) else 4 * math.ulp(max(abs(va), abs(vb), 1.0))
            if rel == "eq" and not agree(da, db):
                res.violations.append({"clause": law, "engine": eng, "case_a": a, "case_b": b, "a": da, "b": db})
            if rel == "le" and va > vb + tol:
                res.violations.append({"clause": law, "engine": eng, "case_smaller": a, "case_larger": b,
                                       "smaller": da, "larger": db})
            if da != db or rel == "eq":
                res.nontrivial.add(dc.case_key(a) + dc.case_key(b))
            res.hit(law)
        res.sample({"law": law, "a": a, "b": b}, limit=5)
    return res


def replay(ctx, rep):
    print(rep.get("violation"))
    return 1 if rep.get("violation") else 0
