"""C07 — parallel distance-matrix computation is schedule-independent."""
import ctypes as C
import math
import os

import numpy as np

from .. import dtwcases as dc
from .. import impl, native
from ..core import Result
from . import c06


def omp_lib():
    for name in ("libgomp.so.1", "libgomp.so"):
        try:
            return C.CDLL(name)
        except OSError:
            continue
    return None


def c02_agree(a, b):
    from .c02 import agree
    return agree(a, b)


def run(ctx):
    from dtaidistance import dtw, dtw_ndim
    res = Result()
    res.rule = ("blocks x thread counts {1,2,3,7,16,64} x the exported C *_parallel routines (ptrs/matrix, ndim) vs "
                "their serial counterparts, bit-exact; Python API parallel=True (OpenMP, multiprocessing with C and "
                "Python kernels) vs parallel=False incl. asymmetric psi; slots compared with the Lean plan; "
                "non-trivial = more than one row and a proper block or unequal lengths")
    lib = native.load("plain")
    gomp = omp_lib()
    rng = ctx.rng
    threads = [1, 2, 3, 7, 16, 64]
    nmax = 8 if ctx.thorough else 6
    nblocks = 60 if ctx.thorough else 14
    # ---- direct C routines
    for n in range(2, nmax + 1):
        blocks = list(c06.all_blocks(n))
        blocks = [None] + rng.sample(blocks[1:], min(nblocks, len(blocks) - 1))
        plans = ctx.driver.run([c06.block_op(n, b) for b in blocks])
        for b, plan in zip(blocks, plans):
            ndim = rng.choice([1, 1, 2])
            equal = rng.random() < 0.5
            series = c06.make_series(rng, n, ndim, equal, tagged=False)
            L = max(len(s) for s in series) // ndim
            settings = {"window": rng.choice([None, 1, 2]), "penalty": rng.choice([None, 1]),
                        "psi": rng.choice([None, [1, 0, 0, 1]]) if min(len(s) // ndim for s in series) >= 1 else None}
            cs = native.settings_from_case(settings)
            arrs = [native.darr(s) for s in series]
            ptrs = (C.POINTER(C.c_double) * n)(*[C.cast(a, C.POINTER(C.c_double)) for a in arrs])
            lens = (native.idx_t * n)(*[len(s) // ndim for s in series])
            length = len(plan["pairs"])

            def blk():
                return native.DTWBlock(*(b[:4] if b else (0, 0, 0, 0)), b[4] if b else True)

            def call(fn, *args):
                out = np.full(length + 8, -777.5)
                bk = blk()
                got = fn(*args, out.ctypes.data_as(C.POINTER(C.c_double)), C.byref(bk), C.byref(cs))
                return int(got), out

            if ndim == 1:
                ser = call(lib.dtw_distances_ptrs, ptrs, n, lens)
                par_fn, par_args = lib.dtw_distances_ptrs_parallel, (ptrs, n, lens)
            else:
                ser = call(lib.dtw_distances_ndim_ptrs, ptrs, n, lens, ndim)
                par_fn, par_args = lib.dtw_distances_ndim_ptrs_parallel, (ptrs, n, lens, ndim)
            res.evaluations += 1
            if b is not None and n > 2:
                res.nontrivial.add(repr((n, b, ndim)))
            if ser[0] != length or not np.all(ser[1][length:] == -777.5):
                res.violations.append({"clause": "serial routine fills exactly the advertised slots", "n": n,
                                       "block": b, "returned": ser[0], "expected": length})
                continue
            for t in threads:
                if gomp is not None:
                    gomp.omp_set_num_threads(t)
                for rep in range(2):
                    par = call(par_fn, *par_args)
                    res.evaluations += 1
                    if par[0] != ser[0] or not np.array_equal(par[1], ser[1]):
                        res.violations.append({"clause": "parallel == serial, element for element", "routine":
                                               par_fn.__name__, "threads": t, "n": n, "block": b, "ndim": ndim,
                                               "series": series, "settings": settings,
                                               "serial": ser[1][:length].tolist(), "parallel": par[1][:length + 2].tolist()})
                        break
            # matrix variants (equal lengths only)
            if equal:
                flat = np.array([x for s in series for x in s], dtype=np.double)
                mp_ = flat.ctypes.data_as(C.POINTER(C.c_double))
                if ndim == 1:
                    ser2 = call(lib.dtw_distances_matrix, mp_, n, L)
                    pf, pa = lib.dtw_distances_matrix_parallel, (mp_, n, L)
                else:
                    ser2 = call(lib.dtw_distances_ndim_matrix, mp_, n, L, ndim)
                    pf, pa = lib.dtw_distances_ndim_matrix_parallel, (mp_, n, L, ndim)
                if not np.array_equal(ser2[1], ser[1]):
                    res.violations.append({"clause": "matrix container == pointer container", "n": n, "block": b})
                for t in (2, 7, 64):
                    if gomp is not None:
                        gomp.omp_set_num_threads(t)
                    par = call(pf, *pa)
                    res.evaluations += 1
                    if par[0] != ser2[0] or not np.array_equal(par[1], ser2[1]):
                        res.violations.append({"clause": "parallel == serial, element for element",
                                               "routine": pf.__name__, "threads": t, "n": n, "block": b, "ndim": ndim})
                        break
            # the model's slot plan: slot k <- k-th pair (checked against the serial values via single pairs)
            slots = [w[0] for row in plan["writes"] for w in row]
            if slots != list(range(length)) or [tuple(w[1:]) for row in plan["writes"] for w in row] != \
                    [tuple(p) for p in plan["pairsC"]]:
                res.mismatches.append({"what": "model plan slots", "n": n, "block": b})
            res.sample({"n": n, "block": b, "ndim": ndim, "threads": threads, "length": length}, limit=4)
    if gomp is not None:
        gomp.omp_set_num_threads(os.cpu_count() or 4)
    # ---- Python API
    api_runs = 48 if ctx.thorough else 18
    for k in range(api_runs):
        n = rng.randint(2, 6)
        ndim = 2 if k % 6 == 3 else rng.choice([1, 1, 2])      # multivariate multiprocessing routes in every run
        equal = rng.random() < 0.5
        series = c06.make_series(rng, n, ndim, equal, tagged=False)
        # containers: matrix, list, and a list of non-contiguous views on the same numbers (the parallel wrappers have
        # their own conversion step in front of the C code)
        data = c06.container(series, ndim, "matrix" if (equal and k % 2) else ("list", "list_views")[k % 3 == 2])
        if k % 3 == 2:
            res.hit("api_list_of_views")
        b = rng.choice(list(c06.all_blocks(n)))
        psi = rng.choice([None, 1, (1, 0, 0, 1), (0, 1, 1, 0)])
        kw = {"window": rng.choice([None, 2]), "psi": psi}
        kw = {k2: v for k2, v in kw.items() if v is not None}
        mod = dtw if ndim == 1 else dtw_ndim
        extra = {} if ndim == 1 else {"ndim": ndim}
        routes = [("omp", dict(use_c=True, parallel=True)), ]
        if k % 3 == 0:
            routes += [("mp-c", dict(use_c=True, parallel=True, use_mp=True)),
                       ("mp-python", dict(use_c=False, parallel=True))]
        for name, rk in routes:
            res.evaluations += 1
            res.nontrivial.add(repr((n, b, name, psi, tuple(map(tuple, series)))))
            try:
                # reference: the serial routine of the same engine on plain contiguous copies
                plain = [np.ascontiguousarray(x) for x in data] if isinstance(data, list) else data
                serial = list(mod.distance_matrix(plain, block=c06.block_arg(b), compact=True, parallel=False,
                                                  use_c=rk["use_c"], **extra, **kw))
                par = list(mod.distance_matrix(data, block=c06.block_arg(b), compact=True, **rk, **extra, **kw))
            except BaseException as e:
                if isinstance(e, (KeyboardInterrupt, SystemExit)):
                    raise
                res.violations.append({"clause": "parallel routine raised", "route": name, "n": n, "block": b,
                                       "got": impl.exc_name(e) + ": " + str(e)[:120], "kwargs": repr(kw)})
                continue
            if serial != par:
                res.violations.append({"clause": "parallel == serial, element for element", "route": name, "n": n,
                                       "block": b, "series": series, "kwargs": repr(kw), "serial": serial,
                                       "parallel": par})
    # ---- every keyword that reaches the parallel routes (progress reporting, compact / square result): the pairs come
    # back in the order they were handed out even when workers finish out of order (two long series among short ones)
    for k in range(3 if ctx.thorough else 1):
        long_ = [[float(rng.randint(-3, 3)) for _ in range(260)] for _ in range(2)]
        short = [[float(rng.randint(-3, 3)) for _ in range(rng.randint(2, 5))] for _ in range(rng.randint(3, 5))]
        coll = [np.array(x) for x in (long_[:1] + short[:1] + long_[1:] + short[1:])]
        serial = list(dtw.distance_matrix(coll, compact=True, parallel=False, use_c=False))
        for name, rk in (("mp-python, show_progress", dict(use_c=False, parallel=True, show_progress=True)),
                         ("mp-c, show_progress", dict(use_c=True, parallel=True, use_mp=True, show_progress=True)),
                         ("omp, show_progress", dict(use_c=True, parallel=True, show_progress=True))):
            res.evaluations += 1
            res.hit("route_" + name.replace(", ", "_"))
            try:
                par = list(dtw.distance_matrix(coll, compact=True, **rk))
            except BaseException as e:
                if isinstance(e, (KeyboardInterrupt, SystemExit)):
                    raise
                res.violations.append({"clause": "parallel routine raised", "route": name,
                                       "got": impl.exc_name(e) + ": " + str(e)[:120]})
                continue
            if len(par) != len(serial) or any(not c02_agree(impl.canon(a_), impl.canon(b_)) for a_, b_ in zip(par, serial)):
                res.violations.append({"clause": "parallel == serial, element for element", "route": name,
                                       "lengths": [len(x) for x in coll], "serial": serial, "parallel": par})
    # ---- OpenMP runtimes that grant fewer threads than requested (thread limit / dynamic adjustment): sub-processes
    envs = [{"OMP_NUM_THREADS": "4", "OMP_THREAD_LIMIT": "2"}, {"OMP_NUM_THREADS": "7", "OMP_THREAD_LIMIT": "3"},
            {"OMP_NUM_THREADS": "64", "OMP_DYNAMIC": "true"}, {"OMP_NUM_THREADS": "6", "OMP_SCHEDULE": "dynamic,2"}]
    if not ctx.thorough:
        envs = envs[:3]
    jobs = []
    for k in range(6 if ctx.thorough else 3):
        n = rng.randint(5, 12)
        ndim = 1 if k % 3 else 2
        series = c06.make_series(rng, n, ndim, k % 2 == 0, tagged=False)
        blocks = [None, [0, n, 0, n, False], [1, n - 1, 0, n, True]]
        for b in blocks:
            jobs.append([[[list(map(float, s)) for s in series], ndim, b, {"window": 2} if k % 2 else {}], {}])
    for env in envs:
        w = impl.run_worker("omp_vs_serial", jobs, env_extra=env, timeout=600)
        res.hit("omp_env_" + "_".join("%s=%s" % kv for kv in sorted(env.items())))
        if w["crashed"]:
            res.violations.append({"clause": "parallel routine crashed", "env": env, "stderr": w["stderr"][-300:]})
            continue
        for job, out in zip(jobs, w["results"]):
            res.evaluations += 1
            for run_i, par in enumerate(out["parallel"]):
                if par != out["serial"]:
                    bad = [i for i, (a_, b_) in enumerate(zip(par, out["serial"])) if a_ != b_]
                    res.violations.append({"clause": "the OpenMP matrix equals the serial one whatever team the runtime "
                                                     "grants", "env": env, "series": job[0][0], "ndim": job[0][1],
                                           "block": job[0][2], "kw": job[0][3], "run": run_i, "differing_cells": bad[:10]})
                    break
    return res


def replay(ctx, rep):
    print(rep.get("violation"))
    return 1 if rep.get("violation") else 0
