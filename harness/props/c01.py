"""C01 — pure-Python DTW distance = optimum over admissible warping paths."""
import math

from .. import dtwcases as dc
from .. import impl
from ..core import Result


def gen_cases(ctx):
    rng = ctx.rng
    cases = []
    # corpus of past disagreements / regression inputs first
    cases += CORPUS
    maxlen_ex = 5 if ctx.thorough else 4
    for c in dc.exhaustive_cases(maxlen_ex, rng=rng, limit_values=3 if ctx.thorough else 2):
        cases.append(c)
    n_rand = 30000 if ctx.thorough else 2500
    maxlen = 40 if ctx.thorough else 12
    for k in range(n_rand):
        ml = maxlen if k % 4 else 6
        c = dc.rand_case(rng, ml)
        u = rng.random()
        if u < 0.05:
            c["inner"] = "cube"
        elif u < 0.13:
            # a parameterised instance; successive calls see different parameters of the same class
            c["inner"], c["p"], c["mul"] = "pow", rng.choice([1, 2, 3]), rng.choice([1, 2, 3])
        elif u < 0.21:
            # an inner distance that is not symmetric in its two arguments: d(x, y) != d(y, x)
            c["inner"], c["up"], c["down"] = "asym", rng.choice([2, 3]), 1
        cases.append(c)
    out = []
    for c in cases:
        if not dc.psi_in_range(c) or dc.degenerate_psi(c):
            continue
        if c.get("window") is not None and c["window"] < 1:
            continue
        out.append(c)
    return out


CORPUS = [
    # psi_2e larger than the in-band part of the last row (narrow window)
    {"s1": [0, 1, 0, 2, 1], "s2": [1, 0, 2, 0, 1], "window": 1, "psi": 4, "inner": "sq"},
    {"s1": [0, 0, 1, 2, 1, 0, 1], "s2": [0, 1, 2], "window": 2, "psi": 2, "inner": "sq"},
    {"s1": [0, 0, 0], "s2": [1, 1, 1], "inner": "sq"},
    {"s1": [3], "s2": [1, 2, 3, 4], "psi": [0, 0, 3, 3], "inner": "abs"},
]


def lean_op(case):
    if case.get("inner") == "asym":
        costs = [case["up"] * (a - b) if a > b else case["down"] * (b - a) for a in case["s1"] for b in case["s2"]]
        return dc.lean_op(dict(case, inner="abs"), engine="py", costs=costs)
    if case.get("inner") in ("cube", "pow"):
        p, sc = (3, 1) if case["inner"] == "cube" else (case["p"], case["mul"])
        costs = [sc * abs(a - b) ** p for a in case["s1"] for b in case["s2"]]
        cc = dict(case, inner="abs")
        return dc.lean_op(cc, engine="py", costs=costs)
    return dc.lean_op(case, engine="py")


def expected(case, n):
    if case.get("inner") in ("cube", "pow", "asym"):
        return math.inf if n == "inf" else float(n // dc.SCALE)
    return dc.expected_from_internal(case, n)


def run(ctx):
    res = Result()
    res.rule = ("corpus + exhaustive (r,c<=%d x window x psi) + boundary-biased random cases on the integer lattice; "
                "a case is non-trivial when the band is clipped, psi is used, max_step/penalty/max_length_diff is "
                "active or the inner distance is not the default; distinct = distinct canonical case"
                % (5 if ctx.thorough else 4))
    cases = gen_cases(ctx)
    ops = [lean_op(c) for c in cases]
    outs = ctx.driver.run(ops)
    nonumpy_cases = []
    for i, (case, out) in enumerate(zip(cases, outs)):
        if "error" in out:
            raise RuntimeError("driver error %s on %s" % (out["error"], case))
        container = ("numpy", "list", "array")[i % 3]
        if i % 5 == 0 and isinstance(case.get("psi"), int) and case["psi"] > 0:
            case = dict(case, psi_np=True)
            res.hit("psi_as_numpy_integer")
        got = impl.py_distance(case, container)
        res.evaluations += 1
        check_case(ctx, res, case, out, got, container)
        if i % 7 == 0 and len(nonumpy_cases) < (4000 if ctx.thorough else 400) and case.get("inner") not in ("cube", "pow", "asym"):
            nonumpy_cases.append((case, out))
    # NumPy-absent run in a sub-process
    job = [[[c, "list"], {}] for c, _ in nonumpy_cases]
    w = impl.run_worker("py_distance", job, env_extra={"DTAIDISTANCE_TESTWITHOUTNUMPY": "1"})
    if w["crashed"]:
        res.mismatches.append({"where": "numpy-absent worker crashed", "stderr": w["stderr"]})
    else:
        for (case, out), got in zip(nonumpy_cases, w["results"]):
            res.evaluations += 1
            check_case(ctx, res, case, out, got, "list/no-numpy")
        res.coverage["numpy_absent_cases"] = len(nonumpy_cases)
    return res


def nontrivial(case):
    r, c = dc.npoints(case)
    tags = []
    w = case.get("window")
    if w is not None and w < max(r, c):
        tags.append("band")
    if any(dc.psi_tuple(case.get("psi"))):
        tags.append("psi")
    if case.get("penalty"):
        tags.append("pen")
    if case.get("max_step"):
        tags.append("maxstep")
    if case.get("max_length_diff") is not None:
        tags.append("mld")
    if case.get("inner", "sq") != "sq":
        tags.append(case["inner"])
    if r != c:
        tags.append("uneq")
    return tags


def check_case(ctx, res, case, out, got, container):
    tags = nontrivial(case)
    for t in tags:
        res.hit(t)
    if tags:
        res.nontrivial.add(dc.case_key(case))
    exp_model = impl.canon(expected(case, out["model"]))
    exp_spec = impl.canon(expected(case, out["specFull"]))
    if out["model"] == "inf":
        res.hit("result_inf")
    res.sample({"case": case, "container": container, "impl": got, "model": exp_model, "spec": exp_spec})
    if got != exp_spec:
        v = {"clause": "distance == transformed optimum over admissible paths (inf iff none / length diff)",
             "case": case, "container": container, "impl": got, "expected_spec": exp_spec, "model": exp_model,
             "call": "dtaidistance.dtw.distance(s1, s2, **%r)" % dc.py_kwargs(case)}
        res.violations.append(v)
    elif got != exp_model:
        res.mismatches.append({"case": case, "container": container, "impl": got, "model": exp_model})


def replay(ctx, rep):
    v = rep.get("violation") or {}
    case = v.get("case")
    if case is None:
        print("replay file holds no concrete input:", rep.get("no_longer_checks"))
        return 0
    out = ctx.driver.run([lean_op(case)])[0]
    got = impl.py_distance(case, "numpy")
    print("case:", case)
    print("implementation:", got)
    print("model:", expected(case, out["model"]), " spec:", expected(case, out["specFull"]))
    return 0 if got == impl.canon(expected(case, out["specFull"])) else 1
