"""C17 — Needleman-Wunsch returns the optimal score and a consistent alignment."""
import itertools
import math

import numpy as np

from ..core import Result

SC = 2          # model scores are 2 * internal cost (gap costs may be halves)
ALPHA = "ABC"


def internal_cost(cfg, a, b):
    """cost minimised by dp for the pair (a, b) under scoring configuration cfg (mirrors the documented semantics of
    make_substitution_fn / the default function, not its code)"""
    if cfg["kind"] != "default":
        m = cfg["matrix"]
        mod = -1.0 if cfg["opt"] == "max" else 1.0
        if (a, b) in m:
            return m[(a, b)] * mod
        if (b, a) in m:
            return m[(b, a)] * mod
    return -1.0 if a == b else 1.0


def gen_cfg(rng):
    kind = rng.choice(["default", "gaponly", "dict", "dict", "dict"])
    if kind == "default":
        return {"kind": "default", "gap": 1.0}
    gap = rng.choice([0.0, 0.5, 1.0, 1.0, 2.0, 3.0])
    if kind == "gaponly":
        return {"kind": "gaponly", "gap": gap, "matrix": {}, "opt": "max"}
    m = {}
    for a in ALPHA:
        for b in ALPHA:
            if rng.random() < 0.5:
                m[(a, b)] = float(rng.randint(-3, 5))
    return {"kind": "dict", "gap": gap, "matrix": m, "opt": rng.choice(["max", "min"])}


def run(ctx):
    from dtaidistance import alignment as al
    res = Result()
    res.rule = ("all pairs of sequences over {A,B,C} with lengths 0..3 (0..4 thorough) plus random pairs up to length 8 "
                "(12), as str and as list; scoring: default, gap-only with custom gap cost, random dictionaries "
                "(partial, one-sided keys) in max and min orientation, gap costs 0/0.5/1/2/3; traceback order None and all "
                "6 permutations; value and score matrix compared exactly with the Lean model, every reconstructed "
                "alignment checked (equal lengths, no gap-gap column, reduces to the inputs, scores the returned value) "
                "and compared with the model traceback; every third case is also called with the sequences swapped and "
                "the dictionary transposed (same optimum by C17_transpose); non-trivial = both sequences non-empty and different")
    rng = ctx.rng
    maxl = 4 if ctx.thorough else 3
    seqs = [""] + ["".join(p) for n in range(1, maxl + 1) for p in itertools.product(ALPHA, repeat=n)]
    pairs = [(a, b) for a in seqs for b in seqs]
    if not ctx.thorough:
        pairs = [p for i, p in enumerate(pairs) if len(p[0]) + len(p[1]) <= 4 or (i * 7 + ctx.seed) % 5 == 0]
    for _ in range(20000 if ctx.thorough else 500):
        pairs.append(("".join(rng.choice(ALPHA) for _ in range(rng.randint(0, 12 if ctx.thorough else 8))),
                      "".join(rng.choice(ALPHA) for _ in range(rng.randint(0, 12 if ctx.thorough else 8)))))
    cfgs = [{"kind": "default", "gap": 1.0}] + [gen_cfg(rng) for _ in range(14 if ctx.thorough else 7)]
    # boundary gap costs in every run: free gaps and a gap cost above every substitution score
    cfgs.append({"kind": "gaponly", "gap": 0.0, "matrix": {}, "opt": "max"})
    zero = gen_cfg(rng)
    while zero["kind"] != "dict":
        zero = gen_cfg(rng)
    cfgs.append(dict(zero, gap=0.0))
    cfgs.append(dict(zero, gap=7.0))
    orders = [None] + [list(p) for p in itertools.permutations([0, 1, 2])]
    ops, meta = [], []
    for pi, (s1, s2) in enumerate(pairs):
        cfg = cfgs[0] if pi % 3 == 0 else rng.choice(cfgs)
        order = orders[pi % len(orders)]
        tab = [int(round(SC * internal_cost(cfg, a, b))) for a in ALPHA for b in ALPHA]
        ops.append({"op": "nw", "s1": [ALPHA.index(ch) for ch in s1], "s2": [ALPHA.index(ch) for ch in s2], "k": 3,
                    "sub": tab, "gap": int(round(SC * cfg["gap"])), "order": order if order is not None else [0, 1, 2]})
        meta.append((s1, s2, cfg, order))
    outs = ctx.driver.run(ops)
    for (s1, s2, cfg, order), mo in zip(meta, outs):
        res.evaluations += 1
        if s1 and s2 and s1 != s2:
            res.nontrivial.add(repr((s1, s2, cfg["kind"], cfg["gap"], sorted(cfg.get("matrix", {}).items()), cfg.get("opt"), order)))
        res.hit("cfg_" + cfg["kind"] + ("" if cfg["kind"] == "default" else "_" + cfg.get("opt", "")))
        res.hit("gap_%s" % cfg["gap"])
        if not s1 or not s2:
            res.hit("empty_sequence")
        info = {"s1": s1, "s2": s2, "kind": cfg["kind"], "gap": cfg["gap"], "opt": cfg.get("opt"),
                "matrix": {a + b: v for (a, b), v in cfg.get("matrix", {}).items()}, "order": order}
        a1 = s1 if res.evaluations % 2 else list(s1)
        a2 = s2 if res.evaluations % 2 else list(s2)
        kw = {}
        if cfg["kind"] != "default":
            kw["substitution"] = al.make_substitution_fn(dict(cfg["matrix"]), gap=cfg["gap"], opt=cfg["opt"])
        try:
            value, scores, paths = al.needleman_wunsch(a1, a2, **kw)
            okw = {} if order is None else {"order": order}
            GAP = ("-", "-", "-", "--", "<gap>", ("gap",), None, 0)[res.evaluations % 8]     # any object may mark a gap
            path, g1, g2 = al.best_alignment(paths, a1, a2, gap=GAP, **okw)
            isgap = (lambda x: x is None) if GAP is None else (lambda x: type(x) is type(GAP) and x == GAP)
            info["gap_marker"] = repr(GAP)
            res.hit("gap_marker_%s" % type(GAP).__name__)
        except BaseException as ex:
            if isinstance(ex, (KeyboardInterrupt, SystemExit)):
                raise
            res.violations.append(dict(info, clause="needleman_wunsch / best_alignment raised",
                                       got=type(ex).__name__ + ":" + str(ex)[:100]))
            continue
        want = -mo["value"] / SC
        if float(value) != want:
            res.violations.append(dict(info, clause="the returned value is the maximum total score over all global "
                                                    "alignments", got=float(value), optimum=want))
            continue
        # C17_transpose: the optimum for (s2, s1) under the transposed scoring is the optimum for (s1, s2), so the
        # implementation must return the same value there (the transposed dictionary {(b, a): v} denotes the
        # transposed function under make_substitution_fn's (a, b)-then-(b, a) lookup)
        if res.evaluations % 3 == 0:
            tkw = {}
            if cfg["kind"] != "default":
                tkw["substitution"] = al.make_substitution_fn({(b, a): v for (a, b), v in cfg["matrix"].items()},
                                                              gap=cfg["gap"], opt=cfg["opt"])
            try:
                tvalue = float(al.needleman_wunsch(a2, a1, **tkw)[0])
            except Exception as ex:
                tvalue = type(ex).__name__ + ":" + str(ex)[:100]
            res.hit("transposed_call")
            if tvalue != want:
                res.violations.append(dict(info, clause="the returned value is the maximum total score over all global "
                                                        "alignments (call with the sequences swapped and the "
                                                        "substitution dictionary transposed; optimum by C17_transpose)",
                                           got=tvalue, optimum=want))
                continue
        mm = np.array(mo["matrix"], dtype=float) / -SC
        if scores.shape != mm.shape or not np.array_equal(np.array(scores, dtype=float) + 0.0, mm + 0.0):
            res.mismatches.append(dict(info, what="score matrix differs from the Lean model",
                                       impl=np.array(scores).tolist(), model=mm.tolist()))
        # the reconstructed alignment
        if len(g1) != len(g2):
            res.violations.append(dict(info, clause="the two gapped sequences have equal length", g1=g1, g2=g2))
            continue
        if any(isgap(x) and isgap(y) for x, y in zip(g1, g2)):
            res.violations.append(dict(info, clause="a gap is never aligned with a gap", g1=g1, g2=g2))
        if [x for x in g1 if not isgap(x)] != list(s1) or [y for y in g2 if not isgap(y)] != list(s2):
            res.violations.append(dict(info, clause="removing the gaps gives back the inputs", g1=g1, g2=g2))
            continue
        score = 0.0
        for x, y in zip(g1, g2):
            score -= cfg["gap"] if (isgap(x) or isgap(y)) else internal_cost(cfg, x, y)
        if score != float(value):
            res.violations.append(dict(info, clause="the reconstructed alignment scores exactly the returned value",
                                       g1=g1, g2=g2, alignment_score=score, value=float(value)))
            continue
        if mo["alignment"] is None:
            res.mismatches.append(dict(info, what="model traceback failed"))
        else:
            m1 = ["-" if c[0] is None else ALPHA[c[0]] for c in mo["alignment"]]
            m2 = ["-" if c[1] is None else ALPHA[c[1]] for c in mo["alignment"]]
            if m1 != ["-" if isgap(x) else x for x in g1] or m2 != ["-" if isgap(y) else y for y in g2]:
                res.mismatches.append(dict(info, what="alignment differs from the Lean traceback", impl=[g1, g2],
                                           model=[m1, m2]))
        res.sample(dict(info, value=float(value), alignment=[repr(list(g1)), repr(list(g2))]), limit=4)
    return res


def replay(ctx, rep):
    print(rep.get("violation"))
    return 1 if rep.get("violation") else 0
