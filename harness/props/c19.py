"""C19 — distance-to-similarity and squashing are monotone, bounded, faithful."""
import math
import struct

import numpy as np

from ..core import Result

ATOL = 2e-15


def bits(x):
    return struct.unpack("<Q", struct.pack("<d", float(x)))[0]


def unbits(n):
    return struct.unpack("<d", struct.pack("<Q", int(n)))[0]


def close(a, b):
    if math.isnan(a) or math.isnan(b):
        return math.isnan(a) and math.isnan(b)
    if a == b:
        return True
    return abs(a - b) <= ATOL * max(1.0, abs(a), abs(b))


def gen_array(rng):
    kind = rng.choice(["ints", "floats", "zeros", "one", "dups", "matrix"])
    if kind == "zeros":
        a = np.zeros(rng.randint(1, 6))
    elif kind == "one":
        a = np.array([rng.choice([0.0, 1.0, 2.5, 7.0])])
    elif kind == "ints":
        a = np.array([float(rng.randint(0, 9)) for _ in range(rng.randint(2, 12))])
    elif kind == "dups":
        v = [float(rng.randint(0, 4)) for _ in range(3)]
        a = np.array([rng.choice(v) for _ in range(rng.randint(2, 10))])
    elif kind == "matrix":
        n = rng.randint(2, 5)
        m = np.array([[0.0 if i == j else rng.random() * 10 for j in range(n)] for i in range(n)])
        a = (m + m.T) / 2
    else:
        a = np.array([rng.random() * rng.choice([1, 10, 100]) for _ in range(rng.randint(2, 12))])
    if kind != "matrix" and rng.random() < 0.2 and a.size >= 4 and a.size % 2 == 0:
        a = a.reshape((2, -1))
    return kind, a


def run(ctx):
    from dtaidistance.similarity import distance_to_similarity, squash
    res = Result()
    res.rule = ("random non-negative arrays (integers with ties, floats, all zeros, one element, duplicates, symmetric "
                "distance matrices, 1-D/2-D shapes) x method x explicit / derived r, a, x0, base x cover_quantile (float, "
                "tuple, list) x keep_sign (with signed inputs): laws evaluated on the implementation (monotone, zero -> "
                "maximum, range, explicit formula, re-application with the reported parameters) and every output "
                "compared with the Lean definitions run on IEEE doubles; non-trivial = at least two distinct values")
    rng = ctx.rng
    n = 12000 if ctx.thorough else 400
    ops, meta = [], []
    for it in range(n):
        kind, D = gen_array(rng)
        which = rng.choice(["d2s", "d2s", "squash"])
        res.evaluations += 1
        if len(set(D.flatten().tolist())) >= 2:
            res.nontrivial.add(repr((which, D.tolist(), it)))
        cq_form = rng.choice(["none", "none", "float", "tuple", "list"])
        q = rng.choice([0.25, 0.5, 0.75, 0.9])
        t = rng.choice([0.1, 0.25, 0.5, 0.8])
        cover = {"none": False, "float": q, "tuple": (q, t), "list": [q, t]}[cq_form]
        flat = D.flatten()
        if which == "d2s":
            method = rng.choice(["exponential", "gaussian", "reciprocal", "reverse"])
            kw = {"method": method}
            explicit = rng.random() < 0.4
            if explicit:
                kw["r"] = rng.choice([0.5, 1.0, 3.0, 10.0])
                if method == "reciprocal" and rng.random() < 0.5:
                    kw["a"] = rng.choice([0.5, 1.0, 2.0])
            if cover is not False and method != "reverse":
                kw["cover_quantile"] = cover
                if method == "reciprocal" and "r" in kw:
                    tt_ = (1 - cover) if cq_form == "float" else cover[1]
                    if tt_ * kw["r"] >= 1:
                        del kw["r"]       # target above the value at zero (1/r): not reachable by a decreasing map
            info = {"fn": "distance_to_similarity", "D": D.tolist(), "kw": {k: (list(v) if isinstance(v, tuple) else v) for k, v in kw.items()}}
            res.hit("d2s_" + method); res.hit("array_" + kind); res.hit("cover_" + (cq_form if "cover_quantile" in kw else "none"))
            try:
                S, r = distance_to_similarity(D.copy(), return_params=True, **kw)
                S = np.asarray(S, dtype=float)
            except BaseException as ex:
                if isinstance(ex, (KeyboardInterrupt, SystemExit)):
                    raise
                res.violations.append(dict(info, clause="distance_to_similarity raised", got=type(ex).__name__ + ":" + str(ex)[:100]))
                continue
            sf = S.flatten()
            if S.shape != D.shape or np.isnan(sf).any():
                res.violations.append(dict(info, clause="output has the input's shape and no NaN", out=sf.tolist()))
                continue
            order = np.argsort(flat, kind="stable")
            ds, ss = flat[order], sf[order]
            if any(ss[i + 1] > ss[i] + ATOL for i in range(len(ss) - 1)) or \
                    any(ds[i] == ds[i + 1] and ss[i] != ss[i + 1] for i in range(len(ss) - 1)):
                res.violations.append(dict(info, clause="non-increasing in the distance", out=sf.tolist()))
            zero_val = None
            if (flat == 0).any():
                zero_val = float(sf[flat == 0][0])
                if zero_val + ATOL < float(sf.max()):
                    res.violations.append(dict(info, clause="a zero distance maps to the maximal similarity", out=sf.tolist()))
            default_scale = "r" not in kw and "a" not in kw and "cover_quantile" not in kw
            if default_scale and (sf.min() < -ATOL or sf.max() > 1 + ATOL):
                res.violations.append(dict(info, clause="within [0, 1] under the default scale", out=sf.tolist()))
            if default_scale and zero_val is not None and abs(zero_val - 1.0) > ATOL:
                res.violations.append(dict(info, clause="zero distance -> similarity 1 under the default scale", got=zero_val))
            # explicit parameters: exactly the documented formula, and the reported parameter is the given one
            if "r" in kw and "cover_quantile" not in kw:
                rr, aa = kw["r"], kw.get("a", 1.0)
                doc = {"exponential": lambda d: math.exp(-d / rr), "gaussian": lambda d: math.exp(-d * d / (rr * rr)),
                       "reciprocal": lambda d: 1.0 / (rr + d * aa), "reverse": lambda d: (rr - d) / rr}[method]
                if float(r) != float(rr) or any(not close(float(a_), doc(float(d_))) for a_, d_ in zip(sf, flat)):
                    res.violations.append(dict(info, clause="with explicit parameters the documented formula is "
                                                            "computed (and the given r is reported)", out=sf.tolist(),
                                               reported_r=float(r)))
                res.hit("explicit_formula_d2s")
            # an explicit r is used and reported as given also when a cover_quantile is passed along (for the methods with
            # one parameter the quantile then has nothing left to determine; reciprocal derives its second parameter a)
            if "r" in kw and "cover_quantile" in kw and method in ("exponential", "gaussian", "reverse"):
                rr = kw["r"]
                doc = {"exponential": lambda d: math.exp(-d / rr), "gaussian": lambda d: math.exp(-d * d / (rr * rr)),
                       "reverse": lambda d: (rr - d) / rr}[method]
                res.hit("explicit_r_with_cover_quantile")
                if float(r) != float(rr) or any(not close(float(a_), doc(float(d_))) for a_, d_ in zip(sf, flat)):
                    res.violations.append(dict(info, clause="with an explicit r the documented formula is computed with that r "
                                                            "(and it is reported), also when cover_quantile is given",
                                               out=sf.tolist(), reported_r=float(r)))
            # re-application with the reported parameter(s)
            kw2 = {k: v for k, v in kw.items() if k != "cover_quantile"}
            kw2["r"] = r
            S2 = np.asarray(distance_to_similarity(D.copy(), **kw2), dtype=float)
            if not np.array_equal(S2, S):
                if method == "reciprocal" and "cover_quantile" in kw and "a" not in kw and \
                        ctx.known(res, "C19-RECIPROCAL-A-NOT-REPORTED", info):
                    pass
                else:
                    res.violations.append(dict(info, clause="re-applying with the reported parameters reproduces the "
                                                            "output", first=S.tolist(), second=S2.tolist(), r=float(r)))
            op = {"op": "similarity", "kind": "d2s", "method": method, "D": [bits(x) for x in flat]}
            if "r" in kw:
                op["r"] = bits(kw["r"])
            if "a" in kw:
                op["a"] = bits(kw["a"])
            if "cover_quantile" in kw:
                qq, tt = (cover, 1 - cover) if cq_form == "float" else cover
                op["Q"] = bits(np.quantile(D, qq)); op["target"] = bits(tt)
            ops.append(op); meta.append((info, sf, float(r), None))
        else:
            method = rng.choice(["logistic", "logistic", "gaussian", "exponential"])
            keep = rng.random() < 0.4
            X = D.copy()
            if keep:
                X = X * np.array([rng.choice([1.0, 1.0, -1.0]) for _ in range(X.size)]).reshape(X.shape)
            kw = {"method": method, "keep_sign": keep}
            if rng.random() < 0.35:
                kw["r"] = rng.choice([0.5, 1.0, 3.0])
            if method == "logistic" and rng.random() < 0.4:
                kw["x0"] = rng.choice([0.0, 1.0, 4.0])
            ignored_x0 = None
            if method != "logistic" and rng.random() < 0.3:
                ignored_x0 = rng.choice([0.5, 1.0, 4.0])      # "not supported" for these methods: has no effect
            if rng.random() < 0.3:
                kw["base"] = rng.choice([2.0, 10.0])
            if cover is not False:
                if method == "logistic" and cq_form != "float" and cover[1] == 0.5:
                    cover = type(cover)([cover[0], 0.6])      # 0.5 is reached at x0 for every slope: no slope to derive
                if method == "logistic" and cq_form == "float" and cover == 0.5:
                    cover = 0.75
                kw["cover_quantile"] = cover
            info = {"fn": "squash", "X": X.tolist(), "kw": {k: (list(v) if isinstance(v, tuple) else v) for k, v in kw.items()}}
            res.hit("squash_" + method); res.hit("keep_sign" if keep else "no_keep_sign"); res.hit("base" if "base" in kw else "base_e")
            try:
                R, r, x0 = squash(X.copy(), return_params=True, **kw)
                R = np.asarray(R, dtype=float)
                if ignored_x0 is not None:
                    R2, r2, x02 = squash(X.copy(), return_params=True, x0=ignored_x0, **kw)
                    res.hit("squash_x0_given_to_method_without_midpoint")
                    if not np.array_equal(np.asarray(R2, dtype=float), R, equal_nan=True) or float(x02) != 0.0 or \
                            not (float(r2) == float(r) or (np.isnan(r2) and np.isnan(r))):
                        res.violations.append(dict(info, clause="gaussian / exponential squashing have no midpoint: an x0 "
                                                                "that is passed has no effect (the formula uses and reports 0)",
                                                   x0=ignored_x0, out=np.asarray(R2, dtype=float).tolist(),
                                                   without_x0=R.tolist(), reported=[float(r2), float(x02)]))
            except BaseException as ex:
                if isinstance(ex, (KeyboardInterrupt, SystemExit)):
                    raise
                res.violations.append(dict(info, clause="squash raised", got=type(ex).__name__ + ":" + str(ex)[:100]))
                continue
            rf, xf = R.flatten(), X.flatten()
            if R.shape != X.shape:
                res.violations.append(dict(info, clause="output has the input's shape"))
                continue
            r_ok = (not np.isnan(r)) and r > 0
            if r_ok:
                if np.isnan(rf).any():
                    res.violations.append(dict(info, clause="no NaN for a positive scale", out=rf.tolist(), r=float(r)))
                    continue
                order = np.argsort(xf, kind="stable")
                xs, rs = xf[order], rf[order]
                if any(rs[i + 1] < rs[i] - ATOL for i in range(len(rs) - 1)):
                    res.violations.append(dict(info, clause="squashing is non-decreasing", out=rf.tolist(), r=float(r)))
                nonneg = xf >= 0
                inside = (method == "logistic") or True
                if inside and ((rf[nonneg] < -ATOL).any() or (rf[nonneg] > 1 + ATOL).any()):
                    res.violations.append(dict(info, clause="squashing maps (non-negative inputs) into [0, 1]", out=rf.tolist()))
                if keep and (rf[xf < 0] > ATOL).any():
                    res.violations.append(dict(info, clause="keep_sign: negative inputs stay non-positive", out=rf.tolist()))
            else:
                res.hit("squash_nonpositive_scale")
            # explicit parameters: the documented formula, and the given parameters are the reported ones
            if "r" in kw and (method != "logistic" or "x0" in kw):
                rr = kw["r"]
                xx0 = kw["x0"] if method == "logistic" else 0.0
                bb = kw.get("base")
                ex = (lambda t: math.exp(t)) if bb is None else (lambda t: math.pow(bb, t))
                f = {"logistic": lambda x: 1.0 / (1.0 + ex(-(x - xx0) / rr)),
                     "gaussian": lambda x: 1.0 - ex(-(x - xx0) ** 2 / (rr * rr)),
                     "exponential": lambda x: 1.0 - ex(-(x - xx0) / rr)}[method]

                def doc(x):
                    if not keep:
                        return f(x)
                    return (1.0 if x > 0 else (-1.0 if x < 0 else 0.0)) * (f(abs(x)) - f(0.0))
                if float(r) != float(rr) or float(x0) != float(xx0) or \
                        any(not close(float(a_), doc(float(x_))) for a_, x_ in zip(rf, xf)):
                    res.violations.append(dict(info, clause="with explicit parameters the documented formula is "
                                                            "computed (and the given parameters are reported)",
                                               out=rf.tolist(), reported=[float(r), float(x0)]))
                res.hit("explicit_formula_squash")
            kw2 = {k: v for k, v in kw.items() if k != "cover_quantile"}
            kw2["r"] = r; kw2["x0"] = x0
            R2 = np.asarray(squash(X.copy(), **kw2), dtype=float)
            if not np.array_equal(R2, R, equal_nan=True):
                res.violations.append(dict(info, clause="re-applying with the reported parameters reproduces the output",
                                           first=R.tolist(), second=R2.tolist(), r=float(r), x0=float(x0)))
            Xa = np.abs(X) if keep else X
            op = {"op": "similarity", "kind": "squash", "method": method, "D": [bits(x) for x in xf], "keepSign": keep,
                  "mean": bits(np.mean(Xa))}
            for k_ in ("r", "x0", "base"):
                if k_ in kw:
                    op[k_] = bits(kw[k_])
            if "cover_quantile" in kw:
                qq, tt = (cover, cover) if cq_form == "float" else cover
                op["Q"] = bits(np.quantile(Xa, qq)); op["target"] = bits(tt)
            ops.append(op); meta.append((info, rf, float(r), float(x0)))
    for (info, out, r, x0), mo in zip(meta, ctx.driver.run(ops)):
        if "error" in mo:
            res.mismatches.append(dict(info, what="driver error", err=mo["error"]))
            continue
        mout = [unbits(b) for b in mo["out"]]
        mr = unbits(mo["r"])
        bad = [(i, a, b) for i, (a, b) in enumerate(zip(out.tolist(), mout)) if not close(a, b)]
        if len(mout) != len(out) or bad or not close(r, mr) or (x0 is not None and not close(x0, unbits(mo["x0"]))):
            res.mismatches.append(dict(info, what="output / reported parameters differ from the Lean definitions on "
                                                  "doubles", bad=bad[:4], r=[r, mr]))
        res.sample(dict(info, r=r), limit=4)
    return res


def replay(ctx, rep):
    print(rep.get("violation"))
    return 1 if rep.get("violation") else 0
