"""C05 — every reported best path is a valid warping path that achieves the distance."""
import ctypes as C
import math

import numpy as np

from .. import dtwcases as dc
from .. import impl, native
from ..core import Result
from . import c01, c04


def gen_cases(ctx):
    rng = ctx.rng
    cases = list(CORPUS)
    for c in dc.exhaustive_cases(4, rng=rng, limit_values=1):
        cases.append(c)
    n_rand = 6000 if ctx.thorough else 700
    maxlen = 24 if ctx.thorough else 9
    for k in range(n_rand):
        ndim = rng.choice([1, 1, 1, 2])
        c = dc.rand_case(rng, maxlen if k % 3 else 5, ndim=ndim, allow_mld=False, allow_maxstep=(k % 5 == 0))
        if k % 2 == 0 and not c.get("penalty"):
            c["penalty"] = rng.choice([1, 2, 3])
        if k % 4 == 0:
            r_, c_ = dc.npoints(c)
            c["window"] = rng.choice([1, 2, 2, 3])
        if ndim > 1:
            c["inner"] = "sq"
        cases.append(c)
    return [c for c in cases if dc.psi_in_range(c) and not dc.degenerate_psi(c)
            and not (c.get("window") is not None and c["window"] < 1)]


CORPUS = [
    {"s1": [0, 2, 1, 0], "s2": [0, 0, 2, 1], "penalty": 2, "inner": "sq"},
    {"s1": [0, 1, 2, 1, 0], "s2": [1, 0, 2, 1, 0, 1], "window": 3, "inner": "sq"},
    {"s1": [0, 1, 2, 1, 0, 2, 1, 0], "s2": [1, 0, 2, 1, 0, 1, 2, 2], "window": 2, "inner": "sq", "psi": 2},
]


def cost_fn(case):
    nd = case.get("ndim", 1)
    s1, s2 = case["s1"], case["s2"]
    if case.get("inner", "sq") == "abs":
        return lambda i, j: abs(s1[i] - s2[j])
    return lambda i, j: sum((s1[i * nd + d] - s2[j * nd + d]) ** 2 for d in range(nd))


def band(case, i, j):
    r, c = dc.npoints(case)
    w = case.get("window") or max(r, c)
    js = max(0, i - max(0, r - c) - w + 1)
    je = min(c, i + max(0, c - r) + w)
    return js <= j < je


def inner_val(case, x):
    return x * x if case.get("inner", "sq") == "sq" else x


def check_path(case, path, partial_end=None):
    """returns (ok, why, internal_cost) — independent re-implementation of the path definition"""
    r, c = dc.npoints(case)
    p1b, p1e, p2b, p2e = dc.psi_tuple(case.get("psi"))
    if not path:
        return False, "empty path", None
    cf = cost_fn(case)
    pen = inner_val(case, case.get("penalty") or 0)
    ms = case.get("max_step")
    ms = inner_val(case, ms) if ms else None
    total = 0
    prev = None
    for (i, j) in path:
        i, j = int(i), int(j)
        if not (0 <= i < r and 0 <= j < c):
            return False, "cell (%d,%d) outside the series" % (i, j), None
        if not band(case, i, j):
            return False, "cell (%d,%d) outside the window band" % (i, j), None
        d = cf(i, j)
        if ms is not None and d > ms:
            return False, "cell (%d,%d) exceeds max_step" % (i, j), None
        if prev is not None:
            di, dj = i - prev[0], j - prev[1]
            if (di, dj) not in ((1, 1), (1, 0), (0, 1)):
                return False, "step %s -> %s is not (1,1),(1,0),(0,1)" % (prev, (i, j)), None
            if (di, dj) != (1, 1):
                total += pen
        total += d
        prev = (i, j)
    i0, j0 = int(path[0][0]), int(path[0][1])
    if not ((i0 == 0 and j0 <= p2b) or (j0 == 0 and i0 <= p1b)):
        return False, "start cell %s is not in the psi-relaxed corner" % ((i0, j0),), None
    if partial_end is not None:
        if (prev[0], prev[1]) != tuple(partial_end):
            return False, "path ends in %s, not in the requested cell %s" % (prev, partial_end), None
    else:
        ie, je = prev
        if not ((ie == r - 1 and je >= c - 1 - p2e) or (je == c - 1 and ie >= r - 1 - p1e)):
            return False, "end cell %s is not in the psi-relaxed corner" % ((ie, je),), None
    return True, "", total


def run(ctx):
    from dtaidistance import dtw, dtw_ndim, dtw_cc
    res = Result()
    res.rule = ("corpus + exhaustive small + random cases x routes {warping_path, best_path on Python / C matrix, "
                "warping_path_fast, best_path_compact, best_path2, custom start, warp, ndim}; each returned path is "
                "re-validated by an independent definition and its cost compared with the reported distance and the "
                "Lean spec; non-trivial = band/psi/penalty/max_step active")
    lib = native.load("plain")
    cases = gen_cases(ctx)
    outs = ctx.driver.run([dc.lean_op(c, engine="py", want_mat=True) for c in cases])
    pending = []
    for case, out in zip(cases, outs):
        if "error" in out:
            raise RuntimeError(out["error"])
        tags = c01.nontrivial(case)
        for t in tags:
            res.hit(t)
        if tags:
            res.nontrivial.add(dc.case_key(case))
        spec = out["spec"]
        if spec == "inf":
            continue      # no admissible path: nothing to trace
        spec_int = spec // dc.SCALE
        nd = case.get("ndim", 1)
        kw = dc.py_kwargs(case)
        s1 = impl.to_container(case["s1"], "numpy", nd)
        s2 = impl.to_container(case["s2"], "numpy", nd)
        pen_int = inner_val(case, case.get("penalty") or 0)
        routes = []

        def add(name, fn):
            try:
                routes.append((name, fn()))
            except BaseException as e:
                if isinstance(e, (KeyboardInterrupt, SystemExit)):
                    raise
                routes.append((name, ("exc", impl.exc_name(e))))

        if nd == 1:
            add("dtw.warping_path", lambda: dtw.warping_path(s1, s2, include_distance=True, **kw))
            add("dtw.warping_path_fast", lambda: dtw.warping_path_fast(s1, s2, include_distance=True, **kw))
            # the same series as non-contiguous views (every second sample of a buffer, a column of a 2-D array), as a
            # list and as array.array: the conversion in front of the C trace-back must not change what is traced
            if len(routes) % 3 == 2 or True:
                inter1 = np.full(2 * len(s1), 77.0); inter1[::2] = s1
                col2 = np.full((len(s2), 3), -55.0); col2[:, 1] = s2
                add("dtw.warping_path_fast(strided views)",
                    lambda: dtw.warping_path_fast(inter1[::2], col2[:, 1], include_distance=True, **kw))
                add("dtw.warping_path(use_c, strided views)",
                    lambda: dtw.warping_path(inter1[::2], col2[:, 1], include_distance=True, use_c=True, **kw))
            add("best_path(python matrix, int repr, penalty)", lambda: (
                dtw.best_path(dtw.warping_paths(s1, s2, keep_int_repr=True, **kw)[1], penalty=pen_int), None))
            add("best_path(C matrix, int repr, penalty)", lambda: (
                dtw.best_path(dtw.warping_paths_fast(s1, s2, keep_int_repr=True, **kw)[1], penalty=pen_int), None))

            def compact():
                d, wps = dtw.warping_paths_fast(s1, s2, compact=True, keep_int_repr=True, **kw)
                ck = dtw.DTWSettings(**kw).c_kwargs()
                return dtw_cc.best_path_compact(wps, len(s1), len(s2), **ck), None
            add("dtw_cc.best_path_compact", compact)
            if not case.get("penalty"):
                add("best_path2(python matrix)", lambda: (dtw.best_path2(dtw.warping_paths(s1, s2, **kw)[1]), None))
                if not any(dc.psi_tuple(case.get("psi"))):
                    # with psi-relaxation some samples stay unmatched and warp() has no mean to divide;
                    # that concerns the warped series, not the path this property is about
                    add("dtw.warp", lambda: (dtw.warp(s1, s2, **kw)[1], None))
        else:
            add("dtw_ndim.warping_path", lambda: (dtw_ndim.warping_path(s1, s2, **kw), None))
            add("dtw_cc.warping_path_ndim", lambda: dtw_cc.warping_path_ndim(
                s1, s2, nd, include_distance=True, **dtw.DTWSettings(**kw).c_kwargs()))

            def compact_nd():
                # multivariate compact matrix through the Python wrapper (its defaults), traced by the C routine
                d, wps = dtw_ndim.warping_paths_fast(s1, s2, compact=True, keep_int_repr=True, **kw)
                ck = dtw.DTWSettings(**kw).c_kwargs()
                return dtw_cc.best_path_compact(wps, len(s1), len(s2), **ck), None
            add("dtw_cc.best_path_compact(ndim matrix)", compact_nd)
            add("best_path(C ndim matrix, int repr, penalty)", lambda: (
                dtw.best_path(dtw_ndim.warping_paths_fast(s1, s2, keep_int_repr=True, **kw)[1], penalty=pen_int), None))
        good_paths = []
        for name, val in routes:
            res.evaluations += 1
            if val and val[0] == "exc":
                res.violations.append({"clause": "routine raised", "route": name, "case": case, "got": val[1]})
                continue
            path, dist = val
            path = [(int(a), int(b)) for a, b in path]
            ok, why, cost = check_path(case, path)
            if not ok and known_nopsi(ctx, res, case, out, name, path):
                continue
            if not ok:
                res.violations.append({"clause": "valid warping path", "route": name, "case": case, "why": why,
                                       "path": path})
                continue
            if cost != spec_int:
                res.violations.append({"clause": "cost along the path (penalties included) equals the DTW distance",
                                       "route": name, "case": case, "path_cost_internal": cost,
                                       "distance_internal": spec_int, "path": path})
                continue
            good_paths.append((name, path))
            if dist is not None:
                exp = impl.canon(dc.expected_from_internal(case, spec))
                if not c04.same(impl.canon(dist), exp):
                    res.violations.append({"clause": "distance reported with the path", "route": name, "case": case,
                                           "reported": impl.canon(dist), "expected": exp})
        # custom start cell (python best_path with row/col, C dtw_best_path_customstart)
        if nd == 1:
            custom_start(ctx, res, lib, case, out, s1, s2, kw, pen_int)
        res.sample({"case": case, "spec_internal": spec_int, "routes": [n for n, _ in routes]}, limit=3)
        pending.append((case, good_paths))
    # correspondence with the Lean model: deterministic trace-back and the IsBack relation
    ops = [dict(dc.lean_op(c, engine="py"), op="path", paths=[p for _n, p in gp]) for c, gp in pending]
    exact = []   # python routes: same tie-breaking as the model, compared from the same end cell
    for (case, gp), o in zip(pending, ctx.driver.run(ops)):
        if "error" in o:
            raise RuntimeError(o["error"])
        for (name, path), acc in zip(gp, o["accept"]):
            if not acc:
                res.mismatches.append({"what": "model relation IsBack rejects a path the independent check accepted",
                                       "route": name, "case": case, "path": path})
            elif name in ("dtw.warping_path", "dtw_ndim.warping_path",
                          "best_path(python matrix, int repr, penalty)"):
                exact.append((case, name, path))
    ops = [dict(dc.lean_op(c, engine="py"), op="path", start=[p[-1][0] + 1, p[-1][1] + 1]) for c, _n, p in exact]
    for (case, name, path), o in zip(exact, ctx.driver.run(ops)):
        model_path = [tuple(x) for x in o["path"]]
        if [tuple(x) for x in path] != model_path:
            res.mismatches.append({"what": "python trace-back differs from the model's deterministic trace-back "
                                           "started in the same end cell",
                                   "route": name, "case": case, "path": path, "model_path": model_path})
    res.coverage["paths_compared_exactly"] = len(exact)
    res.coverage["paths_checked_against_model"] = sum(len(gp) for _c, gp in pending)
    return res


def known_nopsi(ctx, res, case, out, route, path):
    """signature of known finding C05-BESTPATH-NOPSI (see known_findings.json)"""
    if not (route.startswith("best_path(") or route.startswith("best_path2(")):
        return False
    r, c = dc.npoints(case)
    p1b, p1e, p2b, p2e = dc.psi_tuple(case.get("psi"))
    if (p1e == 0) == (p2e == 0):
        return False
    if [list(x) for x in out["neg"]] != [[r, c]]:
        return False
    wrong_end = (r - 1, c - 2) if p2e == 0 else (r - 2, c - 1)
    if not path or tuple(path[-1]) != wrong_end:
        return False
    ok, _why, cost = check_path(case, path, partial_end=wrong_end)
    want = out["matU"][wrong_end[0] + 1][wrong_end[1] + 1]
    if not ok or want == "inf" or cost != want // dc.SCALE:
        return False
    return ctx.known(res, "C05-BESTPATH-NOPSI", case)


def custom_start(ctx, res, lib, case, out, s1, s2, kw, pen_int):
    from dtaidistance import dtw
    r, c = dc.npoints(case)
    matU = out["matU"]
    cells = [(I, J) for I in range(1, r + 1) for J in range(1, c + 1) if matU[I][J] != "inf"]
    if not cells:
        return
    kw2 = dict(kw)
    # C custom start: every finite cell of small matrices, a sample of larger ones
    s = native.settings_from_case(case)
    length = lib.dtw_settings_wps_length(r, c, C.byref(s))
    buf = (C.c_double * length)()
    fn = lib.dtw_warping_paths_euclidean if case.get("inner") == "abs" else lib.dtw_warping_paths
    fn(buf, native.darr(case["s1"]), r, native.darr(case["s2"]), c, True, True, False, C.byref(s))
    ccells = cells if len(cells) <= 64 else ctx.rng.sample(cells, 12)
    for (I, J) in ccells:
        want = matU[I][J] // dc.SCALE
        res.evaluations += 1
        i1 = (native.idx_t * (r + c + 8))(*([-99] * (r + c + 8)))
        i2 = (native.idx_t * (r + c + 8))(*([-99] * (r + c + 8)))
        n = lib.dtw_best_path_customstart(buf, i1, i2, r, c, I, J, C.byref(s))
        if any(i1[k] != -99 or i2[k] != -99 for k in range(r + c, r + c + 8)) or n > r + c:
            res.violations.append({"clause": "index arrays of length l1+l2 suffice", "route": "dtw_best_path_customstart",
                                   "case": case, "start_cell": [I, J], "n": int(n)})
            continue
        path = [(int(i1[k]), int(i2[k])) for k in range(n)][::-1]
        ok, why, cost = check_path(case, path, partial_end=(I - 1, J - 1))
        if not ok or cost != want:
            res.violations.append({"clause": "custom start: valid partial path achieving the cell value",
                                   "route": "dtw_best_path_customstart", "case": case, "start_cell": [I, J],
                                   "why": why, "path_cost": cost, "cell_value": want, "path": path})
    for (I, J) in ctx.rng.sample(cells, min(2, len(cells))):
        want = matU[I][J] // dc.SCALE
        for name, fast in (("best_path(row,col) python", False), ("best_path(row,col) C matrix", True)):
            res.evaluations += 1
            try:
                f = dtw.warping_paths_fast if fast else dtw.warping_paths
                _d, m = f(s1, s2, keep_int_repr=True, psi_neg=False, **kw2)
                path = [(int(a), int(b)) for a, b in dtw.best_path(m, row=I, col=J, penalty=pen_int)]
            except BaseException as e:
                if isinstance(e, (KeyboardInterrupt, SystemExit)):
                    raise
                res.violations.append({"clause": "routine raised", "route": name, "case": case, "got": impl.exc_name(e)})
                continue
            ok, why, cost = check_path(case, path, partial_end=(I - 1, J - 1))
            if not ok or cost != want:
                res.violations.append({"clause": "custom start: valid partial path achieving the cell value",
                                       "route": name, "case": case, "start_cell": [I, J], "why": why,
                                       "path_cost": cost, "cell_value": want, "path": path})
    # partial custom start (only row= or only col=): the omitted coordinate is the last column / last row, as the
    # docstring says, also on matrices that carry the -1 marks of an end relaxation. Start cells are taken above
    # (left of) the marked range so that no -1 cell lies between them and the border they walk along.
    p1b, p1e, p2b, p2e = dc.psi_tuple(case.get("psi"))
    partial = [("row", I, c) for I in range(1, r - p1e) if matU[I][c] != "inf"] + \
              [("col", r, J) for J in range(1, c - p2e) if matU[r][J] != "inf"]
    for (which, I, J) in ctx.rng.sample(partial, min(2, len(partial))):
        want = matU[I][J] // dc.SCALE
        for name, fast in (("best_path(%s only) python matrix" % which, False), ("best_path(%s only) C matrix" % which, True)):
            res.evaluations += 1
            try:
                f = dtw.warping_paths_fast if fast else dtw.warping_paths
                _d, m = f(s1, s2, keep_int_repr=True, psi_neg=True, **kw2)
                if m[I, J] == -1 or (which == "row" and (m[:I, J] == -1).any()) or (which == "col" and (m[I, :J] == -1).any()):
                    continue
                akw = {"row": I} if which == "row" else {"col": J}
                path = [(int(a), int(b)) for a, b in dtw.best_path(m, penalty=pen_int, **akw)]
            except BaseException as e:
                if isinstance(e, (KeyboardInterrupt, SystemExit)):
                    raise
                res.violations.append({"clause": "routine raised", "route": name, "case": case, "got": impl.exc_name(e)})
                continue
            res.hit("partial_custom_start" + ("_with_psi_marks" if (m == -1).any() else ""))
            ok, why, cost = check_path(case, path, partial_end=(I - 1, J - 1))
            if not ok or cost != want:
                res.violations.append({"clause": "custom start given by row only / column only: the omitted coordinate is "
                                                 "the last column / row; valid partial path achieving the cell value",
                                       "route": name, "case": case, "start_cell": [I, J], "why": why,
                                       "path_cost": cost, "cell_value": want, "path": path})


def replay(ctx, rep):
    v = rep.get("violation") or {}
    print(v)
    return 1 if v else 0
