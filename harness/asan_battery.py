"""Runs a battery of calls of the exported C routines against the ASan+UBSan build of /repo's C sources.
Meant to be executed in a sub-process with LD_PRELOAD=<libasan>; every buffer handed to the C code is
malloc'ed at EXACTLY the documented size (so the sanitizer's red zones sit right behind it).
Before each call the case is appended to a progress file; if the process dies the last line names the
failing input.  Usage: python -m harness.asan_battery <seed> <tier> <progress-file>"""
import ctypes as C
import json
import random
import sys

from . import native
from . import dtwcases as dc

libc = C.CDLL(None)
libc.malloc.restype = C.c_void_p
libc.malloc.argtypes = [C.c_size_t]
libc.free.argtypes = [C.c_void_p]
DP = C.POINTER(C.c_double)
IP = C.POINTER(native.idx_t)


class Buf:
    """exact-size malloc'ed array"""

    def __init__(self, n, ctype=C.c_double, init=None):
        self.n = n
        self.size = max(1, n) * C.sizeof(ctype)
        self.addr = libc.malloc(self.size if n > 0 else 1)
        self.ptr = C.cast(self.addr, C.POINTER(ctype))
        if init is not None:
            for i, v in enumerate(init):
                self.ptr[i] = v

    def free(self):
        libc.free(self.addr)


def main():
    seed, tier, progress = int(sys.argv[1]), sys.argv[2], sys.argv[3]
    rng = random.Random(seed * 7919 + 13)
    lib = native.load("asan")
    gomp = None
    try:
        gomp = C.CDLL("libgomp.so.1")
    except OSError:
        pass
    n_cases = 4000 if tier == "thorough" else 500
    maxlen = 14 if tier == "thorough" else 8
    pf = open(progress, "w")
    count = {"distance": 0, "wps": 0, "expand": 0, "path": 0, "bounds": 0, "matrix": 0, "dba": 0}

    def note(kind, case):
        pf.write(json.dumps({"kind": kind, "case": case}) + "\n")
        pf.flush()
        count[kind] += 1

    for k in range(n_cases):
        ndim = rng.choice([1, 1, 1, 2, 3])
        case = dc.rand_case(rng, maxlen if k % 3 else 4, ndim=ndim, allow_mld=True)
        r, c = dc.npoints(case)
        # windows 0 .. max+1
        case["window"] = rng.choice([0, 0, 1, 2, 3, max(r, c) - 1, max(r, c), max(r, c) + 1])
        if case["window"] < 0:
            case["window"] = 0
        if not dc.psi_in_range(case):
            case["psi"] = None
        k2 = rng.random()
        if k2 < 0.2:
            case["max_dist_I"] = 2 * rng.randint(0, 30) + 1
        elif k2 < 0.35:
            case["use_pruning"] = True
        s = native.settings_from_case(case)
        a = Buf(len(case["s1"]), init=case["s1"])
        b = Buf(len(case["s2"]), init=case["s2"])
        # ---- distance kernels
        note("distance", case)
        if ndim == 1:
            lib.dtw_distance(a.ptr, r, b.ptr, c, C.byref(s))
        else:
            lib.dtw_distance_ndim(a.ptr, r, b.ptr, c, ndim, C.byref(s))
        # ---- bounds
        note("bounds", case)
        if ndim == 1:
            lib.lb_keogh(a.ptr, r, b.ptr, c, C.byref(s))
            lib.ub_euclidean(a.ptr, r, b.ptr, c)
            lib.ub_euclidean_euclidean(a.ptr, r, b.ptr, c)
        else:
            lib.ub_euclidean_ndim(a.ptr, r, b.ptr, c, ndim)
            lib.ub_euclidean_ndim_euclidean(a.ptr, r, b.ptr, c, ndim)
        # ---- warping paths into a compact buffer of exactly the advertised size
        length = lib.dtw_settings_wps_length(r, c, C.byref(s))
        wps = Buf(length)
        note("wps", case)
        psi_neg = bool(k % 2)
        if ndim == 1:
            lib.dtw_warping_paths(wps.ptr, a.ptr, r, b.ptr, c, True, True, psi_neg, C.byref(s))
        else:
            lib.dtw_warping_paths_ndim(wps.ptr, a.ptr, r, b.ptr, c, True, True, psi_neg, ndim, C.byref(s))
        # ---- best path into index arrays of length l1 + l2
        i1 = Buf(r + c, native.idx_t)
        i2 = Buf(r + c, native.idx_t)
        note("path", case)
        lib.dtw_best_path(wps.ptr, i1.ptr, i2.ptr, r, c, C.byref(s))
        rs, cs = rng.randint(1, r), rng.randint(1, c)
        loc_ok = True
        p = lib.dtw_wps_parts(r, c, C.byref(s))
        cb_, ce_ = native.idx_t(0), native.idx_t(0)
        lib.dtw_wps_loc_columns(C.byref(p), rs, C.byref(cb_), C.byref(ce_), r, c)
        if cb_.value <= cs < min(ce_.value, c + 1) and cs >= 1:
            lib.dtw_best_path_customstart(wps.ptr, i1.ptr, i2.ptr, r, c, rs, cs, C.byref(s))
        # ---- expansion (full and slices) into exactly sized outputs
        full = Buf((r + 1) * (c + 1))
        note("expand", case)
        lib.dtw_expand_wps(wps.ptr, full.ptr, r, c, C.byref(s))
        for _ in range(2):
            rb = rng.randint(0, r); re_ = rng.randint(rb + 1, r + 1)
            cb = rng.randint(0, c); ce = rng.randint(cb + 1, c + 1)
            sl = Buf((re_ - rb) * (ce - cb))
            pf.write(json.dumps({"kind": "expand", "case": case, "slice": [rb, re_, cb, ce]}) + "\n"); pf.flush()
            lib.dtw_expand_wps_slice(wps.ptr, sl.ptr, r, c, rb, re_, cb, ce, C.byref(s))
            sl.free()
        # ---- direct path routine
        ln = Buf(1, native.idx_t)
        note("path", case)
        if ndim == 1:
            lib.dtw_warping_path(a.ptr, r, b.ptr, c, i1.ptr, i2.ptr, ln.ptr, C.byref(s))
        else:
            lib.dtw_warping_path_ndim(a.ptr, r, b.ptr, c, i1.ptr, i2.ptr, ln.ptr, ndim, C.byref(s))
        for x in (a, b, wps, i1, i2, full, ln):
            x.free()
        # ---- distance matrices and DBA on a small collection
        if k % 5 == 0:
            n = rng.randint(1, 5)
            equal = rng.random() < 0.5
            L = rng.randint(1, 6)
            lens = [L if equal else rng.randint(1, 6) for _ in range(n)]
            series = [[rng.randint(-3, 3) for _ in range(l * ndim)] for l in lens]
            bufs = [Buf(len(x), init=x) for x in series]
            ptrs = (DP * n)(*[bf.ptr for bf in bufs])
            lensa = (native.idx_t * n)(*lens)
            blocks = [(0, 0, 0, 0, True)]
            rb = rng.randint(0, n - 1); re_ = rng.randint(rb + 1, n)
            cb = rng.randint(0, n - 1); ce = rng.randint(cb + 1, n)
            blocks.append((rb, re_, cb, ce, rng.random() < 0.5))
            s2 = native.settings_from_case({"window": rng.choice([0, 1, 2]), "psi": None, "penalty": rng.choice([0, 1])})
            for blk in blocks:
                bk = native.DTWBlock(*blk)
                ln_ = lib.dtw_distances_length(C.byref(bk), n, n)
                out = Buf(ln_)
                mcase = {"n": n, "lens": lens, "ndim": ndim, "block": blk, "series": series}
                note("matrix", mcase)
                for t in (1, 3):
                    if gomp is not None:
                        gomp.omp_set_num_threads(t)
                    bk = native.DTWBlock(*blk)
                    if ndim == 1:
                        lib.dtw_distances_ptrs(ptrs, n, lensa, out.ptr, C.byref(bk), C.byref(s2))
                        bk = native.DTWBlock(*blk)
                        lib.dtw_distances_ptrs_parallel(ptrs, n, lensa, out.ptr, C.byref(bk), C.byref(s2))
                    else:
                        lib.dtw_distances_ndim_ptrs(ptrs, n, lensa, ndim, out.ptr, C.byref(bk), C.byref(s2))
                        bk = native.DTWBlock(*blk)
                        lib.dtw_distances_ndim_ptrs_parallel(ptrs, n, lensa, ndim, out.ptr, C.byref(bk), C.byref(s2))
                out.free()
            # DBA
            t_len = rng.randint(1, 6)
            avg = Buf(t_len * ndim, init=[rng.randint(-2, 2) for _ in range(t_len * ndim)])
            nbytes = (n + 7) // 8
            mask = Buf(nbytes, C.c_ubyte, init=[rng.randint(1, 255) for _ in range(nbytes)])
            s3 = native.settings_from_case({"window": rng.choice([0, 1, 2, 3]), "psi": None,
                                            "penalty": rng.choice([0, 1])})
            note("dba", {"n": n, "lens": lens, "ndim": ndim, "t": t_len, "window": int(s3.window), "series": series})
            lib.dtw_dba_ptrs(ptrs, n, lensa, avg.ptr, t_len, mask.ptr, 0, ndim, C.byref(s3))
            if equal:
                flat = Buf(n * L * ndim, init=[v for x in series for v in x])
                lib.dtw_dba_matrix(flat.ptr, n, L, avg.ptr, t_len, mask.ptr, 0, ndim, C.byref(s3))
                flat.free()
            for bf in bufs + [avg, mask]:
                bf.free()
    # ---- dedicated barycenter battery: collections with several distinct lengths and a window
    for k in range(600 if tier == "thorough" else 120):
        ndim = rng.choice([1, 1, 2])
        n = rng.randint(2, 5)
        lens = [rng.choice([1, 2, 3, 4, 6, 8, 10, 12]) for _ in range(n)]
        t_len = rng.choice([3, 5, 7, 8, 10])
        series = [[rng.randint(-3, 3) for _ in range(l * ndim)] for l in lens]
        bufs = [Buf(len(x), init=x) for x in series]
        ptrs = (DP * n)(*[bf.ptr for bf in bufs])
        lensa = (native.idx_t * n)(*lens)
        avg = Buf(t_len * ndim, init=[rng.randint(-2, 2) for _ in range(t_len * ndim)])
        mask = Buf(1, C.c_ubyte, init=[255])
        s3 = native.settings_from_case({"window": rng.choice([1, 1, 2, 3]), "psi": None, "penalty": rng.choice([0, 1]),
                                        "inner": rng.choice(["sq", "abs"])})
        note("dba", {"n": n, "lens": lens, "ndim": ndim, "t": t_len, "window": int(s3.window), "series": series})
        lib.dtw_dba_ptrs(ptrs, n, lensa, avg.ptr, t_len, mask.ptr, 0, ndim, C.byref(s3))
        for bf in bufs + [avg, mask]:
            bf.free()
    pf.write(json.dumps({"done": True, "count": count}) + "\n")
    pf.close()
    return 0


if __name__ == "__main__":
    sys.exit(main())
