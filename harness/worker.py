"""Sub-process worker: reads {"fn": name, "cases": [[args, kwargs] ...]} on stdin, prints a JSON list."""
import json
import sys

from . import impl


def main():
    # a runaway loop in the code under test must not take the machine down: 12 GB of address space, 15 min of CPU
    try:
        import resource
        resource.setrlimit(resource.RLIMIT_AS, (12 * 2 ** 30, 12 * 2 ** 30))
        resource.setrlimit(resource.RLIMIT_CPU, (900, 960))
    except (ImportError, ValueError, OSError):
        pass
    job = json.load(sys.stdin)
    fn = getattr(impl, job["fn"])
    out = []
    for args, kwargs in job["cases"]:
        out.append(fn(*args, **kwargs))
    print(json.dumps(out))


if __name__ == "__main__":
    main()
