"""Sub-process worker: reads {"fn": name, "cases": [[args, kwargs] ...]} on stdin, prints a JSON list."""
import json
import sys

from . import impl


def main():
    job = json.load(sys.stdin)
    fn = getattr(impl, job["fn"])
    out = []
    for args, kwargs in job["cases"]:
        out.append(fn(*args, **kwargs))
    print(json.dumps(out))


if __name__ == "__main__":
    main()
