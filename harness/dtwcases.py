"""Structured generation of DTW cases on the exact integer lattice, and their translation into
(a) keyword arguments for the implementation and (b) operations for the Lean driver."""
import itertools
import math

SCALE = 2  # all model costs are multiplied by 2 so that thresholds strictly between lattice values exist


def psi_tuple(psi):
    if psi is None:
        return (0, 0, 0, 0)
    if isinstance(psi, int):
        return (psi, psi, psi, psi)
    return tuple(psi)


def degenerate_psi(case):
    r, c = npoints(case)
    p1b, p1e, p2b, p2e = psi_tuple(case.get("psi"))
    return (p1e >= r and p2b >= c) or (p2e >= c and p1b >= r)


def psi_in_range(case):
    r, c = npoints(case)
    p1b, p1e, p2b, p2e = psi_tuple(case.get("psi"))
    return p1b <= r and p1e <= r and p2b <= c and p2e <= c


def npoints(case):
    nd = case.get("ndim", 1)
    return len(case["s1"]) // nd, len(case["s2"]) // nd


def inner_name(case):
    return {"sq": "squared euclidean", "abs": "euclidean"}[case.get("inner", "sq")]


def internal_to_user(case, internal):
    """user-level value whose internal representation is `internal`"""
    if case.get("inner", "sq") == "sq":
        return math.sqrt(internal)
    return float(internal)


def py_kwargs(case):
    kw = {}
    for k in ("window", "max_length_diff"):
        if case.get(k) is not None:
            kw[k] = case[k]
    for k in ("penalty", "max_step"):
        if case.get(k) is not None:
            kw[k] = float(case[k])
    if case.get("psi") is not None:
        p = case["psi"]
        kw["psi"] = p if isinstance(p, int) else (list(p) if case.get("psi_list") else tuple(p))
    if case.get("inner", "sq") == "abs":
        kw["inner_dist"] = inner_name(case)
    if case.get("max_dist_I") is not None:
        kw["max_dist"] = internal_to_user(case, case["max_dist_I"] / SCALE)
    if case.get("use_pruning"):
        kw["use_pruning"] = True
    return kw


def lean_op(case, engine="py", want_mat=False, **extra):
    op = {"op": "dtw", "engine": engine, "s1": case["s1"], "s2": case["s2"], "ndim": case.get("ndim", 1),
          "inner": case.get("inner", "sq"), "scale": SCALE, "psi": list(psi_tuple(case.get("psi")))}
    for k, lk in (("window", "window"), ("penalty", "penalty"), ("max_step", "maxStep"),
                  ("max_length_diff", "mld"), ("max_dist_I", "maxDistI")):
        if case.get(k) is not None:
            op[lk] = case[k]
    if case.get("use_pruning"):
        op["prune"] = True
    if want_mat:
        op["wantMat"] = True
    op.update(extra)
    return op


def expected_from_internal(case, n):
    """float the implementation must return when the model's (scaled) internal value is n"""
    if n == "inf":
        return math.inf
    assert n % SCALE == 0
    v = n // SCALE
    if case.get("inner", "sq") == "sq":
        return math.sqrt(v)
    return float(v)


def same_float(a, b):
    if isinstance(a, str) or isinstance(b, str):
        return a == b
    if math.isinf(a) or math.isinf(b):
        return a == b
    return a == b


# ------------------------------------------------------------------------------------------------

def rand_series(rng, n, ndim=1, style=None):
    style = style or rng.choice(["small", "small", "wide", "neg", "const", "binary"])
    if style == "small":
        vals = lambda: rng.randint(-2, 2)
    elif style == "wide":
        vals = lambda: rng.randint(-8, 8)
    elif style == "neg":
        vals = lambda: rng.randint(-9, -3)
    elif style == "const":
        k = rng.randint(-3, 3)
        vals = lambda: k
    else:
        vals = lambda: rng.randint(0, 1)
    return [vals() for _ in range(n * ndim)]


def rand_window(rng, r, c):
    mx = max(r, c)
    opts = [None, None, 1, 2, 3, abs(r - c), abs(r - c) + 1, mx - 1, mx, mx + 1]
    w = rng.choice(opts)
    if w is not None and w < 1:
        w = 1
    return w


def rand_psi(rng, r, c):
    k = rng.random()
    if k < 0.45:
        return None
    if k < 0.6:
        return rng.randint(0, min(r, c))
    def one(n):
        return rng.choice([0, 0, 1, n - 1, n, rng.randint(0, n)])
    return [max(0, one(r)), max(0, one(r)), max(0, one(c)), max(0, one(c))]


def rand_case(rng, maxlen, ndim=1, inner=None, allow_psi=True, allow_maxstep=True, allow_pen=True,
              allow_mld=True):
    r = rng.randint(1, maxlen)
    c = r if rng.random() < 0.35 else rng.randint(1, maxlen)
    case = {"s1": rand_series(rng, r, ndim), "s2": rand_series(rng, c, ndim), "ndim": ndim,
            "inner": inner or rng.choice(["sq", "sq", "abs"])}
    case["window"] = rand_window(rng, r, c)
    if allow_pen:
        case["penalty"] = rng.choice([None, None, 0, 1, 2, 3])
    if allow_maxstep and rng.random() < 0.25:
        case["max_step"] = rng.choice([0, 1, 2, 3, 5])
    if allow_mld and rng.random() < 0.15:
        case["max_length_diff"] = rng.choice([0, 1, 2, abs(r - c), max(0, abs(r - c) - 1)])
    if allow_psi:
        case["psi"] = rand_psi(rng, r, c)
    return case


def exhaustive_cases(maxlen, alphabet=(0, 1, 3), windows=True, psis=True, limit_values=3, rng=None):
    """every (r, c, window, psi-int) for r, c <= maxlen with a few value assignments"""
    for r in range(1, maxlen + 1):
        for c in range(1, maxlen + 1):
            ws = [None] + list(range(1, max(r, c) + 2)) if windows else [None]
            ps = [None] + list(range(0, min(r, c) + 1)) if psis else [None]
            for w in ws:
                for p in ps:
                    for _ in range(limit_values):
                        s1 = [rng.choice(alphabet) for _ in range(r)]
                        s2 = [rng.choice(alphabet) for _ in range(c)]
                        yield {"s1": s1, "s2": s2, "ndim": 1, "inner": "sq", "window": w, "psi": p}


def case_key(case):
    return repr(sorted(case.items()))
