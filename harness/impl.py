"""Calls into the implementation under test (always the fresh build, see common.use_build)."""
import array
import json
import math
import os
import subprocess
import sys

from . import dtwcases as dc


def canon(x):
    """canonical JSON-able form of a float result"""
    if isinstance(x, str):
        return x
    x = float(x)
    if math.isnan(x):
        return "nan"
    if math.isinf(x):
        return "inf" if x > 0 else "-inf"
    return x + 0.0


def exc_name(e):
    return "exc:" + type(e).__name__


def to_container(vals, kind, ndim=1):
    vals = [float(v) for v in vals]
    if kind == "list":
        if ndim > 1:
            raise ValueError("list container only for ndim=1")
        return vals
    if kind == "array":
        return array.array("d", vals)
    import numpy as np
    a = np.array(vals, dtype=np.double)
    if ndim > 1:
        a = a.reshape((-1, ndim))
    return a


class CubeInner:
    """user-supplied inner distance: |x-y|**3, identity result / inner_val"""
    @staticmethod
    def inner_dist(x, y):
        return abs(x - y) ** 3

    @staticmethod
    def result(x):
        return x

    @staticmethod
    def inner_val(x):
        return x


class PowInner:
    """user-supplied inner distance carrying its own parameters (an instance, not a class):
    scale * |x-y|**p, identity result / inner_val"""
    def __init__(self, p, scale):
        self.p, self.scale = p, scale

    def inner_dist(self, x, y):
        return self.scale * abs(x - y) ** self.p

    def result(self, x):
        return x

    def inner_val(self, x):
        return x


class AsymInner:
    """user-supplied inner distance that is NOT symmetric in its arguments (a one-sided / pinball-like loss):
    `up` per unit the first series lies above the second, `down` per unit it lies below"""
    def __init__(self, up, down):
        self.up, self.down = up, down

    def inner_dist(self, x, y):
        return self.up * (x - y) if x > y else self.down * (y - x)

    def result(self, x):
        return x

    def inner_val(self, x):
        return x


def py_distance(case, container="numpy", fast=False):
    from dtaidistance import dtw, dtw_ndim
    nd = case.get("ndim", 1)
    kw = dc.py_kwargs(case)
    if case.get("inner") == "cube":
        kw["inner_dist"] = CubeInner
    elif case.get("inner") == "pow":
        kw["inner_dist"] = PowInner(case["p"], case["mul"])
    elif case.get("inner") == "asym":
        kw["inner_dist"] = AsymInner(case["up"], case["down"])
    if case.get("psi_np") and isinstance(kw.get("psi"), int):
        import numpy as _np
        kw["psi"] = _np.int64(kw["psi"])          # an integer psi may arrive as a NumPy integer
    s1 = to_container(case["s1"], container, nd)
    s2 = to_container(case["s2"], container, nd)
    try:
        if nd == 1 and not case.get("force_ndim"):
            f = dtw.distance_fast if fast else dtw.distance
        else:
            f = dtw_ndim.distance_fast if fast else dtw_ndim.distance
        return canon(f(s1, s2, **kw))
    except BaseException as e:  # AssertionError, ValueError, ...
        if isinstance(e, (KeyboardInterrupt, SystemExit)):
            raise
        return exc_name(e)


def run_worker(fn_name, cases, env_extra=None, timeout=600):
    """Evaluate harness.impl.<fn_name>(case, **kw) for every case in a fresh sub-process
    (used for NumPy-absent runs and for calls that may corrupt the heap)."""
    env = dict(os.environ)
    env.update(env_extra or {})
    data = json.dumps({"fn": fn_name, "cases": cases})
    r = subprocess.run([sys.executable, "-m", "harness.worker"], input=data, capture_output=True, text=True,
                       env=env, timeout=timeout, cwd=os.path.dirname(os.path.dirname(os.path.abspath(__file__))))
    if r.returncode != 0:
        return {"crashed": True, "rc": r.returncode, "stderr": r.stderr[-2000:], "results": None}
    return {"crashed": False, "results": json.loads(r.stdout.strip().split("\n")[-1])}


# ---------------------------------------------------------------------------------------------------------------------
# C18: affinity matrices and local-concurrence matches (evaluated in a worker sub-process: the C routines write
# into caller-provided buffers)
def _hex_matrix(m):
    import math as _m
    return [[None if _m.isinf(float(v)) and float(v) < 0 else float(v).hex() for v in row] for row in m]


def affinity_eval(case):
    """case: s1, s2 (lists of floats), window, only_triu, penalty, gamma, tau, delta, delta_factor, calls
    (list of {k, minlen, restart}); returns matrices (hex floats, None = -inf) and the matches of each engine"""
    import numpy as np
    from dtaidistance import dtw, dtw_cc
    from dtaidistance.subsequence.localconcurrences import LocalConcurrences
    s1 = np.array(case["s1"], dtype=float)
    s2 = np.array(case["s2"], dtype=float)
    l1, l2 = len(s1), len(s2)
    kw = dict(window=case["window"], only_triu=case["only_triu"], penalty=case["penalty"], gamma=case["gamma"],
              tau=case["tau"], delta=case["delta"], delta_factor=case["delta_factor"])
    out = {}

    class _Timeout(Exception):
        pass

    def guard(name, fn):
        # the searches loop in Python code: a search that never ends is interrupted after 20 s and reported
        import signal

        def on_alarm(signum, frame):
            raise _Timeout()
        old = signal.signal(signal.SIGALRM, on_alarm)
        signal.setitimer(signal.ITIMER_REAL, 20.0)
        try:
            out[name] = fn()
        except _Timeout:
            out[name] = {"error": "Timeout: the routine did not return within 20 s (endless search)"}
        except BaseException as ex:
            if isinstance(ex, (KeyboardInterrupt, SystemExit)):
                raise
            out[name] = {"error": type(ex).__name__ + ":" + str(ex)[:120]}
        finally:
            signal.setitimer(signal.ITIMER_REAL, 0)
            signal.signal(signal.SIGALRM, old)

    guard("py", lambda: _hex_matrix(dtw.warping_paths_affinity(s1, s2, **kw)[1]))
    guard("py_use_c", lambda: _hex_matrix(dtw.warping_paths_affinity(s1, s2, use_c=True, **kw)[1]))
    guard("c_full", lambda: _hex_matrix(dtw.warping_paths_affinity_fast(s1, s2, **kw)[1]))

    def compact():
        _, mk = dtw.warping_paths_affinity_fast(s1, s2, compact=True, **kw)
        st = dtw_cc.DTWSettings(window=case["window"] or 0, penalty=case["penalty"] or 0)
        full = np.empty((l1 + 1, l2 + 1))
        dtw_cc.wps_expand_slice(mk, full, l1, l2, 0, l1 + 1, 0, l2 + 1, st)
        slices = []
        for (rb, re_, cb, ce) in case.get("slices", []):
            sl = np.empty((re_ - rb, ce - cb))
            dtw_cc.wps_expand_slice(mk, sl, l1, l2, rb, re_, cb, ce, st)
            slices.append(_hex_matrix(sl))
        out["c_compact_slices"] = slices
        return _hex_matrix(full)
    guard("c_compact", compact)

    def matches(engine):
        ekw = {"py": dict(use_c=False), "c_full": dict(use_c=True, compact=False), "c_compact": dict(use_c=True, compact=True)}[engine]
        same = case.get("self", False)
        lc = LocalConcurrences(s1, None if same else s2, gamma=case["gamma"], tau=case["tau"], delta=case["delta"],
                               delta_factor=case["delta_factor"], only_triu=case["only_triu"], penalty=case["penalty"],
                               window=case["window"], **ekw)
        lc.align()
        if engine == "c_compact":
            start = lc.wp_slice()
        else:
            start = np.where(np.ma.getmaskarray(lc._wp), -np.inf, lc._wp.data)
            masked = np.ma.getmaskarray(lc._wp).tolist()
        res = {"start": _hex_matrix(start), "calls": []}
        if engine != "c_compact":
            res["masked"] = masked
        # every match uses at least one cell no earlier match of the same search used: more matches than cells means
        # that the search finds a match again and again (it would never end for k=None)
        cap = (len(case["s1"]) + 1) * (len(case["s2"] if case.get("s2") is not None else case["s1"]) + 1) + 2
        for call in case["calls"]:
            ms = []
            for m in lc.kbest_matches(k=call["k"], minlen=call["minlen"], restart=call["restart"]):
                ms.append({"row": int(m.row), "col": int(m.col), "path": [[int(a), int(b)] for a, b in m.path]})
                if len(ms) > cap:
                    res["runaway"] = True
                    break
            res["calls"].append(ms)
            if res.get("runaway"):
                break
        # the storing variant of the search, continued without restart, with and without a progress callable
        def store_history(progress):
            lc2 = LocalConcurrences(s1, None if same else s2, gamma=case["gamma"], tau=case["tau"], delta=case["delta"],
                                    delta_factor=case["delta_factor"], only_triu=case["only_triu"], penalty=case["penalty"],
                                    window=case["window"], **ekw)
            lc2.align()
            outp = []
            for kk_, kwargs_ in ((1, dict(restart=True, keep=True)), (2, dict(restart=False, keep=True))):
                if progress:
                    kwargs_ = dict(kwargs_, tqdm=lambda it_, total=None: it_)
                ms_ = lc2.kbest_matches_store(k=kk_, minlen=1, **kwargs_)
                outp.append([[[int(a), int(b)] for a, b in m.path] for m in ms_])
            return outp
        res["store_plain"] = store_history(False)
        res["store_progress"] = store_history(True)
        # the positivized view (marks of the matches removed) must show the matrix as it was before the searches
        res["positivized_equals_start"] = bool(np.array_equal(
            np.where(np.isneginf(np.asarray(lc.wp_slice(positivize=True), dtype=float)), -np.inf,
                     np.asarray(lc.wp_slice(positivize=True), dtype=float)),
            np.asarray(start, dtype=float), equal_nan=True))
        return res
    for engine in ("py", "c_full", "c_compact"):
        guard("lc_" + engine, lambda e=engine: matches(e))
    return out


# ---------------------------------------------------------------------------------------------------------------------
# C08: the Cython wrappers allocate the buffers the C routines write into; run under PYTHONMALLOC=debug (guard bytes
# around every block of the Python allocators, checked on release) in a worker process
def glue_matrix(series, ndim, block, kw):
    """distance matrix through the dtw_cc / dtw_cc_omp wrappers; returns the lengths of the returned buffers and the
    number of pairs the block selects"""
    import gc
    import numpy as np
    from dtaidistance import dtw_cc
    try:
        from dtaidistance import dtw_cc_omp
    except ImportError:
        dtw_cc_omp = None
    arrs = [np.array(s, dtype=float).reshape((-1, ndim)) if ndim > 1 else np.array(s, dtype=float) for s in series]
    n = len(arrs)
    if block is None:
        barg, want = None, n * (n - 1) // 2
    else:
        rb, re_, cb, ce, triu = block
        barg = ((rb, re_), (cb, ce)) if triu else ((rb, re_), (cb, ce), False)
        want = sum(1 for r in range(rb, re_) for c in range(cb, ce) if (c > r or not triu))
    out = {"want": want, "got": {}}
    fns = {"dtw_cc": (dtw_cc.distance_matrix if ndim == 1 else dtw_cc.distance_matrix_ndim)}
    if dtw_cc_omp is not None:
        fns["dtw_cc_omp"] = (dtw_cc_omp.distance_matrix if ndim == 1 else dtw_cc_omp.distance_matrix_ndim)
    for name, fn in fns.items():
        from dtaidistance.util import SeriesContainer
        data = SeriesContainer.wrap(arrs)          # what dtw.distance_matrix / dtw_ndim.distance_matrix hand over
        r = fn(data, block=barg, **kw) if ndim == 1 else fn(data, ndim, block=barg, **kw)
        out["got"][name] = len(r)
        del r
        gc.collect()
    return out


def glue_converted(series, kind):
    """C distance matrix / DBA on a list of LONG series that must be converted before the C code can read them (integers,
    every second sample of a buffer): the converted copies have to stay alive while the C code runs. Run with
    MALLOC_PERTURB_ set, so that a released buffer is overwritten at once. Returns the results for the converted input
    and for plain float64 copies."""
    import gc
    import numpy as np
    from dtaidistance import dtw, dtw_barycenter
    plain = [np.array(s, dtype=np.double) for s in series]
    if kind == "int":
        data = [np.array(s, dtype=np.int64) for s in series]
    else:
        data = []
        for s in series:
            big = np.full(2 * len(s), 123.0)
            big[::2] = s
            data.append(big[::2])
    out = {}
    for name, fn in (("distance_matrix(use_c)", lambda d: list(dtw.distance_matrix(d, use_c=True, compact=True))),
                     ("distance_matrix_fast", lambda d: list(dtw.distance_matrix_fast(d, compact=True))),
                     ("dba_loop(use_c)", lambda d: np.asarray(dtw_barycenter.dba_loop(d, None, max_it=2, thr=None,
                                                                                     use_c=True)).tolist())):
        junk = [np.ones(len(series[0])) * k for k in range(8)]      # allocator traffic between the calls
        a = fn(data)
        del junk
        gc.collect()
        b = fn(plain)
        out[name] = [a, b]
    return out


# ---------------------------------------------------------------------------------------------------------------------
# C20: routines that must work (and give the same floats) without NumPy
def purity_nonumpy(a, b, w):
    import array as _array
    from dtaidistance import dtw, ed
    kw = {} if w is None else {"window": w}
    out = {}
    for name, (x, y) in (("list", (list(a), list(b))), ("array", (_array.array("d", a), _array.array("d", b)))):
        out[name] = [float(dtw.distance(x, y, **kw)).hex(), float(dtw.lb_keogh(x, y, **kw)).hex(),
                     float(ed.distance(x, y)).hex(), float(dtw.ub_euclidean(x, y)).hex(),
                     [float(v).hex() for v in dtw.distance_matrix([x, y, x], compact=True, **kw)]]
    return out


# ---------------------------------------------------------------------------------------------------------------------
# C07: OpenMP distance matrix vs serial under a given runtime environment (thread limits are read when libgomp starts,
# so this runs in a worker sub-process with OMP_* set)
def omp_vs_serial(series, ndim, block, kw):
    import numpy as np
    from dtaidistance import dtw, dtw_ndim
    mod = dtw if ndim == 1 else dtw_ndim
    data = [np.array(s, dtype=float).reshape((-1, ndim)) if ndim > 1 else np.array(s, dtype=float) for s in series]
    extra = {} if ndim == 1 else {"ndim": ndim}
    blk = None if block is None else ((block[0], block[1]), (block[2], block[3]), bool(block[4]))
    ser = list(mod.distance_matrix(data, block=blk, compact=True, parallel=False, use_c=True, **extra, **kw))
    out = []
    for _ in range(3):
        par = list(mod.distance_matrix(data, block=blk, compact=True, parallel=True, use_c=True, **extra, **kw))
        out.append([float(x).hex() for x in par])
    return {"serial": [float(x).hex() for x in ser], "parallel": out}
