"""Calls into the implementation under test (always the fresh build, see common.use_build)."""
import array
import json
import math
import os
import subprocess
import sys

from . import dtwcases as dc


def canon(x):
    """canonical JSON-able form of a float result"""
    if isinstance(x, str):
        return x
    x = float(x)
    if math.isnan(x):
        return "nan"
    if math.isinf(x):
        return "inf" if x > 0 else "-inf"
    return x + 0.0


def exc_name(e):
    return "exc:" + type(e).__name__


def to_container(vals, kind, ndim=1):
    vals = [float(v) for v in vals]
    if kind == "list":
        if ndim > 1:
            raise ValueError("list container only for ndim=1")
        return vals
    if kind == "array":
        return array.array("d", vals)
    import numpy as np
    a = np.array(vals, dtype=np.double)
    if ndim > 1:
        a = a.reshape((-1, ndim))
    return a


class CubeInner:
    """user-supplied inner distance: |x-y|**3, identity result / inner_val"""
    @staticmethod
    def inner_dist(x, y):
        return abs(x - y) ** 3

    @staticmethod
    def result(x):
        return x

    @staticmethod
    def inner_val(x):
        return x


def py_distance(case, container="numpy", fast=False):
    from dtaidistance import dtw, dtw_ndim
    nd = case.get("ndim", 1)
    kw = dc.py_kwargs(case)
    if case.get("inner") == "cube":
        kw["inner_dist"] = CubeInner
    s1 = to_container(case["s1"], container, nd)
    s2 = to_container(case["s2"], container, nd)
    try:
        if nd == 1 and not case.get("force_ndim"):
            f = dtw.distance_fast if fast else dtw.distance
        else:
            f = dtw_ndim.distance_fast if fast else dtw_ndim.distance
        return canon(f(s1, s2, **kw))
    except BaseException as e:  # AssertionError, ValueError, ...
        if isinstance(e, (KeyboardInterrupt, SystemExit)):
            raise
        return exc_name(e)


def run_worker(fn_name, cases, env_extra=None, timeout=600):
    """Evaluate harness.impl.<fn_name>(case, **kw) for every case in a fresh sub-process
    (used for NumPy-absent runs and for calls that may corrupt the heap)."""
    env = dict(os.environ)
    env.update(env_extra or {})
    data = json.dumps({"fn": fn_name, "cases": cases})
    r = subprocess.run([sys.executable, "-m", "harness.worker"], input=data, capture_output=True, text=True,
                       env=env, timeout=timeout, cwd=os.path.dirname(os.path.dirname(os.path.abspath(__file__))))
    if r.returncode != 0:
        return {"crashed": True, "rc": r.returncode, "stderr": r.stderr[-2000:], "results": None}
    return {"crashed": False, "results": json.loads(r.stdout.strip().split("\n")[-1])}
