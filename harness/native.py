"""Native access to the repository's C sources: builds libdd*.so from /repo's *current* dd_*.c and
wraps the exported functions with ctypes.  Variants:
  plain : -O1 -g, assertions ON (the Python extension is built with -DNDEBUG)
  asan  : clang/gcc -fsanitize=address,undefined (run in a sub-process with LD_PRELOAD of libasan)
"""
import ctypes as C
import fcntl
import hashlib
import os
import shutil
import subprocess

from . import common
from .common import Infra, log

CSRC = os.path.join(common.REPO, "src", "DTAIDistanceC", "DTAIDistanceC")
FILES = ["dd_dtw.c", "dd_ed.c", "dd_dtw_openmp.c", "dd_globals.c"]

idx_t = C.c_ssize_t
seq_t = C.c_double


class DTWSettings(C.Structure):
    _fields_ = [("window", idx_t), ("max_dist", seq_t), ("max_step", seq_t), ("max_length_diff", idx_t),
                ("penalty", seq_t), ("psi_1b", idx_t), ("psi_1e", idx_t), ("psi_2b", idx_t), ("psi_2e", idx_t),
                ("use_pruning", C.c_bool), ("only_ub", C.c_bool), ("inner_dist", C.c_int), ("window_type", C.c_int)]


class DTWBlock(C.Structure):
    _fields_ = [("rb", idx_t), ("re", idx_t), ("cb", idx_t), ("ce", idx_t), ("triu", C.c_bool)]


class DTWWps(C.Structure):
    _fields_ = [("ldiff", idx_t), ("ldiffr", idx_t), ("ldiffc", idx_t), ("window", idx_t), ("width", idx_t),
                ("length", idx_t), ("ri1", idx_t), ("ri2", idx_t), ("ri3", idx_t), ("overlap_left_ri", idx_t),
                ("overlap_right_ri", idx_t), ("max_step", seq_t), ("max_dist", seq_t), ("penalty", seq_t)]


def csrc_hash():
    h = hashlib.sha256()
    for root, _d, files in os.walk(CSRC):
        if "jinja" in root:
            continue
        for f in sorted(files):
            if f.endswith((".c", ".h")):
                h.update(f.encode())
                h.update(open(os.path.join(root, f), "rb").read())
    return h.hexdigest()[:16]


def build(variant="plain"):
    os.makedirs(common.CACHE, exist_ok=True)
    hh = csrc_hash()
    out = os.path.join(common.CACHE, "libdd-%s-%s.so" % (variant, hh))
    lock = open(os.path.join(common.CACHE, "native.lock"), "w")
    fcntl.flock(lock, fcntl.LOCK_EX)
    try:
        if os.path.exists(out):
            return out
        for f in os.listdir(common.CACHE):
            if f.startswith("libdd-%s-" % variant):
                os.unlink(os.path.join(common.CACHE, f))
        srcs = [os.path.join(CSRC, f) for f in FILES]
        if variant == "plain":
            cmd = ["gcc", "-shared", "-fPIC", "-O1", "-g", "-fopenmp", "-o", out] + srcs + ["-lm"]
        elif variant == "asan":
            cmd = ["gcc", "-shared", "-fPIC", "-O1", "-g", "-fopenmp", "-fsanitize=address,undefined",
                   "-fno-omit-frame-pointer", "-fno-sanitize-recover=undefined", "-o", out] + srcs + ["-lm"]
        elif variant == "tsan":
            cmd = ["gcc", "-shared", "-fPIC", "-O1", "-g", "-fopenmp", "-fsanitize=thread", "-o", out] + srcs + ["-lm"]
        else:
            raise ValueError(variant)
        r = subprocess.run(cmd, capture_output=True, text=True)
        if r.returncode != 0:
            raise Infra("native build failed (%s):\n%s" % (variant, r.stderr[-3000:]))
        log("[native] built %s" % out)
        return out
    finally:
        fcntl.flock(lock, fcntl.LOCK_UN)
        lock.close()


def asan_preload():
    r = subprocess.run(["gcc", "-print-file-name=libasan.so"], capture_output=True, text=True)
    p = r.stdout.strip()
    return os.path.realpath(p)


_P = C.POINTER


def load(variant="plain"):
    lib = C.CDLL(build(variant))
    S = _P(DTWSettings)
    dp = _P(seq_t)
    ip = _P(idx_t)

    def sig(name, res, args):
        f = getattr(lib, name)
        f.restype = res
        f.argtypes = args
        return f
    sig("dtw_settings_default", DTWSettings, [])
    sig("dtw_settings_wps_length", idx_t, [idx_t, idx_t, S])
    sig("dtw_settings_wps_width", idx_t, [idx_t, idx_t, S])
    for n in ("dtw_distance", "dtw_distance_euclidean"):
        sig(n, seq_t, [dp, idx_t, dp, idx_t, S])
    for n in ("dtw_distance_ndim", "dtw_distance_ndim_euclidean"):
        sig(n, seq_t, [dp, idx_t, dp, idx_t, C.c_int, S])
    for n in ("dtw_warping_paths", "dtw_warping_paths_euclidean"):
        sig(n, seq_t, [dp, dp, idx_t, dp, idx_t, C.c_bool, C.c_bool, C.c_bool, S])
    for n in ("dtw_warping_paths_ndim", "dtw_warping_paths_ndim_euclidean"):
        sig(n, seq_t, [dp, dp, idx_t, dp, idx_t, C.c_bool, C.c_bool, C.c_bool, C.c_int, S])
    sig("dtw_warping_paths_affinity", seq_t, [dp, dp, idx_t, dp, idx_t, C.c_bool, C.c_bool, C.c_bool, C.c_bool,
                                             seq_t, seq_t, seq_t, seq_t, S])
    sig("dtw_expand_wps", None, [dp, dp, idx_t, idx_t, S])
    sig("dtw_expand_wps_slice", None, [dp, dp, idx_t, idx_t, idx_t, idx_t, idx_t, idx_t, S])
    sig("dtw_expand_wps_affinity", None, [dp, dp, idx_t, idx_t, S])
    sig("dtw_expand_wps_slice_affinity", None, [dp, dp, idx_t, idx_t, idx_t, idx_t, idx_t, idx_t, S])
    sig("dtw_wps_parts", DTWWps, [idx_t, idx_t, S])
    sig("dtw_wps_loc", idx_t, [_P(DTWWps), idx_t, idx_t, idx_t, idx_t])
    sig("dtw_wps_loc_columns", idx_t, [_P(DTWWps), idx_t, ip, ip, idx_t, idx_t])
    sig("dtw_best_path", idx_t, [dp, ip, ip, idx_t, idx_t, S])
    sig("dtw_best_path_customstart", idx_t, [dp, ip, ip, idx_t, idx_t, idx_t, idx_t, S])
    sig("dtw_best_path_isclose", idx_t, [dp, ip, ip, idx_t, idx_t, seq_t, seq_t, S])
    sig("dtw_warping_path", seq_t, [dp, idx_t, dp, idx_t, ip, ip, ip, S])
    sig("dtw_warping_path_ndim", seq_t, [dp, idx_t, dp, idx_t, ip, ip, ip, C.c_int, S])
    for n in ("ub_euclidean", "ub_euclidean_euclidean", "euclidean_distance", "euclidean_distance_euclidean"):
        sig(n, seq_t, [dp, idx_t, dp, idx_t])
    for n in ("ub_euclidean_ndim", "ub_euclidean_ndim_euclidean", "euclidean_distance_ndim",
              "euclidean_distance_ndim_euclidean"):
        sig(n, seq_t, [dp, idx_t, dp, idx_t, C.c_int])
    for n in ("lb_keogh", "lb_keogh_euclidean"):
        sig(n, seq_t, [dp, idx_t, dp, idx_t, S])
    sig("dtw_distances_length", idx_t, [_P(DTWBlock), idx_t, idx_t])
    pp = _P(dp)
    sig("dtw_distances_ptrs", idx_t, [pp, idx_t, ip, dp, _P(DTWBlock), S])
    sig("dtw_distances_ndim_ptrs", idx_t, [pp, idx_t, ip, C.c_int, dp, _P(DTWBlock), S])
    sig("dtw_distances_matrix", idx_t, [dp, idx_t, idx_t, dp, _P(DTWBlock), S])
    sig("dtw_distances_ndim_matrix", idx_t, [dp, idx_t, idx_t, C.c_int, dp, _P(DTWBlock), S])
    sig("dtw_distances_ptrs_parallel", idx_t, [pp, idx_t, ip, dp, _P(DTWBlock), S])
    sig("dtw_distances_ndim_ptrs_parallel", idx_t, [pp, idx_t, ip, C.c_int, dp, _P(DTWBlock), S])
    sig("dtw_distances_matrix_parallel", idx_t, [dp, idx_t, idx_t, dp, _P(DTWBlock), S])
    sig("dtw_distances_ndim_matrix_parallel", idx_t, [dp, idx_t, idx_t, C.c_int, dp, _P(DTWBlock), S])
    sig("dtw_dba_ptrs", None, [pp, idx_t, ip, dp, idx_t, _P(C.c_ubyte), C.c_int, C.c_int, S])
    sig("dtw_dba_matrix", None, [dp, idx_t, idx_t, dp, idx_t, _P(C.c_ubyte), C.c_int, C.c_int, S])
    return lib


def settings_from_case(case, **over):
    """C settings for a dtwcases-style case (values as the Python glue would pass them: None -> 0)."""
    from . import dtwcases as dc
    s = DTWSettings()
    s.window = case.get("window") or 0
    s.max_step = float(case.get("max_step") or 0)
    s.penalty = float(case.get("penalty") or 0)
    s.max_length_diff = case.get("max_length_diff") or 0
    p = dc.psi_tuple(case.get("psi"))
    s.psi_1b, s.psi_1e, s.psi_2b, s.psi_2e = p
    s.inner_dist = 1 if case.get("inner", "sq") == "abs" else 0
    s.use_pruning = bool(case.get("use_pruning"))
    s.only_ub = False
    if case.get("max_dist_I") is not None:
        s.max_dist = dc.internal_to_user(case, case["max_dist_I"] / dc.SCALE)
    for k, v in over.items():
        setattr(s, k, v)
    return s


def darr(vals):
    return (seq_t * len(vals))(*[float(v) for v in vals])
